(* Executable judge for C11 correspondence cases: a history of Go data values rendered one after the other in
   one process on one engine (often a single value), several paths rendered against each value. *)
From PV Require Import Base.Bytes Base.Escape Run.Verdict.
From PV Require Export Models.Convert.   (* case files name the constructors of gv / step *)

Record pobs := {
  po_steps : list step;
  po_raw   : bool;    (* != path *)
  po_stmt  : bool;    (* not an output: the statement `- path.push('v')`, rendered for its effect on the list that
                         the conversion made for this render; po_steps is the path of the list *)
  po_class : nat;     (* what Go did: 0 = output, 1 = execution error / panic, 2 = anything else (load error ...) *)
  po_out   : bytes;   (* output bytes when po_class = 0 *)
}.

Record case11 := { data : gv; paths : list pobs }.    (* one value of the history *)

(* the property itself on Go's own output, computed from S only: the leaf the path reaches in Go, printed;
   nothing when the path reaches nothing; never an error *)
Definition oracle11 (d : gv) (po : pobs) : bool :=
  Nat.eqb (po_class po) 0 &&
  beqb (po_out po) (render (po_raw po) (leaf_text (go_path d (po_steps po)))).

Definition agree11 (d : gv) (po : pobs) : bool :=
  match run d (po_steps po) (po_raw po) with
  | ROk t => Nat.eqb (po_class po) 0 && beqb t (po_out po)
  | REr => Nat.eqb (po_class po) 1
  | RUnmod => false
  end.

(* ------------------------------------------------------------------ names whose first letter is not ASCII
   Go exports a name whose first LETTER is upper-case (Ärger, Ωmega, Жук) and lowerFirst lowers the first RUNE.
   Models.Convert states the name mapping on ASCII (its domain excludes other initials); here it is extended to the
   first rune for the two-byte letters of Latin-1 (U+00C0..U+00DE without the multiplication sign), Greek
   (U+0391..U+03A9) and Cyrillic (U+0410..U+042F): [lower_rune]. A data tree that has such member names is judged on
   its NORMAL FORM [norm d] - every exported field name and method name with its first rune lowered, after which the
   ASCII mapping of S and M is the identity on these names - by the same oracle and model, with the ASCII
   restriction on names lifted ([dom_wide]). An initial that lower_rune does not know: declined. *)
Definition lower_rune (s : bytes) : bytes :=
  match s with
  | c1 :: c2 :: r =>
    let a := N_of_ascii c1 in
    let b := N_of_ascii c2 in
    if N.eqb a 195 then                                      (* C3 80..9E: U+00C0..U+00DE *)
      if N.leb 128 b && N.leb b 158 && negb (N.eqb b 151) then c1 :: ascii_of_N (b + 32) :: r else s
    else if N.eqb a 206 then                                 (* CE 91..A9: U+0391..U+03A9 *)
      if N.leb 145 b && N.leb b 159 then c1 :: ascii_of_N (b + 32) :: r
      else if N.leb 160 b && N.leb b 169 && negb (N.eqb b 162) then ascii_of_N 207 :: ascii_of_N (b - 32) :: r
      else s
    else if N.eqb a 208 then                                 (* D0 90..AF: U+0410..U+042F *)
      if N.leb 144 b && N.leb b 159 then c1 :: ascii_of_N (b + 32) :: r
      else if N.leb 160 b && N.leb b 175 then ascii_of_N 209 :: ascii_of_N (b - 32) :: r
      else s
    else s
  | _ => s
  end.

(* the mapping leaves every name with an ASCII initial alone (there the ASCII mapping of Models.Convert applies) *)
Lemma lower_rune_ascii : forall n, ascii_initial n = true -> lower_rune n = n.
Proof.
  intros [|c1 [|c2 r]]; try reflexivity.
  unfold ascii_initial, is_ascii, lower_rune. intro H. apply N.ltb_lt in H. cbv zeta.
  destruct (N.eqb_spec (N_of_ascii c1) 195) as [E|_]; [rewrite E in H; apply N.ltb_lt in H; discriminate|].
  destruct (N.eqb_spec (N_of_ascii c1) 206) as [E|_]; [rewrite E in H; apply N.ltb_lt in H; discriminate|].
  destruct (N.eqb_spec (N_of_ascii c1) 208) as [E|_]; [rewrite E in H; apply N.ltb_lt in H; discriminate|].
  reflexivity.
Qed.

(* spot checks against the Unicode tables: upper-case letters of the three ranges, the multiplication sign and
   letters that are lower-case already *)
Example lower_rune_examples :
  map lower_rune [B "Ärger"; B "Übersicht"; B "Þing"; B "Àb"; B "×x"; B "ßa"; B "ärger"; B "Ωmega"; B "Αb"; B "Πi"; B "Σum";
                  B "Жук"; B "Яблоко"; B "Аб"; B "Title"; B "Ö"]
  = [B "ärger"; B "übersicht"; B "þing"; B "àb"; B "×x"; B "ßa"; B "ärger"; B "ωmega"; B "αb"; B "πi"; B "σum";
     B "жук"; B "яблоко"; B "аб"; B "Title"; B "ö"].
Proof. vm_compute. reflexivity. Qed.

Fixpoint norm (g : gv) : gv :=
  match g with
  | GSlice l => GSlice (map norm l)
  | GMap l => GMap (map (fun kv => (fst kv, norm (snd kv))) l)
  | GStruct fs vm pm =>
    GStruct (map (fun f => match f with (n, e, v) => ((if e : bool then lower_rune n else n), e, norm v) end) fs)
            (map (fun m => match m with (n, sg, r) => (lower_rune n, sg, norm r) end) vm)
            (map (fun m => match m with (n, sg, r) => (lower_rune n, sg, norm r) end) pm)
  | GPtr v => GPtr (norm v)
  | GIface nm v => GIface nm (norm v)
  | GFunc sg r => GFunc sg (norm r)
  | _ => g
  end.

(* P holds of the name of every exported field and of every method in the tree *)
Fixpoint names_all (P : bytes -> bool) (g : gv) : bool :=
  match g with
  | GSlice l => forallb (names_all P) l
  | GMap l => forallb (fun kv => names_all P (snd kv)) l
  | GStruct fs vm pm =>
    forallb (fun f => match f with (n, e, v) => (negb e || P n) && names_all P v end) fs
    && forallb (fun m => match m with (n, _, r) => P n && names_all P r end) vm
    && forallb (fun m => match m with (n, _, r) => P n && names_all P r end) pm
  | GPtr v => names_all P v
  | GIface _ v => names_all P v
  | GFunc _ r => names_all P r
  | _ => true
  end.

Definition has_wide (d : gv) : bool := negb (names_all ascii_initial d).
Definition wide_known (d : gv) : bool :=
  names_all (fun n => ascii_initial n || negb (beqb (lower_rune n) n)) d.

Definition wide_name (n : bytes) : bool := negb (beqb n []) && negb (beqb n (B "__assign")).
Definition dom_wide (d : gv) (p : list step) (raw : bool) : bool :=
  forallb (fun s => match s with Field n => wide_name n | _ => true end) p
  && match p with Field n :: _ => negb (mem n reserved_top) | _ => false end
  && shape_ok d p && fold_free d p && negb (top_method d p) && negb (raw_undefined d p raw).

(* a statement `- xs.push('v')`: it prints nothing and is no error; what it does to the list belongs to the render
   that ran it (the spec of the other paths and values knows no such statement: C11_history) *)
Definition reaches_list (d : gv) (p : list step) : bool :=
  match go_walk d p with
  | Some g => match strip g with GSlice _ | GSliceNil => true | _ => false end
  | None => false
  end.

(* in domain when the path reaches a list of the page data (nil and empty ones included); a push on anything else
   (an absent name, a leaf) is not a statement of this check: declined *)
Definition judge_stmt (d : gv) (po : pobs) : nat :=
  if negb (reaches_list d (po_steps po)) then v_unmodelled
  else if Nat.eqb (po_class po) 0 && beqb (po_out po) [] then v_agree else v_violation.

Definition judge_with (dom : gv -> list step -> bool -> bool) (d : gv) (po : pobs) : nat :=
  let p := po_steps po in
  let raw := po_raw po in
  match run d p raw with
  | RUnmod => v_unmodelled
  | _ =>
    let ok := oracle11 d po in
    let ag := agree11 d po in
    if dom d p raw then verdict true ok ag
    else if ag then
      if ok then v_agree
      else if negb (fold_free d p) then v_known 1       (* F-C11-a *)
      else if top_method d p then v_known 2             (* F-C11-b *)
      else if raw_undefined d p raw then v_known 3      (* F-C11-c *)
      else v_agree                                      (* off-domain quirk, reproduced by the model *)
    else v_drift
  end.

Definition judge_path (d : gv) (po : pobs) : nat :=
  if po_stmt po then judge_stmt (if has_wide d then norm d else d) po
  else if has_wide d then
    if wide_known d then judge_with dom_wide (norm d) po else v_unmodelled
  else judge_with dom_C11 d po.

(* one code per case: violation > drift > known (smallest class) > unmodelled > agree *)
Definition rank (v : nat) : nat :=
  if Nat.eqb v 1 then 1000 else if Nat.eqb v 2 then 900
  else if Nat.leb 10 v then 800 - v else if Nat.eqb v 3 then 10 else 0.

Definition worse (a b : nat) : nat := if Nat.ltb (rank a) (rank b) then b else a.

Definition judge_value (c : case11) : nat :=
  fold_left (fun acc po => worse acc (judge_path (data c) po)) (paths c) v_agree.

(* a history is judged value by value: the spec of a value knows nothing of what was rendered before it
   (Props/C11.v, C11_history), so whatever an earlier conversion leaves behind can only show as a violation
   or drift on a later value *)
Definition judge (h : list case11) : nat :=
  fold_left (fun acc c => worse acc (judge_value c)) h v_agree.

(* diagnostics for replays: per value, per path (model, spec text, in-domain, verdict) *)
Definition explain_value (c : case11) :=
  let d := if has_wide (data c) then norm (data c) else data c in
  map (fun po => (run d (po_steps po) (po_raw po),
                  render (po_raw po) (leaf_text (go_path d (po_steps po))),
                  (if has_wide (data c) then dom_wide else dom_C11) d (po_steps po) (po_raw po),
                  judge_path (data c) po)) (paths c).
Definition explain (h : list case11) := map explain_value h.
