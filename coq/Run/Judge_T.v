(* Shared judge for template cases: emitted-text seam and output seam. *)
From PV Require Export Base.Bytes Js.Ast Pug.Ast Tmpl.Value Tmpl.IR Tmpl.Exec.
From PV Require Import Pug.Compile Run.Verdict.

Record caseT := {
  t_nodes : list pnode;
  t_data : dval;
  t_debug : bool;
  t_funcs : list bytes;
  go_loaded : bool;          (* LoadTemplates succeeded *)
  go_code : bytes;           (* Engine.TemplateCode[name] *)
  go_class : nat;            (* 0 ok, 1 execution panic, 2 other error *)
  go_out : bytes;
}.

Definition model_toks (c : caseT) : option (list tok) := compile (t_funcs c) (t_debug c) (t_nodes c).

Definition model_outcome (c : caseT) : outcome :=
  match model_toks c with
  | None => OUnmod
  | Some ts =>
    match parse_program ts with
    | None => OUnmod
    | Some p => run_program p (t_data c)
    end
  end.

(* 0 agree, 1 differ, 3 unmodelled *)
Definition text_seam (c : caseT) : nat :=
  match model_toks c with
  | None => 3
  | Some ts => if go_loaded c && beqb (show_toks ts) (go_code c) then 0 else 1
  end.

(* 0 agree, 2 differ, 3 unmodelled *)
Definition out_seam (c : caseT) : nat :=
  match model_outcome c with
  | OUnmod | OFuel => 3
  | OOk o => if go_loaded c && Nat.eqb (go_class c) 0 && beqb o (go_out c) then 0 else 2
  | OPanic => if go_loaded c && Nat.eqb (go_class c) 1 then 0 else 2
  end.

Definition judge_seams (c : caseT) : nat := 10 * text_seam c + out_seam c.
