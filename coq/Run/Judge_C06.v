(* C06 judge.
   Static trees (tags without attributes, text, doctype, blocks, comments): the oracle on Go's own output is
   the HTML serialiser of Spec/HtmlSer.v, byte for byte.  In addition the byte-level lexer model
   (Tmpl/Lexer.v) is run on the template source the ENGINE emitted: it must cut it into text and
   string-literal actions whose values concatenate to the engine's output, and into the same items as
   the token-level model of IR.v (seam between the two models of the lexer).
   Mixed trees: the independent pug semantics (Spec/Sem.v) prescribes the output; Go may differ from it
   only by white space, and only when a text with white space at its edge stands in a tree with a control
   construct (Judge_Core.out_ok).  A block-level, unescaped code line that is a bare call is the
   UNBUFFERED form `- f(x)` in this property's cases: pug prints nothing for it.
   Known classes: 1 = F-C06-e (script element with a line feed in its body), 2 = F-C06-c (unbuffered bare
   call prints its value).
   The case carries the tree AS THE DECODER SEES IT (Models/AstFields.v: every Tag with the `selfClosing` field
   of the AST JSON); model and oracle work on the erased tree, the oracle only on templates pug accepts. *)
From PV Require Export Run.Judge_Core.
From PV Require Import Pug.Compile Run.Verdict Spec.Sem Spec.HtmlSer Tmpl.Lexer.
From PV Require Export Models.AstFields.

Definition nodes_of (c : caseC) : list pnode := Judge_Core.c_nodes c.

(* ---- static trees ---------------------------------------------------------------------------------- *)
Definition no_dd (s : bytes) : bool := negb (containsb (B "{{") s).
Fixpoint names_dom (n : pnode) : bool :=
  match n with
  | PTag name _ _ _ body => no_dd name && forallb names_dom body
  | PDoctype v => no_dd v
  | PBlock l => forallb names_dom l
  | _ => true
  end.

Definition has_lf (s : bytes) : bool := existsb (Ascii.eqb (ascii_of_N 10)) s.
(* F-C06-e: a script element (rendered with its content) whose content has a line feed *)
Fixpoint script_nl (n : pnode) : bool :=
  match n with
  | PTag name _ _ _ body =>
    negb (void_el name) && ((beqb name (B "script") && has_lf (html_ser body)) || existsb script_nl body)
  | PBlock l => existsb script_nl l
  | _ => false
  end.

Definition seg_eqb (a b : seg) : bool :=
  match a, b with
  | SText x, SText y => beqb x y
  | SAct l1 b1 r1, SAct l2 b2 r2 => Bool.eqb l1 l2 && beqb b1 b2 && Bool.eqb r1 r2
  | _, _ => false
  end.
Fixpoint segs_eqb (a b : list seg) : bool :=
  match a, b with
  | [], [] => true
  | x :: a', y :: b' => seg_eqb x y && segs_eqb a' b'
  | _, _ => false
  end.

Definition lit_segb (g : seg) : bool :=
  match g with
  | SText _ => true
  | SAct false b false => beqb b (B """{{""") || beqb b (B """}}""") || beqb b (B """{""")
  | SAct _ _ _ => false
  end.

(* Lexer.v on the template source the engine emitted, against what the engine printed *)
Definition lexer_static_ok (code out : bytes) : bool :=
  match segment code with
  | Some l => forallb lit_segb l && match segs_value l with Some v => beqb v out | None => false end
  | None => false
  end.

(* Lexer.v (bytes) against IR.v (tokens) on the same source, when model and engine emitted the same text *)
Definition lexer_seam_ok (c : caseC) : bool :=
  match model_toks false c with
  | Some ts =>
    if o_loaded (c_prod c) && beqb (show_toks ts) (o_code (c_prod c)) then
      match segment (o_code (c_prod c)) with
      | Some l => segs_eqb l (map seg_of_tok (lexed ts))
      | None => false
      end
    else true
  | None => true
  end.

Definition static_one (c : caseC) (d : dval) (go : nat * bytes) : nat :=
  let nodes := nodes_of c in
  let p := c_prod c in
  let in_dom := forallb names_dom nodes in
  let oracle_ok := o_loaded p && Nat.eqb (fst go) 0 && beqb (snd go) (html_ser nodes) in
  let a := agree_code (o_loaded p) go (model_out false c d) in
  let lex_ok := lexer_static_ok (o_code p) (snd go) && lexer_seam_ok c in
  if existsb script_nl nodes then
    (* listed finding: the recorded deviation and nothing else *)
    if Nat.eqb a 0 && negb oracle_ok then v_known 1
    else if oracle_ok then (match a with 0 => v_agree | 3 => v_unmodelled | _ => v_drift end)
    else if in_dom then v_violation else v_drift
  else if in_dom && negb oracle_ok then v_violation
  else match a with
       | 0 => if lex_ok then v_agree else v_drift
       | 3 => v_unmodelled
       | _ => v_drift
       end.

Fixpoint zip_static (c : caseC) (ds : list dval) (rs : list (nat * bytes)) : list nat :=
  match ds, rs with
  | d :: ds', r :: rs' => static_one c d r :: zip_static c ds' rs'
  | [], [] => []
  | _, _ => [v_drift]
  end.

Definition judge_static (c : caseC) : nat :=
  let p := c_prod c in
  if o_loaded p then
    match c_datas c with
    | [] => v_unmodelled
    | ds => worst (zip_static c ds (o_res p))
    end
  else (* the engine refused to load a static template *)
    if forallb names_dom (nodes_of c) then v_violation else v_drift.

(* ---- mixed trees ---------------------------------------------------------------------------------- *)
Definition unbuf_var : bytes := B "__unbuf".
Fixpoint unbuf_spec (n : pnode) : pnode :=
  match n with
  | PCode [SExpr (JCall f a)] false false => PCode [SVar [JVar unbuf_var (Some (JCall f a))]] false false
  | PTag nm i at_ ab b => PTag nm i at_ ab (map unbuf_spec b)
  | PCond t cs alt => PCond t (map unbuf_spec cs) (match alt with Some a => Some (unbuf_spec a) | None => None end)
  | PCase e ws => PCase e (map (fun w => (fst w, map unbuf_spec (snd w))) ws)
  | PEach v k o b => PEach v k o (map unbuf_spec b)
  | PWhile t b => PWhile t (map unbuf_spec b)
  | PMixinDef nm ps b => PMixinDef nm ps (map unbuf_spec b)
  | PMixinCall nm args at_ b => PMixinCall nm args at_ (map unbuf_spec b)
  | PBlock l => PBlock (map unbuf_spec l)
  | _ => n
  end.
Fixpoint has_unbuf (n : pnode) : bool :=
  match n with
  | PCode [SExpr (JCall _ _)] false false => true
  | PTag _ _ _ _ b | PEach _ _ _ b | PWhile _ b | PMixinDef _ _ b | PMixinCall _ _ _ b | PBlock b => existsb has_unbuf b
  | PCond _ cs alt => existsb has_unbuf cs || match alt with Some a => has_unbuf a | None => false end
  | PCase _ ws => existsb (fun w => existsb has_unbuf (snd w)) ws
  | _ => false
  end.

Definition spec06 (c : caseC) (d : dval) : sout := sem_run (map unbuf_spec (nodes_of c)) (sd_top d).

(* Judge_Core.out_ok, and: the line feed that ends the doctype line is white space at the edge of a text run
   too (a control construct that follows it trims it) *)
Definition out_ok06 (c : caseC) (go spec : bytes) : bool :=
  let nodes := nodes_of c in
  if existsb has_ctl nodes && (negb (forallb texts_ok nodes) || existsb has_doctype nodes)
  then ws_subseq go spec else beqb go spec.

(* does Go's observation satisfy what the semantics prescribes?  None: no prescription (off the domain) *)
Definition go_satisfies (c : caseC) (go : nat * bytes) (s : sout) : option bool :=
  let loaded := o_loaded (c_prod c) in
  match s with
  | SOut o [] => Some (loaded && Nat.eqb (fst go) 0 && out_ok06 c (snd go) o)
  | SError _ => Some (loaded && Nat.eqb (fst go) 1)
  | _ => None
  end.

Definition judge_one06 (c : caseC) (d : dval) (go : nat * bytes) : nat :=
  let a := agree_code (o_loaded (c_prod c)) go (model_out false c d) in
  match go_satisfies c go (spec06 c d) with
  | Some true => (match a with 1 => v_drift | _ => v_agree end)
  | Some false =>
    (* F-C06-c: the only difference is that the unbuffered call printed its value, exactly as `!= e` would *)
    if existsb has_unbuf (nodes_of c) && Nat.eqb a 0 &&
       match go_satisfies c go (spec_out c d) with Some true => true | _ => false end
    then v_known 2 else v_violation
  | None => match a with 0 => v_agree | 3 => v_unmodelled | _ => v_drift end
  end.

Fixpoint zip_judge06 (c : caseC) (ds : list dval) (rs : list (nat * bytes)) : list nat :=
  match ds, rs with
  | d :: ds', r :: rs' => judge_one06 c d r :: zip_judge06 c ds' rs'
  | [], [] => []
  | _, _ => [v_drift]
  end.

Definition judge_mixed (c : caseC) : nat :=
  if o_loaded (c_prod c) then
    let v := worst (zip_judge06 c (c_datas c) (o_res (c_prod c))) in
    if Nat.eqb v v_agree && negb (lexer_seam_ok c) then v_drift else v
  else
    match c_datas c with
    | d :: _ =>
      match spec06 c d with
      | SOut _ [] | SError _ => v_violation
      | _ => match model_program false c with Some _ => v_drift | None => v_unmodelled end
      end
    | [] => v_unmodelled
    end.

Definition judge_c (c : caseC) : nat :=
  if forallb static (nodes_of c) then judge_static c else judge_mixed c.

(* ---- the tree as the decoder sees it (Models/AstFields.v) ------------------------------------------------ *)
(* a case carries the decoded tree: every Tag with the `selfClosing` field of the AST JSON the engine was
   given.  M and S work on the erased tree (C06_ast_flag_erased); S has a say only on templates pug accepts
   (sc_dom) *)
Record case06 := {
  k_tree : list tnode;
  k_datas : list dval;
  k_funcs : list bytes;
  k_prod : obsm;
  k_debug : option obsm;
}.
Definition case_of (k : case06) : caseC :=
  Judge_Core.Build_caseC (map erase (k_tree k)) (k_datas k) (k_funcs k) (k_prod k) (k_debug k).

(* outside pug's domain (an element that is not void, marked self-closing, with content pug rejects): no
   prescription, the case is counted as unmodelled when the engine does what the model of the code says,
   drift otherwise *)
Fixpoint zip_disagree (c : caseC) (ds : list dval) (rs : list (nat * bytes)) : bool :=
  match ds, rs with
  | d :: ds', r :: rs' =>
    Nat.eqb (agree_code (o_loaded (c_prod c)) r (model_out false c d)) 1 || zip_disagree c ds' rs'
  | [], [] => false
  | _, _ => true
  end.
Definition judge_off (c : caseC) : nat :=
  if o_loaded (c_prod c) then
    if zip_disagree c (c_datas c) (o_res (c_prod c)) then v_drift else v_unmodelled
  else match model_program false c with Some _ => v_drift | None => v_unmodelled end.

Definition judge (k : case06) : nat :=
  if forallb sc_dom (k_tree k) then judge_c (case_of k) else judge_off (case_of k).

(* ---- direct stream: template SOURCE TEXT through the real lexer/parser/executor (harness C06L) -------- *)
(* the source consists of text and of actions that are one literal; what the engine prints must be what
   Lexer.v's items are worth: texts as cut and trimmed by [segment], literals by value *)
Record caseL := { l_src : bytes; l_class : nat; l_out : bytes }.   (* class: 0 ok, 1 parse error, 2 other *)

Fixpoint strip_blank_l (s : bytes) : bytes :=
  match s with c :: r => if is_blank c then strip_blank_l r else s | [] => [] end.
Definition strip_blank (s : bytes) : bytes := rev (strip_blank_l (rev (strip_blank_l s))).

(* body of an interpreted string: backslash-quote and backslash-backslash only *)
Fixpoint unescape_dq (s : bytes) : option bytes :=
  match s with
  | [] => Some []
  | c :: r =>
    if Ascii.eqb c "\" then
      match r with
      | d :: r' =>
        if Ascii.eqb d """" || Ascii.eqb d "\" then
          match unescape_dq r' with Some t => Some (d :: t) | None => None end
        else None
      | [] => None
      end
    else if Ascii.eqb c """" || Ascii.eqb c LF then None
    else match unescape_dq r with Some t => Some (c :: t) | None => None end
  end.
Definition is_digit (c : ascii) : bool := let n := N_of_ascii c in N.leb 48 n && N.leb n 57.
Definition lit_value (body : bytes) : option bytes :=
  match strip_blank body with
  | q :: r =>
    match rev r with
    | q2 :: m =>
      if Ascii.eqb q """" && Ascii.eqb q2 """" then unescape_dq (rev m)
      else if Ascii.eqb q "`" && Ascii.eqb q2 "`" && negb (existsb (Ascii.eqb "`") m) then Some (rev m)
      else if (is_digit q || (Ascii.eqb q "-" && negb (match r with [] => true | _ => false end)))
              && forallb is_digit r && N.ltb (N.of_nat (length r)) 9
              && negb (Ascii.eqb (match r with d :: _ :: _ => if Ascii.eqb q "-" then d else q | _ => "1"%char end) "0")
           then Some (q :: r)
      else None
    | [] => if is_digit q then Some [q] else None
    end
  | [] => None
  end.
Fixpoint segs_lit_value (l : list seg) : option bytes :=
  match l with
  | [] => Some []
  | SText s :: r => match segs_lit_value r with Some b => Some (s ++ b) | None => None end
  | SAct _ body _ :: r =>
    match lit_value body, segs_lit_value r with Some a, Some b => Some (a ++ b) | _, _ => None end
  end.

Definition judge_lex (c : caseL) : nat :=
  match segment (l_src c) with
  | None => if Nat.eqb (l_class c) 1 then v_agree else v_drift      (* the top level reports an error *)
  | Some l =>
    match segs_lit_value l with
    | Some v => if Nat.eqb (l_class c) 0 && beqb (l_out c) v then v_agree else v_drift
    | None => v_unmodelled                                           (* an action this reader does not evaluate *)
    end
  end.
