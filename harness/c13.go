package main

import (
	"context"
	"encoding/json"
	"fmt"
	"os"
	"path/filepath"
)

// C13: one template of a DIRECTORY TREE of templates, rendered with several data values in production and in debug
// mode.  A real application has many template files below template/page which one engine loads: production mode all
// at once (LoadTemplates("")), debug mode only the rendered template (and the names it is a prefix of), again on every
// render.  Whatever compile-time state the compiler carried from one file to the next would therefore show as a
// difference between the two modes.
//
//   - files are created in the order given (directory-listing order depends on the file system: creation order or
//     a hash of the names; the generator permutes both);
//   - a sibling (a file other than the rendered one) that does not load ON ITS OWN in both modes is left out and
//     reported in "dropped": a directory with such a file cannot be loaded by production mode at all, and a debug-mode
//     render of a name that is a prefix of it fails likewise — outside the property ("render successfully");
//   - every render uses a fresh engine; "before" lists templates rendered on that same engine before the observed
//     render (history on a long-lived engine: debug mode recompiles on each of these renders).
//
// With a single file and no history this is exactly the TC runner of tcore.go (same observation format).
type c13Case struct {
	Files  [][2]string       `json:"files"` // [hex name, hex AST json], in creation order
	Render string            `json:"render"`
	Datas  []json.RawMessage `json:"datas"`
	Before []string          `json:"before"` // hex names
}

type c13Obs struct {
	Prod    tcMode   `json:"prod"`
	Debug   *tcMode  `json:"debug,omitempty"`
	Dropped []string `json:"dropped,omitempty"` // hex names of siblings left out
}

func c13Write(dir string, files [][2]string) error {
	for _, f := range files {
		full := filepath.Join(dir, "template", "page", f[0]+".ast.json")
		if err := os.MkdirAll(filepath.Dir(full), 0o755); err != nil {
			return err
		}
		if err := os.WriteFile(full, []byte(f[1]), 0o644); err != nil {
			return err
		}
	}
	return nil
}

// c13LoadsAlone: the file, alone in a directory tree of its own (same name, same sub-directory), loads in both modes.
func c13LoadsAlone(f [2]string) (bool, error) {
	dir, err := os.MkdirTemp("", "pvC13s")
	if err != nil {
		return false, err
	}
	defer os.RemoveAll(dir)
	if err := c13Write(dir, [][2]string{f}); err != nil {
		return false, err
	}
	if cls, _ := safeLoad(newEngine(dir, false, 0, nil), ""); cls != clsOK {
		return false, nil
	}
	if cls, _ := safeLoad(newEngine(dir, true, 0, nil), f[0]); cls != clsOK {
		return false, nil
	}
	return true, nil
}

func runC13Mode(dir string, name string, c c13Case, debug bool) (m tcMode, err error) {
	m.Res = []renderResult{}
	for _, raw := range c.Datas {
		data, err := buildData(raw)
		if err != nil {
			return m, err
		}
		e := newEngine(dir, debug, 0, nil)
		if debug {
			m.Load, m.LoadMsg = safeLoad(e, name)
		} else {
			m.Load, m.LoadMsg = safeLoad(e, "")
		}
		if m.Load != clsOK {
			m.Res = nil
			return m, nil
		}
		for _, b := range c.Before {
			safeRender(e, context.Background(), unhx(b), data)
		}
		r := safeRender(e, context.Background(), name, data)
		m.Code = hx(e.TemplateCode[name]) // debug mode: the text compiled by this very render
		m.Res = append(m.Res, r)
	}
	return m, nil
}

func runC13(c c13Case) (o c13Obs, err error) {
	name := unhx(c.Render)
	var files [][2]string
	for _, f := range c.Files {
		g := [2]string{unhx(f[0]), unhx(f[1])}
		if g[0] != name && len(c.Files) > 1 {
			ok, err := c13LoadsAlone(g)
			if err != nil {
				return o, err
			}
			if !ok {
				o.Dropped = append(o.Dropped, f[0])
				continue
			}
		}
		files = append(files, g)
	}
	dir, err := os.MkdirTemp("", "pvC13")
	if err != nil {
		return o, err
	}
	defer os.RemoveAll(dir)
	if err := c13Write(dir, files); err != nil {
		return o, err
	}
	if o.Prod, err = runC13Mode(dir, name, c, false); err != nil {
		return o, err
	}
	d, err := runC13Mode(dir, name, c, true)
	if err != nil {
		return o, err
	}
	o.Debug = &d
	return o, nil
}

func init() {
	runners["C13"] = func(in json.RawMessage) (interface{}, error) {
		var cases []c13Case
		if err := json.Unmarshal(in, &cases); err != nil {
			return nil, err
		}
		out := make([]c13Obs, len(cases))
		for i, c := range cases {
			o, err := runC13(c)
			if err != nil {
				return nil, fmt.Errorf("case %d: %w", i, err)
			}
			out[i] = o
		}
		return out, nil
	}
}
