package main

import (
	"bufio"
	"crypto/sha1"
	"encoding/json"
	"fmt"
	"net/http"
	"net/http/httptest"
	"os"
	"path"
	"path/filepath"
	"sort"
	"strings"

	"flamingo.me/dingo"
	"flamingo.me/flamingo/v3/framework/config"
	"flamingo.me/pugtemplate"
)

// C19: the asset handler that Module.Configure registers on DefaultMux at
// "/assets/", driven with raw request targets under net/http/httptest in a
// temporary working directory that holds a generated frontend/dist tree,
// canary files and directories outside it, and symbolic links (to files and
// directories inside dist, to the canaries outside it, dangling, looping):
// what a request resolves to is then decided by the real OS.
type c19File struct {
	Path string `json:"path"` // hex, relative (to frontend/dist for files, to the temp root for canaries)
	Data string `json:"data"` // hex
}

// c19Link is a symbolic link anywhere below the temp root.  A target that
// starts with "/" is taken relative to the temp root (the harness prefixes the
// root's own absolute path), so that the case does not depend on where the
// temporary directory happens to be; every other target is used verbatim.
type c19Link struct {
	Path   string `json:"path"`   // hex, relative to the temp root (e.g. frontend/dist/latest)
	Target string `json:"target"` // hex
}

type c19Case struct {
	Files     []c19File  `json:"files"`     // regular files below frontend/dist
	Dirs      []string   `json:"dirs"`      // hex, directories below frontend/dist (may be empty ones)
	Canaries  []c19File  `json:"canaries"`  // files outside frontend/dist, relative to the temp root
	OutDirs   []string   `json:"outdirs"`   // hex, directories outside frontend/dist, relative to the temp root
	Links     []c19Link  `json:"links"`     // symbolic links, created after everything else
	Whitelist []string   `json:"whitelist"` // hex
	Raw       string     `json:"raw"`       // hex, request target exactly as a client would send it
	Origin    *string    `json:"origin"`    // hex; null = no Origin header line of its own (it is sent first)
	Method    *string    `json:"method"`    // hex; null = GET
	Headers   [][]string `json:"headers"`   // hex (name, value): further header lines, sent in this order after Origin;
	// may hold more Origin lines (any case of the name), preflight headers, conditional and Range headers
}

// c19Hdr is one Access-Control-* header of the response with all its values.
type c19Hdr struct {
	Name   string   `json:"name"`   // hex, canonical form
	Values []string `json:"values"` // hex
}

type c19Obs struct {
	Class    string   `json:"class"`  // ok | redirect | notfound | error | badreq | partial (206) | other | panic
	Ac       []c19Hdr `json:"ac"`     // EVERY response header whose name starts with Access-Control- (any case), sorted
	Status   int      `json:"status"` // diagnostic
	Body     string   `json:"body"`   // hex
	Acao     *string  `json:"acao"`   // hex of the first Access-Control-Allow-Origin value; null = header absent
	AcaoN    int      `json:"acao_n"` // number of values of that header
	Mux      string   `json:"mux"`    // pass | redirect | notfound | none: what ServeMux decided (mux.Handler)
	Ep       string   `json:"ep"`     // hex, URL.EscapedPath() of the parsed request
	Dec      string   `json:"dec"`    // hex, URL.Path of the parsed request (percent-decoded by net/url)
	Clean    string   `json:"clean"`  // hex, path.Clean of the rooted decoded path (the standard library's own answer)
	CleanRel string   `json:"clean_rel"`
	Location string   `json:"location"` // hex, diagnostic
}

type c19Site struct {
	key string
	dir string
	mux *http.ServeMux
}

func init() {
	runners["C19"] = func(in json.RawMessage) (interface{}, error) {
		var cases []c19Case
		if err := json.Unmarshal(in, &cases); err != nil {
			return nil, err
		}
		cwd, err := os.Getwd()
		if err != nil {
			return nil, err
		}
		defer os.Chdir(cwd)
		var site *c19Site
		defer func() {
			if site != nil {
				os.Chdir(cwd)
				os.RemoveAll(site.dir)
			}
		}()
		out := make([]c19Obs, len(cases))
		for i, c := range cases {
			key := c19Key(c)
			if site == nil || site.key != key {
				if site != nil {
					os.Chdir(cwd)
					os.RemoveAll(site.dir)
					site = nil
				}
				s, err := c19Setup(c, key)
				if err != nil {
					return nil, fmt.Errorf("case %d: %w", i, err)
				}
				site = s
			}
			out[i] = c19Request(site, c)
		}
		return out, nil
	}
}

func c19Key(c c19Case) string {
	b, _ := json.Marshal([]interface{}{c.Files, c.Dirs, c.Canaries, c.Whitelist, c.OutDirs, c.Links})
	return fmt.Sprintf("%x", sha1.Sum(b))
}

// c19Setup writes the tree, changes into it and obtains the handler exactly
// as the property says: Module{DefaultMux, Whitelist}.Configure(injector).
func c19Setup(c c19Case, key string) (site *c19Site, err error) {
	dir, err := os.MkdirTemp("", "pv19")
	if err != nil {
		return nil, err
	}
	defer func() {
		if err != nil {
			os.RemoveAll(dir)
		}
	}()
	dist := filepath.Join(dir, "frontend", "dist")
	if err := os.MkdirAll(dist, 0o755); err != nil {
		return nil, err
	}
	for _, d := range c.Dirs {
		if err := os.MkdirAll(filepath.Join(dist, filepath.FromSlash(unhx(d))), 0o755); err != nil {
			return nil, err
		}
	}
	files := map[string]string{}
	for _, f := range c.Files {
		files[filepath.Join("frontend", "dist", filepath.FromSlash(unhx(f.Path)))] = unhx(f.Data)
	}
	for _, f := range c.Canaries {
		p := filepath.Clean(filepath.FromSlash(unhx(f.Path)))
		if strings.HasPrefix(p, filepath.Join("frontend", "dist")+string(filepath.Separator)) || strings.HasPrefix(p, "..") || filepath.IsAbs(p) {
			return nil, fmt.Errorf("canary path %q is not outside frontend/dist below the temp root", p)
		}
		files[p] = unhx(f.Data)
	}
	if err := writeTree(dir, files); err != nil {
		return nil, err
	}
	below := func(p string) bool {
		return !(strings.HasPrefix(p, "..") || filepath.IsAbs(p))
	}
	for _, d := range c.OutDirs {
		p := filepath.Clean(filepath.FromSlash(unhx(d)))
		if !below(p) {
			return nil, fmt.Errorf("directory %q is not below the temp root", p)
		}
		if err := os.MkdirAll(filepath.Join(dir, p), 0o755); err != nil {
			return nil, err
		}
	}
	for _, l := range c.Links {
		p := filepath.Clean(filepath.FromSlash(unhx(l.Path)))
		if !below(p) {
			return nil, fmt.Errorf("link %q is not below the temp root", p)
		}
		target := unhx(l.Target)
		if strings.HasPrefix(target, "/") {
			target = dir + target
		}
		full := filepath.Join(dir, p)
		if err := os.MkdirAll(filepath.Dir(full), 0o755); err != nil {
			return nil, err
		}
		if err := os.Symlink(target, full); err != nil {
			return nil, err
		}
	}
	if err := os.Chdir(dir); err != nil {
		return nil, err
	}
	wl := config.Slice{}
	for _, w := range c.Whitelist {
		wl = append(wl, unhx(w))
	}
	mux := http.NewServeMux()
	func() {
		// binding errors after the mux registration do not matter
		defer func() { _ = recover() }()
		injector, _ := dingo.NewInjector()
		(&pugtemplate.Module{DefaultMux: mux, Whitelist: wl}).Configure(injector)
	}()
	return &c19Site{key: key, dir: dir, mux: mux}, nil
}

func c19Request(s *c19Site, c c19Case) (obs c19Obs) {
	raw := unhx(c.Raw)
	method := "GET"
	if c.Method != nil {
		method = unhx(*c.Method)
	}
	text := method + " " + raw + " HTTP/1.1\r\nHost: assets.test\r\n"
	if c.Origin != nil {
		text += "Origin: " + unhx(*c.Origin) + "\r\n"
	}
	for _, h := range c.Headers {
		if len(h) == 2 {
			text += unhx(h[0]) + ": " + unhx(h[1]) + "\r\n"
		}
	}
	text += "\r\n"
	obs.Ac = []c19Hdr{}
	req, err := http.ReadRequest(bufio.NewReader(strings.NewReader(text)))
	if err != nil {
		// what net/http's server answers before any handler runs: 400
		obs.Class, obs.Status, obs.Mux = "badreq", 400, "none"
		return obs
	}
	obs.Ep = hx(req.URL.EscapedPath())
	obs.Dec = hx(req.URL.Path)
	up := req.URL.Path
	if !strings.HasPrefix(up, "/") {
		up = "/" + up
	}
	obs.Clean = hx(path.Clean(up))
	obs.CleanRel = hx(path.Clean(strings.TrimPrefix(up, "/")))
	defer func() {
		if r := recover(); r != nil {
			obs.Class = "panic"
		}
	}()
	h, pat := s.mux.Handler(req)
	_, isFunc := h.(http.HandlerFunc)
	switch {
	case pat == "/assets/" && isFunc:
		obs.Mux = "pass"
	case pat == "" && isFunc:
		obs.Mux = "notfound"
	default:
		obs.Mux = "redirect"
	}
	rec := httptest.NewRecorder()
	s.mux.ServeHTTP(rec, req)
	res := rec.Result()
	obs.Status = res.StatusCode
	switch res.StatusCode {
	case 200:
		obs.Class = "ok"
	case 301:
		obs.Class = "redirect"
	case 404:
		obs.Class = "notfound"
	case 500:
		obs.Class = "error"
	case 400:
		obs.Class = "badreq"
	case 206:
		obs.Class = "partial"
	default:
		obs.Class = "other"
	}
	obs.Body = hx(rec.Body.String())
	vals := res.Header.Values("Access-Control-Allow-Origin")
	obs.AcaoN = len(vals)
	if len(vals) > 0 {
		v := hx(vals[0])
		obs.Acao = &v
	}
	var names []string
	for k := range res.Header {
		if strings.HasPrefix(strings.ToLower(k), "access-control-") {
			names = append(names, k)
		}
	}
	sort.Strings(names)
	for _, k := range names {
		h := c19Hdr{Name: hx(k), Values: []string{}}
		for _, v := range res.Header[k] {
			h.Values = append(h.Values, hx(v))
		}
		obs.Ac = append(obs.Ac, h)
	}
	obs.Location = hx(res.Header.Get("Location"))
	return obs
}
