// Package shop (second of two): see harness/c11_one. Same package name, same type names,
// other fields (names, order, number) and other method sets.
package shop

type Product struct {
	Title string
	Qty   int
	Sku   string
}

func (p Product) Amount() int   { return p.Qty * 3 }
func (p Product) Label() string { return "two:" + p.Title }
func (p *Product) Code() string { return "c-" + p.Sku }

type Cart struct {
	Note  string
	Items []Product
}

// Count has a pointer receiver here (a value receiver in the other package).
func (c *Cart) Count() int { return 2 * len(c.Items) }

// Owner is a method here and a field in the other package.
func (c Cart) Owner() *Product {
	if len(c.Items) == 0 {
		return nil
	}
	p := c.Items[0]
	return &p
}
