package main

import (
	"bytes"
	"context"
	"encoding/json"
	"fmt"
	"io"
	"os"
	"runtime"
	"strconv"
	"sync"

	"flamingo.me/pugtemplate/pugjs"
)

// C08: concurrent renders on ONE engine vs the same renders one at a time.
//
// One case = one engine with a fixed template set, a list of distinct jobs
// (template, data, context) and a list of calls (one goroutine per call, each
// naming a job).  The harness
//   1. loads the templates (production mode) and renders every job alone, each
//      with a fresh context built from the job's context description,
//   2. for every round starts len(calls) goroutines, each builds ITS OWN data
//      value and ITS OWN context, all park on a barrier, are released together
//      and call Engine.Render once; the harness's context-aware template
//      functions (c08ctx.go) answer from the call's context and stagger the
//      renders (holds inside function providers, inside the functions, and
//      between Render returning and the caller reading the result),
//   3. renders every job alone again (the engine must be as it was).
// Built with -race the Go race detector watches all of it; the reports go to
// the file named by PV_RACE_LOG (GORACE log_path) and are attributed to the
// case during which the file grew.  Nothing is judged here except the
// convenience flag go_equal; the observations are judged inside Coq.

type c08Job struct {
	Tpl  string          `json:"tpl"`  // hex template name
	Data json.RawMessage `json:"data"` // typed data (see buildData)
	Ctx  c08CtxSpec      `json:"ctx"`  // what the call's context carries (see c08ctx.go)
}

type c08Case struct {
	Files     map[string]string `json:"files"` // hex name -> hex AST json
	Jobs      []c08Job          `json:"jobs"`
	Calls     []int             `json:"calls"` // job index per goroutine
	Rounds    int               `json:"rounds"`
	Debug     bool              `json:"debug"`
	RateLimit int               `json:"ratelimit"`
	Stagger   uint64            `json:"stagger"` // seed of the stagger plans; 0 = no deliberate staggering
}

type c08Obs struct {
	Load       string           `json:"load"`
	Seq        []renderResult   `json:"seq"`
	SeqAfter   []renderResult   `json:"seq_after"`
	Conc       [][]renderResult `json:"conc"` // [round][call]
	Races      int              `json:"races"`
	RaceReport string           `json:"race_report,omitempty"`
	GoEqual    bool             `json:"go_equal"`
	RaceBuild  bool             `json:"race_build"`
	Procs      int              `json:"procs"`
	Stagger    c08StaggerStats  `json:"stagger"` // what the stagger points did, summed over the rounds
}

func init() {
	runners["C08"] = func(in json.RawMessage) (interface{}, error) {
		var cases []c08Case
		if err := json.Unmarshal(in, &cases); err != nil {
			return nil, err
		}
		out := make([]c08Obs, len(cases))
		for i, c := range cases {
			o, err := runC08(c)
			if err != nil {
				return nil, fmt.Errorf("case %d: %w", i, err)
			}
			out[i] = o
		}
		return out, nil
	}
}

// raceLogState returns the current content of the race detector's log file(s) of this process.
func raceLog() []byte {
	prefix := os.Getenv("PV_RACE_LOG")
	if prefix == "" {
		return nil
	}
	b, err := os.ReadFile(prefix + "." + strconv.Itoa(os.Getpid()))
	if err != nil {
		return nil
	}
	return b
}

func sameResult(a, b renderResult) bool { return a.Class == b.Class && a.Out == b.Out }

// c08Render is one call: Engine.Render with the call's own context, then (after the "read"
// stagger point: the caller is not obliged to read at once) reading the returned reader.
func c08Render(e *pugjs.Engine, ctx context.Context, s *c08Script, name string, data interface{}) (res renderResult) {
	defer s.leave()
	defer func() {
		if r := recover(); r != nil {
			res = renderResult{Class: clsPanic}
		}
	}()
	rd, err := e.Render(ctx, name, data)
	if err != nil {
		return renderResult{Class: classifyErr(err)}
	}
	s.point("read")
	b, _ := io.ReadAll(rd)
	return renderResult{Class: clsOK, Out: hx(string(b))}
}

func runC08(c c08Case) (obs c08Obs, err error) {
	dir, err := os.MkdirTemp("", "pv08")
	if err != nil {
		return obs, err
	}
	defer os.RemoveAll(dir)
	files := map[string]string{}
	for p, a := range c.Files {
		files["template/page/"+unhx(p)+".ast.json"] = unhx(a)
	}
	if err := writeTree(dir, files); err != nil {
		return obs, err
	}
	for _, k := range c.Calls {
		if k < 0 || k >= len(c.Jobs) {
			return obs, fmt.Errorf("call names job %d of %d", k, len(c.Jobs))
		}
	}
	obs.RaceBuild = raceEnabled
	obs.Procs = runtime.GOMAXPROCS(0)
	before := len(raceLog())

	e := newEngine(dir, c.Debug, c.RateLimit, c08Funcs())
	if c.Debug {
		obs.Load = clsOK // debug mode loads per render
	} else {
		obs.Load, _ = safeLoad(e, "")
		if obs.Load != clsOK {
			return obs, nil
		}
	}
	names := make([]string, len(c.Jobs))
	for j, job := range c.Jobs {
		names[j] = unhx(job.Tpl)
	}
	seqAll := func() ([]renderResult, error) {
		res := make([]renderResult, len(c.Jobs))
		for j, job := range c.Jobs {
			d, err := buildData(job.Data)
			if err != nil {
				return nil, err
			}
			ctx, s := c08Context(job.Ctx, nil, 0) // alone: no meeting, no staggering
			res[j] = c08Render(e, ctx, s, names[j], d)
		}
		return res, nil
	}
	if obs.Seq, err = seqAll(); err != nil {
		return obs, err
	}
	obs.GoEqual = true
	n := len(c.Calls)
	for r := 0; r < c.Rounds; r++ {
		res := make([]renderResult, n)
		datas := make([]interface{}, n)
		ctxs := make([]context.Context, n)
		scripts := make([]*c08Script, n)
		meet := newC08Meet()
		for g := 0; g < n; g++ {
			// every call gets its own, freshly built data value and its own context
			if datas[g], err = buildData(c.Jobs[c.Calls[g]].Data); err != nil {
				return obs, err
			}
			var seed uint64
			if c.Stagger != 0 {
				seed = c08mix(c.Stagger^c08mix(uint64(r)<<20|uint64(g))) | 1
			}
			ctxs[g], scripts[g] = c08Context(c.Jobs[c.Calls[g]].Ctx, meet, seed)
		}
		var ready, done sync.WaitGroup
		start := make(chan struct{})
		ready.Add(n)
		done.Add(n)
		for g := 0; g < n; g++ {
			go func(g int) {
				defer done.Done()
				ready.Done()
				<-start
				res[g] = c08Render(e, ctxs[g], scripts[g], names[c.Calls[g]], datas[g])
			}(g)
		}
		ready.Wait()
		close(start)
		done.Wait()
		for g := 0; g < n; g++ {
			if !sameResult(res[g], obs.Seq[c.Calls[g]]) {
				obs.GoEqual = false
			}
		}
		obs.Conc = append(obs.Conc, res)
		obs.Stagger.Points += meet.st.Points
		obs.Stagger.Holds += meet.st.Holds
		obs.Stagger.Released += meet.st.Released
		obs.Stagger.Timeouts += meet.st.Timeouts
		if meet.st.MaxInside > obs.Stagger.MaxInside {
			obs.Stagger.MaxInside = meet.st.MaxInside
		}
	}
	if obs.SeqAfter, err = seqAll(); err != nil {
		return obs, err
	}
	for j := range obs.Seq {
		if !sameResult(obs.Seq[j], obs.SeqAfter[j]) {
			obs.GoEqual = false
		}
	}
	after := raceLog()
	if len(after) > before {
		rep := after[before:]
		obs.Races = bytes.Count(rep, []byte("WARNING: DATA RACE"))
		if obs.Races == 0 {
			obs.Races = 1 // the log grew: something was reported
		}
		if len(rep) > 6000 {
			rep = rep[:6000]
		}
		obs.RaceReport = string(rep)
	}
	return obs, nil
}
