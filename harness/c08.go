package main

import (
	"bytes"
	"context"
	"encoding/json"
	"fmt"
	"io"
	"os"
	"os/exec"
	"runtime"
	"strconv"
	"strings"
	"sync"
	"sync/atomic"

	"flamingo.me/pugtemplate/pugjs"
)

// C08: concurrent renders on ONE engine vs the same renders one at a time.
//
// One case = one engine with a fixed template set, a list of distinct jobs
// (template, data, context) and a list of calls (one goroutine per call, each
// naming a job).  The harness
//   1. loads the templates (production mode) and renders every job alone, each
//      with a fresh context built from the job's context description,
//   2. for every round starts len(calls) goroutines, each builds ITS OWN data
//      value and ITS OWN context, all park on a barrier, are released together
//      and call Engine.Render once; the harness's context-aware template
//      functions (c08ctx.go) answer from the call's context and stagger the
//      renders (holds inside function providers, inside the functions, and
//      between Render returning and the caller reading the result),
//   3. renders every job alone again (the engine must be as it was).
// A goroutine may render its job several times per round (reps), each time with a freshly
// built data value; the observation keeps, per goroutine, the DISTINCT results it got.
//
// COLD cases (cold = true) have no step 1 in the process that runs the storm: whatever the
// engine, or a library below it, sets up on first use (of a Go type, of a template, of a
// helper) is then first used by several renders at once.  The harness re-executes itself
// twice for such a case: one fresh process renders every job alone (the baseline `seq`),
// another fresh process runs steps 2 and 3 only.  See also c08data.go: struct data values
// get Go types that did not exist before the round, in warm and in cold cases.
// Built with -race the Go race detector watches all of it; the reports go to
// the file named by PV_RACE_LOG (GORACE log_path) and are attributed to the
// case during which the file grew.  Nothing is judged here except the
// convenience flag go_equal; the observations are judged inside Coq.

type c08Job struct {
	Tpl  string          `json:"tpl"`  // hex template name
	Data json.RawMessage `json:"data"` // typed data (see buildData)
	Ctx  c08CtxSpec      `json:"ctx"`  // what the call's context carries (see c08ctx.go)
}

type c08Case struct {
	Files     map[string]string `json:"files"` // hex name -> hex AST json
	Jobs      []c08Job          `json:"jobs"`
	Calls     []int             `json:"calls"` // job index per goroutine
	Rounds    int               `json:"rounds"`
	Debug     bool              `json:"debug"`
	RateLimit int               `json:"ratelimit"`
	Stagger   uint64            `json:"stagger"` // seed of the stagger plans; 0 = no deliberate staggering
	Reps      int               `json:"reps"`    // renders per goroutine and round (0 = 1)
	Cold      bool              `json:"cold"`    // no sequential renders before the storm in the storm's process
	Count     bool              `json:"count"`   // count the Render calls in flight (obs.in_flight)
	Keep      int               `json:"keep"`    // at most this many distinct results are kept per goroutine and round (0 = all)
	Phase     string            `json:"phase,omitempty"` // set by the harness itself for its children: "seq" | "conc"
}

// c08Distinct is one of the distinct results a goroutine got in a round, and how often.
type c08Distinct struct {
	renderResult
	N int `json:"n"`
}

type c08Obs struct {
	Load       string           `json:"load"`
	Seq        []renderResult   `json:"seq"`
	SeqAfter   []renderResult   `json:"seq_after"`
	Conc       [][][]c08Distinct `json:"conc"` // [round][call][distinct result]
	Crashed    bool             `json:"crashed,omitempty"` // a child process of a cold case died
	Stderr     string           `json:"stderr,omitempty"`
	Races      int              `json:"races"`
	RaceReport string           `json:"race_report,omitempty"`
	GoEqual    bool             `json:"go_equal"`
	RaceBuild  bool             `json:"race_build"`
	Procs      int              `json:"procs"`
	Stagger    c08StaggerStats  `json:"stagger"` // what the stagger points did, summed over the rounds
	InFlight   int              `json:"in_flight"` // most Render calls running at the same moment
	Dropped    int              `json:"dropped"`   // further distinct results beyond `keep` (each differs from a kept one)
}

func init() {
	runners["C08"] = func(in json.RawMessage) (interface{}, error) {
		var cases []c08Case
		if err := json.Unmarshal(in, &cases); err != nil {
			return nil, err
		}
		out := make([]c08Obs, len(cases))
		for i, c := range cases {
			o, err := runC08(c)
			if err != nil {
				return nil, fmt.Errorf("case %d: %w", i, err)
			}
			out[i] = o
		}
		return out, nil
	}
}

// raceLogState returns the current content of the race detector's log file(s) of this process.
func raceLog() []byte {
	prefix := os.Getenv("PV_RACE_LOG")
	if prefix == "" {
		return nil
	}
	b, err := os.ReadFile(prefix + "." + strconv.Itoa(os.Getpid()))
	if err != nil {
		return nil
	}
	return b
}

// raceSeen: has the race detector written anything since the log had `before` bytes?  Once it has, the case
// is decided; the storm is cut short (no further repetitions, no further rounds) because every further
// report costs the detector tens of milliseconds.
func raceSeen(before int) bool {
	prefix := os.Getenv("PV_RACE_LOG")
	if prefix == "" {
		return false
	}
	fi, err := os.Stat(prefix + "." + strconv.Itoa(os.Getpid()))
	return err == nil && fi.Size() > int64(before)
}

// Render calls in flight (between the call and the result having been read), and the most seen since the
// last reset: the storms of many goroutines report how many renders really were under way together.
// Counted only in cases that ask for it (count = true, the storms of many goroutines): the atomic operations
// order the renders for the race detector, which the other storms do not want at the entry of Render.
var c08Running, c08MaxRunning int32
var c08Count bool // set per case, before its goroutines start

func sameResult(a, b renderResult) bool { return a.Class == b.Class && a.Out == b.Out }

// c08Render is one call: Engine.Render with the call's own context, then (after the "read"
// stagger point: the caller is not obliged to read at once) reading the returned reader.
func c08Render(e *pugjs.Engine, ctx context.Context, s *c08Script, name string, data interface{}) (res renderResult) {
	defer s.leave()
	if c08Count {
		n := atomic.AddInt32(&c08Running, 1)
		for {
			m := atomic.LoadInt32(&c08MaxRunning)
			if n <= m || atomic.CompareAndSwapInt32(&c08MaxRunning, m, n) {
				break
			}
		}
		defer atomic.AddInt32(&c08Running, -1)
	}
	defer func() {
		if r := recover(); r != nil {
			res = renderResult{Class: clsPanic}
		}
	}()
	rd, err := e.Render(ctx, name, data)
	if err != nil {
		return renderResult{Class: classifyErr(err)}
	}
	s.point("read")
	b, _ := io.ReadAll(rd)
	return renderResult{Class: clsOK, Out: hx(string(b))}
}

func runC08(c c08Case) (obs c08Obs, err error) {
	for _, k := range c.Calls {
		if k < 0 || k >= len(c.Jobs) {
			return obs, fmt.Errorf("call names job %d of %d", k, len(c.Jobs))
		}
	}
	if c.Cold && c.Phase == "" && !c.Debug {
		return runC08Cold(c)
	}
	dir, err := os.MkdirTemp("", "pv08")
	if err != nil {
		return obs, err
	}
	defer os.RemoveAll(dir)
	files := map[string]string{}
	for p, a := range c.Files {
		files["template/page/"+unhx(p)+".ast.json"] = unhx(a)
	}
	if err := writeTree(dir, files); err != nil {
		return obs, err
	}
	obs.RaceBuild = raceEnabled
	obs.Procs = runtime.GOMAXPROCS(0)
	c08Count = c.Count
	c08ResetShared() // the converted objects this case's caller shares between its renders (c08data.go)
	before := len(raceLog())

	e := newEngine(dir, c.Debug, c.RateLimit, c08Funcs())
	if c.Debug {
		obs.Load = clsOK // debug mode loads per render
	} else {
		obs.Load, _ = safeLoad(e, "")
		if obs.Load != clsOK {
			return obs, nil
		}
	}
	names := make([]string, len(c.Jobs))
	for j, job := range c.Jobs {
		names[j] = unhx(job.Tpl)
	}
	seqAll := func() ([]renderResult, error) {
		res := make([]renderResult, len(c.Jobs))
		env := c08NewEnv(0)
		for j, job := range c.Jobs {
			d, err := c08Build(job.Data, env)
			if err != nil {
				return nil, err
			}
			ctx, s := c08Context(job.Ctx, nil, 0) // alone: no meeting, no staggering
			res[j] = c08Render(e, ctx, s, names[j], d)
		}
		return res, nil
	}
	if c.Phase != "conc" { // the storm's process of a cold case starts with the storm
		if obs.Seq, err = seqAll(); err != nil {
			return obs, err
		}
	}
	obs.GoEqual = true
	n := len(c.Calls)
	reps := c.Reps
	if reps < 1 {
		reps = 1
	}
	decided := false // keep > 0: some goroutine got two different results for one job; the case is decided
	for r := 0; r < c.Rounds && c.Phase != "seq" && !(r > 0 && raceSeen(before)) && !decided; r++ {
		res := make([][]c08Distinct, n)
		datas := make([]interface{}, n)
		var more [][]interface{} // count = true: the values of the repetitions, built before the storm
		ctxs := make([]context.Context, n)
		scripts := make([]*c08Script, n)
		berr := make([]error, n)
		meet := newC08Meet()
		env := c08NewEnv(r + 1) // the round's struct types: new to the process
		for g := 0; g < n; g++ {
			// every call gets its own, freshly built data value and its own context
			if datas[g], err = c08Build(c.Jobs[c.Calls[g]].Data, env); err != nil {
				return obs, err
			}
			var seed uint64
			if c.Stagger != 0 {
				seed = c08mix(c.Stagger^c08mix(uint64(r)<<20|uint64(g))) | 1
			}
			ctxs[g], scripts[g] = c08Context(c.Jobs[c.Calls[g]].Ctx, meet, seed)
		}
		if c.Count { // the storm of many goroutines is to consist of renders, not of the harness building data
			more = make([][]interface{}, n)
			for g := 0; g < n; g++ {
				more[g] = make([]interface{}, reps)
				for k := 1; k < reps; k++ {
					if more[g][k], err = c08Build(c.Jobs[c.Calls[g]].Data, env); err != nil {
						return obs, err
					}
				}
			}
		}
		var ready, done sync.WaitGroup
		var dropped, extras int32
		atomic.StoreInt32(&c08MaxRunning, 0)
		start := make(chan struct{})
		ready.Add(n)
		done.Add(n)
		for g := 0; g < n; g++ {
			go func(g int) {
				defer done.Done()
				ready.Done()
				<-start
				for k := 0; k < reps && !(k > 0 && raceSeen(before)); k++ {
					d := datas[g]
					if k > 0 && more != nil {
						d = more[g][k]
					} else if k > 0 { // a repetition renders a value of its own, too
						if d, berr[g] = c08Build(c.Jobs[c.Calls[g]].Data, env); berr[g] != nil {
							return
						}
					}
					x := c08Render(e, ctxs[g], scripts[g], names[c.Calls[g]], d)
					seen := false
					for i := range res[g] {
						if sameResult(res[g][i].renderResult, x) {
							res[g][i].N++
							seen = true
							break
						}
					}
					// with a bound on the kept results: the first `keep` distinct ones (two distinct results already
					// show that one of them is not the result of the render alone)
					// (and of second results at most 16 per round over all goroutines: outputs are kilobytes)
					if !seen && c.Keep > 0 && (len(res[g]) >= c.Keep || len(res[g]) >= 1 && atomic.AddInt32(&extras, 1) > 16) {
						atomic.AddInt32(&dropped, 1)
					} else if !seen {
						res[g] = append(res[g], c08Distinct{x, 1})
					}
				}
			}(g)
		}
		ready.Wait()
		close(start)
		done.Wait()
		for g := 0; g < n; g++ {
			if berr[g] != nil {
				return obs, berr[g]
			}
			for _, x := range res[g] {
				if obs.Seq != nil && !sameResult(x.renderResult, obs.Seq[c.Calls[g]]) {
					obs.GoEqual = false
				}
			}
		}
		obs.Conc = append(obs.Conc, res)
		obs.Dropped += int(dropped)
		decided = c.Keep > 0 && extras > 0
		if m := int(atomic.LoadInt32(&c08MaxRunning)); m > obs.InFlight {
			obs.InFlight = m
		}
		obs.Stagger.Points += meet.st.Points
		obs.Stagger.Holds += meet.st.Holds
		obs.Stagger.Released += meet.st.Released
		obs.Stagger.Timeouts += meet.st.Timeouts
		if meet.st.MaxInside > obs.Stagger.MaxInside {
			obs.Stagger.MaxInside = meet.st.MaxInside
		}
	}
	if c.Phase != "seq" {
		if obs.SeqAfter, err = seqAll(); err != nil {
			return obs, err
		}
	}
	for j := range obs.Seq {
		if obs.SeqAfter != nil && !sameResult(obs.Seq[j], obs.SeqAfter[j]) {
			obs.GoEqual = false
		}
	}
	after := raceLog()
	if len(after) > before {
		rep := after[before:]
		obs.Races = bytes.Count(rep, []byte("WARNING: DATA RACE"))
		if obs.Races == 0 {
			obs.Races = 1 // the log grew: something was reported
		}
		if len(rep) > 6000 {
			rep = rep[:6000]
		}
		obs.RaceReport = string(rep)
	}
	return obs, nil
}

// runC08Cold: the baseline of a cold case comes from one fresh process, the storm (and the
// renders alone after it) from another one; both are this binary, run on the one case.
func runC08Cold(c c08Case) (obs c08Obs, err error) {
	child := func(phase string) (o c08Obs, crashed bool, err error) {
		cc := c
		cc.Phase = phase
		in, err := json.Marshal([]c08Case{cc})
		if err != nil {
			return o, false, err
		}
		exe, err := os.Executable()
		if err != nil {
			return o, false, err
		}
		cmd := exec.Command(exe, "C08")
		// the race runtime sleeps 1 s at exit by default (to let other threads report); every goroutine of
		// the child has been joined when it exits
		cmd.Env = append(os.Environ(), "GORACE="+strings.TrimSpace(os.Getenv("GORACE")+" atexit_sleep_ms=0"))
		cmd.Stdin = bytes.NewReader(in)
		var stdout, stderr bytes.Buffer
		cmd.Stdout, cmd.Stderr = &stdout, &stderr
		runErr := cmd.Run()
		var l []c08Obs
		if runErr == nil && json.Unmarshal(stdout.Bytes(), &l) == nil && len(l) == 1 {
			return l[0], false, nil
		}
		msg := stderr.String()
		if strings.Contains(msg, "harness error") || strings.Contains(msg, "bad input") {
			return o, false, fmt.Errorf("cold %s phase: %s", phase, msg)
		}
		// the process died (fatal error: concurrent map writes, ...): an observation, not a harness error
		if len(msg) > 3000 {
			msg = msg[len(msg)-3000:]
		}
		o.Crashed, o.Stderr = true, phase+": "+fmt.Sprint(runErr)+"\n"+msg
		return o, true, nil
	}
	a, crashed, err := child("seq")
	if err != nil {
		return obs, err
	}
	obs = a
	obs.RaceBuild, obs.Procs = raceEnabled, runtime.GOMAXPROCS(0)
	if crashed || a.Load != clsOK {
		return obs, nil
	}
	b, crashed, err := child("conc")
	if err != nil {
		return obs, err
	}
	if crashed {
		obs.Crashed, obs.Stderr = true, b.Stderr
		return obs, nil
	}
	obs.Load = b.Load
	obs.Conc, obs.SeqAfter, obs.Stagger = b.Conc, b.SeqAfter, b.Stagger
	obs.InFlight, obs.Dropped = b.InFlight, b.Dropped
	obs.Races += b.Races
	obs.RaceReport += b.RaceReport
	obs.GoEqual = len(obs.SeqAfter) == len(obs.Seq)
	for j := range obs.SeqAfter {
		if j < len(obs.Seq) && !sameResult(obs.Seq[j], obs.SeqAfter[j]) {
			obs.GoEqual = false
		}
	}
	for _, round := range obs.Conc {
		for g, ds := range round {
			for _, x := range ds {
				if !sameResult(x.renderResult, obs.Seq[c.Calls[g]]) {
					obs.GoEqual = false
				}
			}
		}
	}
	return obs, nil
}
