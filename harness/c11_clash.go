package main

// C11: the hand-written types of harness/c11_clash (members that collide after the lower-camel name mapping)
// are look-alike scope "K" of c11Twins: described by the generator, compared with reflect by c11TwinType.

import (
	"fmt"
	"reflect"
	"sort"

	clash "verif/harness/c11_clash"
)

func init() {
	m := map[string]reflect.Type{}
	for name, v := range clash.Types {
		m[name] = reflect.TypeOf(v)
	}
	c11Twins["K"] = m
}

// c11MethodSets returns the names of the methods of t (value receiver, promoted ones included) and of the
// methods that only *t has, both sorted.
func c11MethodSets(t reflect.Type) (vm, pm []string) {
	seen := map[string]bool{}
	for i := 0; i < t.NumMethod(); i++ {
		vm = append(vm, t.Method(i).Name)
		seen[t.Method(i).Name] = true
	}
	pt := reflect.PtrTo(t)
	for i := 0; i < pt.NumMethod(); i++ {
		if !seen[pt.Method(i).Name] {
			pm = append(pm, pt.Method(i).Name)
		}
	}
	sort.Strings(vm)
	sort.Strings(pm)
	return vm, pm
}

// c11CheckShape compares the generator's description of the embedded fields ("emb") and of the two method
// sets ("vm", "pm") of a look-alike struct type with what reflect reports.
func c11CheckShape(t reflect.Type, emb, vm, pm []string) error {
	var isEmb []string
	for i := 0; i < t.NumField(); i++ {
		if t.Field(i).Anonymous {
			isEmb = append(isEmb, t.Field(i).Name)
		}
	}
	sort.Strings(isEmb)
	sort.Strings(emb)
	sort.Strings(vm)
	sort.Strings(pm)
	hasV, hasP := c11MethodSets(t)
	if fmt.Sprint(isEmb) != fmt.Sprint(emb) {
		return fmt.Errorf("%s: embedded fields described as %v, are %v", t, emb, isEmb)
	}
	if fmt.Sprint(hasV) != fmt.Sprint(vm) || fmt.Sprint(hasP) != fmt.Sprint(pm) {
		return fmt.Errorf("%s: method sets described as %v / %v, are %v / %v", t, vm, pm, hasV, hasP)
	}
	return nil
}
