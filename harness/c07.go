package main

import (
	"bytes"
	"context"
	"encoding/json"
	"fmt"
	"os"
	"os/exec"
	"reflect"
	"runtime"
	"strings"
	"sync"
	"time"

	"flamingo.me/pugtemplate/pugjs"
)

// C07: rendering is a pure, deterministic function of template and data.
//
// One case = template files + the template to render + data + a history of other renders.
// Every case runs in processes of its own (runner C07 re-executes this binary as C07one), so
// that whatever a render may leave behind - in an engine, in package-level variables, in pools
// or caches - can only come from the case's own history and a replay of the case is
// self-contained.
// Mode "full" (one process): r0 = the first render of the process' life, r1 = again on the
// same engine, r2 = on a second engine instance, then the history (other templates, or the same
// template with other data, each on any of three engine instances), r3 = on the third engine,
// r4 = with freshly built equal data on the first engine, r5 = on an engine created only now;
// afterwards the caller's data is deep-compared (reflect.DeepEqual) with a pristine copy built
// independently from the same description.
// Mode "single": exactly one render in a process of its own (own map hash seeds, nothing
// rendered before); the parent starts `fresh` of them per case.

// data built from Go slices / maps / pointers / structs
type c07Rec struct {
	Name  string
	Count int
	Tags  []string
	Items []interface{}
	Attrs map[string]interface{}
	Next  *c07Rec
}

type c07Pair struct {
	Key   string
	Value interface{}
}

func buildData07(raw json.RawMessage) (interface{}, error) {
	var tv tval
	if err := json.Unmarshal(raw, &tv); err != nil {
		return nil, err
	}
	switch tv.T {
	case "nil", "bool", "int", "float", "str":
		return buildData(raw)
	case "arr":
		var l []json.RawMessage
		if err := json.Unmarshal(tv.V, &l); err != nil {
			return nil, err
		}
		res := make([]interface{}, len(l))
		for i, x := range l {
			v, err := buildData07(x)
			if err != nil {
				return nil, err
			}
			res[i] = v
		}
		return res, nil
	case "strs": // []string
		var l []string
		if err := json.Unmarshal(tv.V, &l); err != nil {
			return nil, err
		}
		res := make([]string, len(l))
		for i, x := range l {
			res[i] = unhx(x)
		}
		return res, nil
	case "ints": // []int
		var l []int
		if err := json.Unmarshal(tv.V, &l); err != nil {
			return nil, err
		}
		if l == nil {
			l = []int{}
		}
		return l, nil
	case "map", "smap", "imap":
		var l [][2]json.RawMessage
		if err := json.Unmarshal(tv.V, &l); err != nil {
			return nil, err
		}
		m := make(map[string]interface{}, len(l))
		sm := make(map[string]string, len(l))
		im := make(map[string]int, len(l))
		for _, kv := range l {
			var k string
			if err := json.Unmarshal(kv[0], &k); err != nil {
				return nil, err
			}
			v, err := buildData07(kv[1])
			if err != nil {
				return nil, err
			}
			m[unhx(k)] = v
			switch tv.T {
			case "smap":
				s, ok := v.(string)
				if !ok {
					return nil, fmt.Errorf("smap value is not a string")
				}
				sm[unhx(k)] = s
			case "imap":
				n, ok := v.(int)
				if !ok {
					return nil, fmt.Errorf("imap value is not an int")
				}
				im[unhx(k)] = n
			}
		}
		switch tv.T {
		case "smap":
			return sm, nil
		case "imap":
			return im, nil
		}
		return m, nil
	case "rec", "prec": // struct c07Rec / pointer to it; v = map description with the field names as keys
		inner, err := buildData07(json.RawMessage(`{"t":"map","v":` + string(tv.V) + `}`))
		if err != nil {
			return nil, err
		}
		f := inner.(map[string]interface{})
		r := c07Rec{}
		if v, ok := f["name"].(string); ok {
			r.Name = v
		}
		if v, ok := f["count"].(int); ok {
			r.Count = v
		}
		if v, ok := f["tags"].([]string); ok {
			r.Tags = v
		}
		if v, ok := f["items"].([]interface{}); ok {
			r.Items = v
		}
		if v, ok := f["attrs"].(map[string]interface{}); ok {
			r.Attrs = v
		}
		if v, ok := f["next"].(*c07Rec); ok {
			r.Next = v
		}
		if tv.T == "prec" {
			return &r, nil
		}
		return r, nil
	case "nmap": // map[int]string: keys that are not strings
		var l [][2]json.RawMessage
		if err := json.Unmarshal(tv.V, &l); err != nil {
			return nil, err
		}
		m := make(map[int]string, len(l))
		for _, kv := range l {
			var k int
			var s string
			if err := json.Unmarshal(kv[0], &k); err != nil {
				return nil, err
			}
			if err := json.Unmarshal(kv[1], &s); err != nil {
				return nil, err
			}
			m[k] = unhx(s)
		}
		return m, nil
	case "ptr": // pointer to a slice or map value
		v, err := buildData07(tv.V)
		if err != nil {
			return nil, err
		}
		switch x := v.(type) {
		case []interface{}:
			return &x, nil
		case map[string]interface{}:
			return &x, nil
		case []string:
			return &x, nil
		}
		return nil, fmt.Errorf("ptr to unsupported value %T", v)
	}
	return nil, fmt.Errorf("bad data tag %q", tv.T)
}

type c07Req struct {
	Render string          `json:"render"`
	Data   json.RawMessage `json:"data"`
	On     int             `json:"on"` // which of the process's engine instances runs this history render
}

type c07Case struct {
	Files  map[string]string `json:"files"`
	Render string            `json:"render"`
	Data   json.RawMessage   `json:"data"`
	Prefix []c07Req          `json:"prefix"`
	Single bool              `json:"single"`
	Fresh  int               `json:"fresh"` // parent only: number of additional processes that render the pair exactly once
}

type c07Obs struct {
	Load            string         `json:"load"`
	R               []renderResult `json:"r"`
	Untouched       bool           `json:"untouched"`        // caller's data deep-equals the pristine copy after all renders
	PrefixUntouched bool           `json:"prefix_untouched"` // same for the data of the history renders
	Fresh           []renderResult `json:"fresh"`            // parent only: the single render of each additional process
	FreshUntouched  bool           `json:"fresh_untouched"`
	Msg             string         `json:"msg,omitempty"`
}

// runC07 runs ONE case in this process.  The process has rendered nothing before:
// r[0] is the first render of the process' life.
func runC07(c c07Case) (obs c07Obs, err error) {
	dir, err := os.MkdirTemp("", "pv07")
	if err != nil {
		return obs, err
	}
	defer os.RemoveAll(dir)
	files := map[string]string{}
	for p, a := range c.Files {
		files["template/page/"+unhx(p)+".ast.json"] = unhx(a)
	}
	if err := writeTree(dir, files); err != nil {
		return obs, err
	}
	data, err := buildData07(c.Data)
	if err != nil {
		return obs, err
	}
	pristine, err := buildData07(c.Data) // independent second construction, never handed to the engine
	if err != nil {
		return obs, err
	}
	if !reflect.DeepEqual(data, pristine) {
		return obs, fmt.Errorf("data description does not build reproducibly")
	}
	name := unhx(c.Render)
	ctx := context.Background()

	e1 := newEngine(dir, false, 0, nil)
	obs.Load, obs.Msg = safeLoad(e1, "")
	if obs.Load != clsOK {
		return obs, nil
	}
	obs.R = append(obs.R, safeRender(e1, ctx, name, data)) // r0: first render of the process
	obs.Untouched = reflect.DeepEqual(data, pristine)
	obs.PrefixUntouched = true
	obs.FreshUntouched = true
	if c.Single {
		return obs, nil
	}
	obs.R = append(obs.R, safeRender(e1, ctx, name, data)) // r1: again, same engine, same data value

	engines := []*pugjs.Engine{e1}
	for i := 2; i <= 3; i++ {
		e := newEngine(dir, false, 0, nil)
		if cls, _ := safeLoad(e, ""); cls != clsOK {
			return obs, fmt.Errorf("engine %d does not load what the first loaded", i)
		}
		engines = append(engines, e)
	}
	obs.R = append(obs.R, safeRender(engines[1], ctx, name, data)) // r2: second engine instance

	// the history: other templates / the same template with other data, on any engine of the process
	for _, rq := range c.Prefix {
		d, err := buildData07(rq.Data)
		if err != nil {
			return obs, err
		}
		p, _ := buildData07(rq.Data)
		on := rq.On % len(engines)
		if on < 0 {
			on = 0
		}
		safeRender(engines[on], ctx, unhx(rq.Render), d)
		if !reflect.DeepEqual(d, p) {
			obs.PrefixUntouched = false
		}
	}
	obs.R = append(obs.R, safeRender(engines[2], ctx, name, data)) // r3: third engine, after the history
	// r4: freshly built equal data, on the first engine, after the history
	fresh, _ := buildData07(c.Data)
	obs.R = append(obs.R, safeRender(e1, ctx, name, fresh))
	// r5: an engine instance created only now
	e4 := newEngine(dir, false, 0, nil)
	if cls, _ := safeLoad(e4, ""); cls != clsOK {
		return obs, fmt.Errorf("late engine does not load what the first loaded")
	}
	obs.R = append(obs.R, safeRender(e4, ctx, name, data))
	obs.Untouched = reflect.DeepEqual(data, pristine) && reflect.DeepEqual(fresh, pristine)
	return obs, nil
}

// child runs one case in a process of its own (this binary, runner C07one).
func c07Child(self, tmp string, c c07Case) (obs c07Obs, err error) {
	in, err := json.Marshal(c)
	if err != nil {
		return obs, err
	}
	ctx, cancel := context.WithTimeout(context.Background(), 5*time.Minute) // a hung child ends as a crash
	defer cancel()
	cmd := exec.CommandContext(ctx, self, "C07one")
	cmd.Stdin = bytes.NewReader(in)
	cmd.Env = append(os.Environ(), "TMPDIR="+tmp) // a child the runtime kills cannot remove its files: the parent does
	var stderr bytes.Buffer
	cmd.Stderr = &stderr
	out, err := cmd.Output()
	if err != nil {
		msg := stderr.String()
		if len(msg) > 600 {
			msg = msg[:600]
		}
		if _, died := err.(*exec.ExitError); died && !strings.HasPrefix(msg, "harness error:") && !strings.HasPrefix(msg, "bad input:") {
			// the Go runtime killed the process (stack exhaustion, concurrent map access, ...): nothing a
			// recover() can catch.  Every render of that process is reported as class "crash".
			n := 6
			if c.Single {
				n = 1
			}
			obs = c07Obs{Load: clsOK, Untouched: true, PrefixUntouched: true, FreshUntouched: true, Msg: msg}
			for i := 0; i < n; i++ {
				obs.R = append(obs.R, renderResult{Class: "crash"})
			}
			return obs, nil
		}
		return obs, fmt.Errorf("child process: %v: %s", err, msg)
	}
	err = json.Unmarshal(out, &obs)
	return obs, err
}

// c07Isolated: one process for the full sequence of the case and c.Fresh more processes that render the
// pair exactly once - no state of any kind is shared between two cases or between these processes.
func c07Isolated(self, tmp string, c c07Case) (c07Obs, error) {
	n := c.Fresh
	c.Fresh = 0
	if c.Single {
		return c07Child(self, tmp, c)
	}
	obs, err := c07Child(self, tmp, c)
	if err != nil || obs.Load != clsOK {
		return obs, err
	}
	obs.Fresh = []renderResult{}
	c.Single = true
	c.Prefix = nil
	for i := 0; i < n; i++ {
		o, err := c07Child(self, tmp, c)
		if err != nil {
			return obs, err
		}
		if o.Load != clsOK || len(o.R) != 1 {
			return obs, fmt.Errorf("a fresh process does not load what the first loaded")
		}
		obs.Fresh = append(obs.Fresh, o.R[0])
		obs.FreshUntouched = obs.FreshUntouched && o.Untouched
	}
	return obs, nil
}

func init() {
	runners["C07one"] = func(in json.RawMessage) (interface{}, error) {
		var c c07Case
		if err := json.Unmarshal(in, &c); err != nil {
			return nil, err
		}
		return runC07(c)
	}
	runners["C07"] = func(in json.RawMessage) (interface{}, error) {
		var cases []c07Case
		if err := json.Unmarshal(in, &cases); err != nil {
			return nil, err
		}
		self, err := os.Executable()
		if err != nil {
			return nil, err
		}
		tmp, err := os.MkdirTemp("", "pv07run")
		if err != nil {
			return nil, err
		}
		defer os.RemoveAll(tmp)
		out := make([]c07Obs, len(cases))
		errs := make([]error, len(cases))
		workers := runtime.NumCPU()
		if workers > 8 {
			workers = 8
		}
		if workers < 1 {
			workers = 1
		}
		jobs := make(chan int)
		var wg sync.WaitGroup
		for w := 0; w < workers; w++ {
			wg.Add(1)
			go func() {
				defer wg.Done()
				for i := range jobs {
					out[i], errs[i] = c07Isolated(self, tmp, cases[i])
				}
			}()
		}
		for i := range cases {
			jobs <- i
		}
		close(jobs)
		wg.Wait()
		for i, err := range errs {
			if err != nil {
				return nil, fmt.Errorf("case %d: %w", i, err)
			}
		}
		return out, nil
	}
}
