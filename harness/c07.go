package main

import (
	"context"
	"encoding/json"
	"fmt"
	"os"
	"reflect"
)

// C07: rendering is a pure, deterministic function of template and data.
//
// One case = template files + the template to render + data + a prefix of other renders.
// Mode "full": the case is rendered twice on one engine, once on a second engine and once
// on a third engine after the prefix renders; afterwards the caller's data is deep-compared
// (reflect.DeepEqual) with a pristine copy built independently from the same description.
// Mode "single": one render on a fresh engine (the Python driver starts several fresh
// processes in this mode, each with its own map hash seeds).

// data built from Go slices / maps / pointers / structs
type c07Rec struct {
	Name  string
	Count int
	Tags  []string
	Items []interface{}
	Attrs map[string]interface{}
	Next  *c07Rec
}

type c07Pair struct {
	Key   string
	Value interface{}
}

func buildData07(raw json.RawMessage) (interface{}, error) {
	var tv tval
	if err := json.Unmarshal(raw, &tv); err != nil {
		return nil, err
	}
	switch tv.T {
	case "nil", "bool", "int", "float", "str":
		return buildData(raw)
	case "arr":
		var l []json.RawMessage
		if err := json.Unmarshal(tv.V, &l); err != nil {
			return nil, err
		}
		res := make([]interface{}, len(l))
		for i, x := range l {
			v, err := buildData07(x)
			if err != nil {
				return nil, err
			}
			res[i] = v
		}
		return res, nil
	case "strs": // []string
		var l []string
		if err := json.Unmarshal(tv.V, &l); err != nil {
			return nil, err
		}
		res := make([]string, len(l))
		for i, x := range l {
			res[i] = unhx(x)
		}
		return res, nil
	case "ints": // []int
		var l []int
		if err := json.Unmarshal(tv.V, &l); err != nil {
			return nil, err
		}
		if l == nil {
			l = []int{}
		}
		return l, nil
	case "map", "smap", "imap":
		var l [][2]json.RawMessage
		if err := json.Unmarshal(tv.V, &l); err != nil {
			return nil, err
		}
		m := make(map[string]interface{}, len(l))
		sm := make(map[string]string, len(l))
		im := make(map[string]int, len(l))
		for _, kv := range l {
			var k string
			if err := json.Unmarshal(kv[0], &k); err != nil {
				return nil, err
			}
			v, err := buildData07(kv[1])
			if err != nil {
				return nil, err
			}
			m[unhx(k)] = v
			switch tv.T {
			case "smap":
				s, ok := v.(string)
				if !ok {
					return nil, fmt.Errorf("smap value is not a string")
				}
				sm[unhx(k)] = s
			case "imap":
				n, ok := v.(int)
				if !ok {
					return nil, fmt.Errorf("imap value is not an int")
				}
				im[unhx(k)] = n
			}
		}
		switch tv.T {
		case "smap":
			return sm, nil
		case "imap":
			return im, nil
		}
		return m, nil
	case "rec", "prec": // struct c07Rec / pointer to it; v = map description with the field names as keys
		inner, err := buildData07(json.RawMessage(`{"t":"map","v":` + string(tv.V) + `}`))
		if err != nil {
			return nil, err
		}
		f := inner.(map[string]interface{})
		r := c07Rec{}
		if v, ok := f["name"].(string); ok {
			r.Name = v
		}
		if v, ok := f["count"].(int); ok {
			r.Count = v
		}
		if v, ok := f["tags"].([]string); ok {
			r.Tags = v
		}
		if v, ok := f["items"].([]interface{}); ok {
			r.Items = v
		}
		if v, ok := f["attrs"].(map[string]interface{}); ok {
			r.Attrs = v
		}
		if v, ok := f["next"].(*c07Rec); ok {
			r.Next = v
		}
		if tv.T == "prec" {
			return &r, nil
		}
		return r, nil
	case "nmap": // map[int]string: keys that are not strings
		var l [][2]json.RawMessage
		if err := json.Unmarshal(tv.V, &l); err != nil {
			return nil, err
		}
		m := make(map[int]string, len(l))
		for _, kv := range l {
			var k int
			var s string
			if err := json.Unmarshal(kv[0], &k); err != nil {
				return nil, err
			}
			if err := json.Unmarshal(kv[1], &s); err != nil {
				return nil, err
			}
			m[k] = unhx(s)
		}
		return m, nil
	case "ptr": // pointer to a slice or map value
		v, err := buildData07(tv.V)
		if err != nil {
			return nil, err
		}
		switch x := v.(type) {
		case []interface{}:
			return &x, nil
		case map[string]interface{}:
			return &x, nil
		case []string:
			return &x, nil
		}
		return nil, fmt.Errorf("ptr to unsupported value %T", v)
	}
	return nil, fmt.Errorf("bad data tag %q", tv.T)
}

type c07Req struct {
	Render string          `json:"render"`
	Data   json.RawMessage `json:"data"`
}

type c07Case struct {
	Files  map[string]string `json:"files"`
	Render string            `json:"render"`
	Data   json.RawMessage   `json:"data"`
	Prefix []c07Req          `json:"prefix"`
	Single bool              `json:"single"`
}

type c07Obs struct {
	Load            string         `json:"load"`
	R               []renderResult `json:"r"`
	Untouched       bool           `json:"untouched"`        // caller's data deep-equals the pristine copy after all renders
	PrefixUntouched bool           `json:"prefix_untouched"` // same for the data of the prefix renders
	Msg             string         `json:"msg,omitempty"`
}

func runC07(c c07Case) (obs c07Obs, err error) {
	dir, err := os.MkdirTemp("", "pv07")
	if err != nil {
		return obs, err
	}
	defer os.RemoveAll(dir)
	files := map[string]string{}
	for p, a := range c.Files {
		files["template/page/"+unhx(p)+".ast.json"] = unhx(a)
	}
	if err := writeTree(dir, files); err != nil {
		return obs, err
	}
	data, err := buildData07(c.Data)
	if err != nil {
		return obs, err
	}
	pristine, err := buildData07(c.Data) // independent second construction, never handed to the engine
	if err != nil {
		return obs, err
	}
	if !reflect.DeepEqual(data, pristine) {
		return obs, fmt.Errorf("data description does not build reproducibly")
	}
	name := unhx(c.Render)
	ctx := context.Background()

	e1 := newEngine(dir, false, 0, nil)
	obs.Load, obs.Msg = safeLoad(e1, "")
	if obs.Load != clsOK {
		return obs, nil
	}
	obs.R = append(obs.R, safeRender(e1, ctx, name, data))
	obs.Untouched = reflect.DeepEqual(data, pristine)
	obs.PrefixUntouched = true
	if c.Single {
		return obs, nil
	}
	obs.R = append(obs.R, safeRender(e1, ctx, name, data))

	e2 := newEngine(dir, false, 0, nil)
	if cls, _ := safeLoad(e2, ""); cls != clsOK {
		return obs, fmt.Errorf("second engine does not load what the first loaded")
	}
	obs.R = append(obs.R, safeRender(e2, ctx, name, data))

	e3 := newEngine(dir, false, 0, nil)
	if cls, _ := safeLoad(e3, ""); cls != clsOK {
		return obs, fmt.Errorf("third engine does not load what the first loaded")
	}
	for _, rq := range c.Prefix {
		d, err := buildData07(rq.Data)
		if err != nil {
			return obs, err
		}
		p, _ := buildData07(rq.Data)
		safeRender(e3, ctx, unhx(rq.Render), d)
		if !reflect.DeepEqual(d, p) {
			obs.PrefixUntouched = false
		}
	}
	obs.R = append(obs.R, safeRender(e3, ctx, name, data))
	// a render with freshly built equal data, after everything else on engine 1
	fresh, _ := buildData07(c.Data)
	obs.R = append(obs.R, safeRender(e1, ctx, name, fresh))
	obs.Untouched = reflect.DeepEqual(data, pristine) && reflect.DeepEqual(fresh, pristine)
	return obs, nil
}

func init() {
	runners["C07"] = func(in json.RawMessage) (interface{}, error) {
		var cases []c07Case
		if err := json.Unmarshal(in, &cases); err != nil {
			return nil, err
		}
		out := make([]c07Obs, len(cases))
		for i, c := range cases {
			o, err := runC07(c)
			if err != nil {
				return nil, fmt.Errorf("case %d: %w", i, err)
			}
			out[i] = o
		}
		return out, nil
	}
}
