package main

import (
	"bytes"
	"context"
	"encoding/json"
	"fmt"
	"io"
	"os"
	"os/exec"
	"path/filepath"
	"reflect"
	"runtime"
	"sort"
	"strings"
	"sync"
	"time"

	"flamingo.me/flamingo/v3/framework/flamingo"
	"flamingo.me/pugtemplate/pugjs"
)

// C07: rendering is a pure, deterministic function of template and data.
//
// One case = template files + the template to render + data + a history of other renders +
// sibling templates that are never rendered.
// Every case runs in processes of its own (runner C07 re-executes this binary as C07one), so
// that whatever a render may leave behind - in an engine, in package-level variables, in pools
// or caches - can only come from the case's own history and a replay of the case is
// self-contained.
// Mode "full" (one process): r0 = the first render of the process' life, r1 = again on the
// same engine, r2 = on a second engine instance, then the history (other templates, or the same
// template with other data, each on any of three engine instances), r3 = on the third engine,
// r4 = with freshly built equal data on the first engine, r5 = on an engine created only now,
// r6 = on an engine whose template directory holds the rendered template ALONE, r7 = on an engine
// over the same files and siblings listed in the other directory order; afterwards the caller's
// data is deep-compared (reflect.DeepEqual) with a pristine copy built independently from the
// same description.
// What a render returns is an io.Reader: its bytes are what the caller READS, whenever it reads.
// r0..r7 are read at once.  Further renders (one right after r0, any render of the history, the
// renders of the late phase after r7) are KEPT: the reader stays unread (or is read only in
// part) while the process goes on rendering - the same pair, other data, other templates, on the
// same and on other engines - and is read when all renders are over, oldest first, newest first,
// in a permuted order, or a few bytes at a time round-robin.  Kept renders of the pair are
// reported next to r0..r7; every other kept render is repeated at the end (equal data, read at
// once) and reported as a pair of outputs that must be equal.
// Mode "single": exactly one render in a process of its own (own map hash seeds, nothing
// rendered before) over one of the three directory layouts; the parent starts `fresh` of them
// per case.
// VALUES OF THE ENGINE'S OWN OBJECT MODEL IN THE DATA (tags "obj", "objs", "omap"): what the caller got
// from pugjs.Convert (*pugjs.Array, *pugjs.Map, pugjs.String, pugjs.Number, pugjs.Bool, pugjs.Nil),
// lists []pugjs.Object and maps map[string]pugjs.Object of such values, anywhere in the data.  The
// caller keeps them: they are part of the deep comparison with the pristine copy, and the same
// objects are handed to every render of the pair.
// ENGINES WITH OTHER FUNCTION TABLES / TEMPLATE SETS IN THE SAME PROCESS: the engines of the pair share
// one function table (the standard functions + `funcs`: zero-argument functions returning constants,
// used by templates like variables).  `aliens` are further engine instances of the process with
// function tables and template directories of their own (the same files, or other files under the
// same names), created and loaded before the pair's first engine exists or right before the
// history; requests of the history / the late phase with on >= 100 are rendered by them.  Every
// such render is repeated by the parent in a process that holds only that engine and renders only
// that request: the two outputs are reported side by side and must be equal.
// KEYS THAT ARE NOT STRINGS / STRUCT TYPES WITHOUT A NAME (tags "kmap", "st"): Go maps keyed by bool, sized ints,
// float64, small structs, arrays, named bool / string types, interface{}; values of reflect.StructOf types and
// of function-local types that share the name main.View (c07KeyedMap, c07Struct).
// NOT THE FIRST RENDER (`before`): one more process of its own renders the given requests (other data, other
// templates; odd engine numbers on a second engine instance) and then the pair, once - reported with the
// single-render processes in `fresh`.
// An engine that fails to load its templates is not an error of the harness: its renders are
// reported as class "load_error".

// data built from Go slices / maps / pointers / structs
type c07Rec struct {
	Name  string
	Count int
	Tags  []string
	Items []interface{}
	Attrs map[string]interface{}
	Next  *c07Rec
}

type c07Pair struct {
	Key   string
	Value interface{}
}

// A slice in the caller's data is a window into an array the caller owns: the slices the harness builds have
// 0-2 elements of spare capacity behind their end, filled with a mark.  c07Spare collects what stands there
// (for every slice reachable through maps, slices, pointers, interfaces and exported struct fields), so that
// "the data is untouched" covers the caller's whole arrays, not only the elements inside the windows.
const c07SpareMark = "\x00spare"

func c07SpareCap(n int) int { return n % 3 }

func c07Spare(v interface{}) []interface{} {
	var acc []interface{}
	var walk func(x reflect.Value, depth int)
	walk = func(x reflect.Value, depth int) {
		if !x.IsValid() || depth > 40 {
			return
		}
		switch x.Kind() {
		case reflect.Interface, reflect.Ptr:
			if !x.IsNil() {
				walk(x.Elem(), depth+1)
			}
		case reflect.Slice:
			if x.Cap() > x.Len() && x.CanInterface() {
				full := x.Slice3(0, x.Cap(), x.Cap())
				for i := x.Len(); i < x.Cap(); i++ {
					acc = append(acc, full.Index(i).Interface())
				}
			}
			for i := 0; i < x.Len(); i++ {
				walk(x.Index(i), depth+1)
			}
		case reflect.Map:
			keys := x.MapKeys()
			sort.Slice(keys, func(i, j int) bool { return fmt.Sprint(keys[i].Interface()) < fmt.Sprint(keys[j].Interface()) })
			for _, k := range keys {
				walk(x.MapIndex(k), depth+1)
			}
		case reflect.Struct:
			for i := 0; i < x.NumField(); i++ {
				if x.Type().Field(i).PkgPath == "" {
					walk(x.Field(i), depth+1)
				}
			}
		}
	}
	walk(reflect.ValueOf(v), 0)
	return acc
}

// c07Same: the caller's data is what the pristine copy is - inside the windows and behind them
func c07Same(data, pristine interface{}) bool {
	return reflect.DeepEqual(data, pristine) && reflect.DeepEqual(c07Spare(data), c07Spare(pristine))
}

func buildData07(raw json.RawMessage) (interface{}, error) {
	var tv tval
	if err := json.Unmarshal(raw, &tv); err != nil {
		return nil, err
	}
	switch tv.T {
	case "nil", "bool", "int", "float", "str":
		return buildData(raw)
	case "arr":
		var l []json.RawMessage
		if err := json.Unmarshal(tv.V, &l); err != nil {
			return nil, err
		}
		res := make([]interface{}, len(l), len(l)+c07SpareCap(len(l)))
		for i, x := range l {
			v, err := buildData07(x)
			if err != nil {
				return nil, err
			}
			res[i] = v
		}
		for i := len(l); i < cap(res); i++ {
			res[:cap(res)][i] = c07SpareMark
		}
		return res, nil
	case "strs": // []string
		var l []string
		if err := json.Unmarshal(tv.V, &l); err != nil {
			return nil, err
		}
		res := make([]string, len(l), len(l)+c07SpareCap(len(l)))
		for i, x := range l {
			res[i] = unhx(x)
		}
		for i := len(l); i < cap(res); i++ {
			res[:cap(res)][i] = c07SpareMark
		}
		return res, nil
	case "ints": // []int
		var l []int
		if err := json.Unmarshal(tv.V, &l); err != nil {
			return nil, err
		}
		res := make([]int, len(l), len(l)+c07SpareCap(len(l)))
		copy(res, l)
		for i := len(l); i < cap(res); i++ {
			res[:cap(res)][i] = -777
		}
		return res, nil
	case "map", "smap", "imap":
		var l [][2]json.RawMessage
		if err := json.Unmarshal(tv.V, &l); err != nil {
			return nil, err
		}
		m := make(map[string]interface{}, len(l))
		sm := make(map[string]string, len(l))
		im := make(map[string]int, len(l))
		for _, kv := range l {
			var k string
			if err := json.Unmarshal(kv[0], &k); err != nil {
				return nil, err
			}
			v, err := buildData07(kv[1])
			if err != nil {
				return nil, err
			}
			m[unhx(k)] = v
			switch tv.T {
			case "smap":
				s, ok := v.(string)
				if !ok {
					return nil, fmt.Errorf("smap value is not a string")
				}
				sm[unhx(k)] = s
			case "imap":
				n, ok := v.(int)
				if !ok {
					return nil, fmt.Errorf("imap value is not an int")
				}
				im[unhx(k)] = n
			}
		}
		switch tv.T {
		case "smap":
			return sm, nil
		case "imap":
			return im, nil
		}
		return m, nil
	case "rec", "prec": // struct c07Rec / pointer to it; v = map description with the field names as keys
		inner, err := buildData07(json.RawMessage(`{"t":"map","v":` + string(tv.V) + `}`))
		if err != nil {
			return nil, err
		}
		f := inner.(map[string]interface{})
		r := c07Rec{}
		if v, ok := f["name"].(string); ok {
			r.Name = v
		}
		if v, ok := f["count"].(int); ok {
			r.Count = v
		}
		if v, ok := f["tags"].([]string); ok {
			r.Tags = v
		}
		if v, ok := f["items"].([]interface{}); ok {
			r.Items = v
		}
		if v, ok := f["attrs"].(map[string]interface{}); ok {
			r.Attrs = v
		}
		if v, ok := f["next"].(*c07Rec); ok {
			r.Next = v
		}
		if tv.T == "prec" {
			return &r, nil
		}
		return r, nil
	case "nmap": // map[int]string: keys that are not strings
		var l [][2]json.RawMessage
		if err := json.Unmarshal(tv.V, &l); err != nil {
			return nil, err
		}
		m := make(map[int]string, len(l))
		for _, kv := range l {
			var k int
			var s string
			if err := json.Unmarshal(kv[0], &k); err != nil {
				return nil, err
			}
			if err := json.Unmarshal(kv[1], &s); err != nil {
				return nil, err
			}
			m[k] = unhx(s)
		}
		return m, nil
	case "kmap": // a Go map whose keys are not strings: v = {"k": key kind, "e": [[key, value], ...]}
		return c07KeyedMap(tv.V)
	case "st": // a struct type without a name of its own: v = {"ty": -1 (reflect.StructOf) | i (local type i), "ptr": bool, "f": [[field name, value], ...]}
		return c07Struct(tv.V)
	case "ptr": // pointer to a slice or map value
		v, err := buildData07(tv.V)
		if err != nil {
			return nil, err
		}
		switch x := v.(type) {
		case []interface{}:
			return &x, nil
		case map[string]interface{}:
			return &x, nil
		case []string:
			return &x, nil
		case []pugjs.Object:
			return &x, nil
		}
		return nil, fmt.Errorf("ptr to unsupported value %T", v)
	case "obj": // what the caller got from pugjs.Convert for the described Go value
		v, err := buildData07(tv.V)
		if err != nil {
			return nil, err
		}
		return pugjs.Convert(v), nil
	case "objs": // []pugjs.Object
		var l []json.RawMessage
		if err := json.Unmarshal(tv.V, &l); err != nil {
			return nil, err
		}
		res := make([]pugjs.Object, len(l), len(l)+c07SpareCap(len(l)))
		for i, x := range l {
			v, err := buildData07(x)
			if err != nil {
				return nil, err
			}
			res[i] = pugjs.Convert(v)
		}
		for i := len(l); i < cap(res); i++ {
			res[:cap(res)][i] = pugjs.String(c07SpareMark)
		}
		return res, nil
	case "omap": // map[string]pugjs.Object
		var l [][2]json.RawMessage
		if err := json.Unmarshal(tv.V, &l); err != nil {
			return nil, err
		}
		m := make(map[string]pugjs.Object, len(l))
		for _, kv := range l {
			var k string
			if err := json.Unmarshal(kv[0], &k); err != nil {
				return nil, err
			}
			v, err := buildData07(kv[1])
			if err != nil {
				return nil, err
			}
			m[unhx(k)] = pugjs.Convert(v)
		}
		return m, nil
	}
	return nil, fmt.Errorf("bad data tag %q", tv.T)
}

// ---- maps with keys that are not strings ---------------------------------------------------------
// convert names an entry by fmt.Sprint(key).  Key kinds: "bool" map[bool]interface{}, "bs" map[bool]string,
// "nb" map[c07Flag] (named bool), "i8" map[int8], "u16" map[uint16], "i64" map[int64], "f64" map[float64],
// "sk" map[c07Key] (small struct), "ak" map[[2]int], "ns" map[c07Name] (named string type),
// "ik" map[interface{}] with keys of several dynamic types.
type c07Flag bool
type c07Name string
type c07Key struct {
	A int
	B string
}

func c07KeyedMap(raw json.RawMessage) (interface{}, error) {
	var d struct {
		K string               `json:"k"`
		E [][2]json.RawMessage `json:"e"`
	}
	if err := json.Unmarshal(raw, &d); err != nil {
		return nil, err
	}
	var mt reflect.Type
	iface := reflect.TypeOf((*interface{})(nil)).Elem()
	switch d.K {
	case "bool":
		mt = reflect.TypeOf(map[bool]interface{}{})
	case "bs":
		mt = reflect.TypeOf(map[bool]string{})
	case "nb":
		mt = reflect.TypeOf(map[c07Flag]interface{}{})
	case "i8":
		mt = reflect.TypeOf(map[int8]interface{}{})
	case "u16":
		mt = reflect.TypeOf(map[uint16]interface{}{})
	case "i64":
		mt = reflect.TypeOf(map[int64]interface{}{})
	case "f64":
		mt = reflect.TypeOf(map[float64]interface{}{})
	case "sk":
		mt = reflect.TypeOf(map[c07Key]interface{}{})
	case "ak":
		mt = reflect.TypeOf(map[[2]int]interface{}{})
	case "ns":
		mt = reflect.TypeOf(map[c07Name]interface{}{})
	case "ik":
		mt = reflect.TypeOf(map[interface{}]interface{}{})
	default:
		return nil, fmt.Errorf("bad key kind %q", d.K)
	}
	m := reflect.MakeMapWithSize(mt, len(d.E))
	for _, kv := range d.E {
		k := reflect.New(mt.Key()).Elem()
		switch d.K {
		case "sk":
			var l []json.RawMessage
			var key c07Key
			if err := json.Unmarshal(kv[0], &l); err != nil || len(l) != 2 {
				return nil, fmt.Errorf("bad struct key %s", kv[0])
			}
			if err := json.Unmarshal(l[0], &key.A); err != nil {
				return nil, err
			}
			if err := json.Unmarshal(l[1], &key.B); err != nil {
				return nil, err
			}
			k.Set(reflect.ValueOf(key))
		case "ik":
			x, err := buildData07(kv[0])
			if err != nil || x == nil {
				return nil, fmt.Errorf("bad interface key %s", kv[0])
			}
			k.Set(reflect.ValueOf(x))
		default:
			if err := json.Unmarshal(kv[0], k.Addr().Interface()); err != nil {
				return nil, fmt.Errorf("key %s: %v", kv[0], err)
			}
		}
		v, err := buildData07(kv[1])
		if err != nil {
			return nil, err
		}
		e := reflect.New(mt.Elem()).Elem()
		if v != nil {
			if !reflect.TypeOf(v).AssignableTo(mt.Elem()) {
				return nil, fmt.Errorf("value %T does not fit %v", v, mt)
			}
			e.Set(reflect.ValueOf(v))
		} else if mt.Elem() != iface {
			return nil, fmt.Errorf("nil value in %v", mt)
		}
		if m.MapIndex(k).IsValid() {
			return nil, fmt.Errorf("key %s twice", kv[0])
		}
		m.SetMapIndex(k, e)
	}
	return m.Interface(), nil
}

// ---- struct types without a name of their own ------------------------------------------------------
// Types made by reflect.StructOf (no name, no package path: what `struct{Title string}` literals are) and
// types declared inside functions: DIFFERENT types that all answer "View" / "main" to Name() / PkgPath().
func c07Local0() reflect.Type {
	type View struct {
		Title string
		Count int
	}
	return reflect.TypeOf(View{})
}
func c07Local1() reflect.Type {
	type View struct {
		Name  string
		Tags  []string
		Count int
	}
	return reflect.TypeOf(View{})
}
func c07Local2() reflect.Type {
	type View struct {
		ID    int
		Label string
		Items []interface{}
		Attrs map[string]interface{}
	}
	return reflect.TypeOf(View{})
}
func c07Local3() reflect.Type {
	type View struct{ Label string }
	return reflect.TypeOf(View{})
}
func c07Local4() reflect.Type {
	type View struct {
		Count int
		Title string
	}
	return reflect.TypeOf(View{})
}

var c07Locals = []reflect.Type{c07Local0(), c07Local1(), c07Local2(), c07Local3(), c07Local4()}

func c07Struct(raw json.RawMessage) (interface{}, error) {
	var d struct {
		Ty  int                  `json:"ty"`
		Ptr bool                 `json:"ptr"`
		F   [][2]json.RawMessage `json:"f"`
	}
	if err := json.Unmarshal(raw, &d); err != nil {
		return nil, err
	}
	names := make([]string, len(d.F))
	vals := make([]interface{}, len(d.F))
	for i, f := range d.F {
		var n string
		if err := json.Unmarshal(f[0], &n); err != nil {
			return nil, err
		}
		names[i] = unhx(n)
		v, err := buildData07(f[1])
		if err != nil {
			return nil, err
		}
		vals[i] = v
	}
	var t reflect.Type
	if d.Ty >= 0 {
		if d.Ty >= len(c07Locals) {
			return nil, fmt.Errorf("no local type %d", d.Ty)
		}
		t = c07Locals[d.Ty]
		if t.NumField() != len(names) {
			return nil, fmt.Errorf("local type %d has %d fields", d.Ty, t.NumField())
		}
		for i, n := range names {
			if t.Field(i).Name != n {
				return nil, fmt.Errorf("local type %d: field %d is %s, not %s", d.Ty, i, t.Field(i).Name, n)
			}
		}
	} else {
		iface := reflect.TypeOf((*interface{})(nil)).Elem()
		fs := make([]reflect.StructField, len(names))
		for i, n := range names {
			ft := iface
			switch vals[i].(type) {
			case string, int, bool, []string:
				ft = reflect.TypeOf(vals[i])
			}
			fs[i] = reflect.StructField{Name: n, Type: ft}
		}
		var perr interface{}
		func() {
			defer func() { perr = recover() }()
			t = reflect.StructOf(fs)
		}()
		if perr != nil {
			return nil, fmt.Errorf("reflect.StructOf: %v", perr)
		}
	}
	p := reflect.New(t)
	for i, v := range vals {
		if v == nil {
			continue
		}
		if !reflect.TypeOf(v).AssignableTo(t.Field(i).Type) {
			return nil, fmt.Errorf("field %s: %T does not fit %v", names[i], v, t.Field(i).Type)
		}
		p.Elem().Field(i).Set(reflect.ValueOf(v))
	}
	if d.Ptr {
		return p.Interface(), nil
	}
	return p.Elem().Interface(), nil
}

// one render of the history / of the late phase
type c07Req struct {
	Render string          `json:"render"`
	Data   json.RawMessage `json:"data"`
	Pair   bool            `json:"pair"` // the case's own (template, data) pair: Render / Data are ignored
	On     int             `json:"on"`   // which of the process's engine instances runs this render; >= 100: alien engine On-100
	// what the caller does with the io.Reader that Render returns:
	// 0 = read it to the end at once; 1 = keep it unread while the process goes on rendering and read it when
	// everything else is done; 2 = read the first Pre bytes at once and the rest when everything else is done
	Hold int `json:"hold"`
	Pre  int `json:"pre"`
}

type c07Case struct {
	Files    map[string]string          `json:"files"`    // rendered template + the templates of the history (hex name -> hex AST)
	Siblings map[string]string          `json:"siblings"` // templates that are never rendered (hex relative path, may contain directories)
	Render   string                     `json:"render"`
	Data     json.RawMessage            `json:"data"`
	Prefix   []c07Req                   `json:"prefix"`
	Late     []c07Req                   `json:"late"`       // renders after r7, most of them kept unread
	HoldR0   bool                       `json:"hold_first"` // one more render of the pair right after r0, read last of all
	ReadSeed int                        `json:"read_seed"`  // order in which the kept readers are read: 0 oldest first, 1 newest first, else a permutation
	ReadStep int                        `json:"read_step"`  // > 0: the kept readers are read round-robin, ReadStep bytes at a time
	TFirst   bool                       `json:"t_first"`    // main layout: the rendered template is listed before its siblings (the other layout: after)
	Funcs    map[string]json.RawMessage `json:"funcs"`      // function table of the pair's engines beyond the standard functions: name -> constant
	Aliens   []c07Alien                 `json:"aliens"`     // engines with other function tables / template sets in the same process
	Single   bool                       `json:"single"`
	Layout   int                        `json:"layout"` // single mode: 0 main layout, 1 rendered template alone, 2 the other listing order
	Fresh    int                        `json:"fresh"`  // parent only: number of additional processes that render the pair exactly once
	// Before: one more process of its own in which the pair is NOT the first thing rendered: these requests
	// (other data, other templates) are rendered first - On odd: by another engine instance of that process -,
	// then the pair, once.  What the first render of a process' life leaves behind is then another render's.
	Before []c07Req `json:"before"`
}

// an engine instance of the process that is not one of the pair's: own function table, own template directory
type c07Alien struct {
	Funcs map[string]json.RawMessage `json:"funcs"` // beyond the standard functions: name -> constant the function returns
	Files map[string]string          `json:"files"` // hex template name -> hex AST
	First bool                       `json:"first"` // created and loaded before the pair's first engine (else: after r2, before the history)
	Warm  []c07Req                   `json:"warm"`  // renders right after its load (read at once, reported like every alien render)
}

// c07Funcs: zero-argument template functions; every call builds its constant anew
func c07Funcs(desc map[string]json.RawMessage) (map[string]flamingo.TemplateFunc, error) {
	res := map[string]flamingo.TemplateFunc{}
	for name, raw := range desc {
		if _, err := buildData07(raw); err != nil {
			return nil, err
		}
		raw := raw
		res[name] = tplFunc{func() interface{} {
			v, _ := buildData07(raw)
			return v
		}}
	}
	return res, nil
}

// render07 / keep07: an engine that did not load answers every request with class load_error
func render07(e *pugjs.Engine, ctx context.Context, name string, data interface{}) renderResult {
	if e == nil {
		return renderResult{Class: clsLoadErr}
	}
	return safeRender(e, ctx, name, data)
}

func keep07(e *pugjs.Engine, ctx context.Context, name string, data interface{}, pre int) *c07Kept {
	if e == nil {
		return &c07Kept{done: true, res: renderResult{Class: clsLoadErr}}
	}
	return c07RenderKeep(e, ctx, name, data, pre)
}

// where the rendered template stands in the directory listings compileDir works through
type c07Listing struct {
	Entries    int  `json:"entries"` // sibling entries compared with the rendered template's entry
	TBeforeAll bool `json:"t_before_all"`
	TAfterAll  bool `json:"t_after_all"`
}

// which alien engine rendered what
type c07AlienReq struct {
	Alien int
	Req   c07Req
}

// c07AlienPlan: the renders by alien engines in the order in which a full process makes them - the
// warm renders of the engines created first, those of the engines created before the history, then the
// requests of the history and of the late phase that are addressed to an alien engine.
func c07AlienPlan(c c07Case) []c07AlienReq {
	var plan []c07AlienReq
	if len(c.Aliens) == 0 {
		return plan
	}
	for _, first := range []bool{true, false} {
		for i, a := range c.Aliens {
			if a.First == first {
				for _, rq := range a.Warm {
					plan = append(plan, c07AlienReq{i, rq})
				}
			}
		}
	}
	for _, l := range [][]c07Req{c.Prefix, c.Late} {
		for _, rq := range l {
			if rq.On >= 100 {
				plan = append(plan, c07AlienReq{(rq.On - 100) % len(c.Aliens), rq})
			}
		}
	}
	return plan
}

type c07Obs struct {
	Load            string            `json:"load"`
	R               []renderResult    `json:"r"`
	Held            []renderResult    `json:"held"`             // renders of the pair whose reader was kept unread, in the order of the renders
	Pairs           [][2]renderResult `json:"pairs"`            // other renders kept unread: [what was read at the end, the same render again read at once]
	Untouched       bool              `json:"untouched"`        // caller's data deep-equals the pristine copy after all renders
	PrefixUntouched bool              `json:"prefix_untouched"` // same for the data of the history renders
	Fresh           []renderResult    `json:"fresh"`            // parent only: the single render of each additional process
	Alien           []renderResult    `json:"alien"`            // renders by alien engines, in the order of the renders (warm renders first per engine)
	AlienRef        []renderResult    `json:"alien_ref"`        // parent only: the same renders, each in a process of its own holding only that engine
	FreshUntouched  bool              `json:"fresh_untouched"`
	Main            c07Listing        `json:"main"`
	Other           c07Listing        `json:"other"`
	Msg             string            `json:"msg,omitempty"`
}

// ---- directory layouts ------------------------------------------------------------------------
// compileDir works through os.File.Readdir(-1): the order is the file system's (hash of the names on
// ext4, creation order on tmpfs, ...).  A layout is written so that the rendered template's entry is
// listed before (tFirst) or after every sibling's entry: the files are created in the order that does it
// on creation-ordered file systems, then each sibling entry that is still on the wrong side is renamed
// (a sibling is never rendered: its name means nothing) until it is listed where it should be.

func c07ReadNames(dir string) ([]string, error) {
	f, err := os.Open(dir)
	if err != nil {
		return nil, err
	}
	defer f.Close()
	infos, err := f.Readdir(-1) // the call compileDir makes
	if err != nil {
		return nil, err
	}
	names := make([]string, len(infos))
	for i, fi := range infos {
		names[i] = fi.Name()
	}
	return names, nil
}

func c07Index(names []string, n string) int {
	for i, x := range names {
		if x == n {
			return i
		}
	}
	return -1
}

// entry of path p (template name without suffix) in the directory at depth i of its path
func c07Entry(parts []string, i int) string {
	if i == len(parts)-1 {
		return parts[i] + ".ast.json"
	}
	return parts[i]
}

func c07WriteLayout(dir string, files map[string]string, sibs map[string]string, tname string, tFirst bool) (c07Listing, error) {
	var ls c07Listing
	page := filepath.Join(dir, "template", "page")
	write := func(name, content string) error {
		return writeTree(dir, map[string]string{"template/page/" + name + ".ast.json": content})
	}
	names := make([]string, 0, len(files))
	for n := range files {
		if n != tname {
			names = append(names, n)
		}
	}
	sort.Strings(names)
	snames := make([]string, 0, len(sibs))
	for n := range sibs {
		snames = append(snames, n)
	}
	sort.Strings(snames)
	if err := os.MkdirAll(page, 0o755); err != nil {
		return ls, err
	}
	tcontent, ok := files[tname]
	if !ok {
		return ls, fmt.Errorf("rendered template %q is not among the files", tname)
	}
	if !tFirst { // creation-ordered listings show the newest entry first
		if err := write(tname, tcontent); err != nil {
			return ls, err
		}
	}
	for _, n := range names {
		if err := write(n, files[n]); err != nil {
			return ls, err
		}
	}
	for _, n := range snames {
		if err := write(n, sibs[n]); err != nil {
			return ls, err
		}
	}
	if tFirst {
		if err := write(tname, tcontent); err != nil {
			return ls, err
		}
	}
	// the entries to compare: for every sibling the first path component in which it differs from the
	// rendered template, in their common parent directory
	tparts := strings.Split(tname, "/")
	type ent struct {
		parent, name string
		depth        int
	}
	seen := map[ent]bool{}
	var ents []ent
	for _, n := range snames {
		sparts := strings.Split(n, "/")
		i := 0
		for i < len(sparts)-1 && i < len(tparts)-1 && sparts[i] == tparts[i] {
			i++
		}
		te, se := c07Entry(tparts, i), c07Entry(sparts, i)
		if te == se {
			return ls, fmt.Errorf("sibling %q collides with the rendered template", n)
		}
		e := ent{filepath.Join(append([]string{page}, sparts[:i]...)...), se, i}
		if !seen[e] {
			seen[e] = true
			ents = append(ents, e)
		}
	}
	ls.Entries = len(ents)
	ls.TBeforeAll, ls.TAfterAll = true, true
	for _, e := range ents {
		te := c07Entry(tparts, e.depth)
		cur := e.name
		good := false
		for try := 0; try < 24; try++ {
			l, err := c07ReadNames(e.parent)
			if err != nil {
				return ls, err
			}
			ti, si := c07Index(l, te), c07Index(l, cur)
			if ti < 0 || si < 0 {
				return ls, fmt.Errorf("layout: entry %q or %q is not listed in %s", te, cur, e.parent)
			}
			if (ti < si) == tFirst {
				good = true
				break
			}
			var next string
			if strings.HasSuffix(e.name, ".ast.json") {
				next = fmt.Sprintf("%s_%d.ast.json", strings.TrimSuffix(e.name, ".ast.json"), try)
			} else {
				next = fmt.Sprintf("%s_%d", e.name, try)
			}
			if err := os.Rename(filepath.Join(e.parent, cur), filepath.Join(e.parent, next)); err != nil {
				return ls, err
			}
			cur = next
		}
		if !good || !tFirst {
			ls.TBeforeAll = false
		}
		if !good || tFirst {
			ls.TAfterAll = false
		}
	}
	return ls, nil
}

// ---- results that are read later ----------------------------------------------------------------

type c07Kept struct {
	rd    io.Reader
	got   []byte
	done  bool
	res   renderResult // class of the render (and, when done, what was read)
	pair  bool
	alien bool
	req   c07Req
	eng   int
}

// c07RenderKeep calls Engine.Render and does NOT read the result (but the first pre bytes, if pre > 0).
func c07RenderKeep(e *pugjs.Engine, ctx context.Context, name string, data interface{}, pre int) (k *c07Kept) {
	k = &c07Kept{}
	defer func() {
		if r := recover(); r != nil {
			k.rd, k.done, k.res = nil, true, renderResult{Class: clsPanic, Err: fmt.Sprint(r)}
		}
	}()
	rd, err := e.Render(ctx, name, data)
	if err != nil {
		k.done, k.res = true, renderResult{Class: classifyErr(err), Err: err.Error()}
		return k
	}
	k.rd, k.res = rd, renderResult{Class: clsOK}
	if pre > 0 {
		k.read(pre)
	}
	return k
}

// read takes up to n more bytes from the kept reader (n <= 0: all that is left).
func (k *c07Kept) read(n int) {
	if k.done {
		return
	}
	if n <= 0 {
		b, _ := io.ReadAll(k.rd)
		k.got = append(k.got, b...)
		k.done = true
	} else {
		buf := make([]byte, n)
		m, err := io.ReadFull(k.rd, buf)
		k.got = append(k.got, buf[:m]...)
		if err != nil {
			k.done = true
		}
	}
	if k.done {
		k.res.Out = hx(string(k.got))
	}
}

// c07Order: the order in which the kept readers are read (deterministic in seed).
func c07Order(n, seed int) []int {
	o := make([]int, n)
	for i := range o {
		o[i] = i
	}
	switch seed {
	case 0:
	case 1:
		for i, j := 0, n-1; i < j; i, j = i+1, j-1 {
			o[i], o[j] = o[j], o[i]
		}
	default:
		x := uint64(seed)*6364136223846793005 + 1442695040888963407
		for i := n - 1; i > 0; i-- {
			x = x*6364136223846793005 + 1442695040888963407
			j := int((x >> 33) % uint64(i+1))
			o[i], o[j] = o[j], o[i]
		}
	}
	return o
}

// runC07 runs ONE case in this process.  The process has rendered nothing before:
// r[0] is the first render of the process' life.
func runC07(c c07Case) (obs c07Obs, err error) {
	root, err := os.MkdirTemp("", "pv07")
	if err != nil {
		return obs, err
	}
	defer os.RemoveAll(root)
	files := map[string]string{}
	for p, a := range c.Files {
		files[unhx(p)] = unhx(a)
	}
	sibs := map[string]string{}
	for p, a := range c.Siblings {
		sibs[unhx(p)] = unhx(a)
	}
	name := unhx(c.Render)
	dir, dirAlone, dirOther := filepath.Join(root, "main"), filepath.Join(root, "alone"), filepath.Join(root, "other")
	if !c.Single || c.Layout == 0 {
		if obs.Main, err = c07WriteLayout(dir, files, sibs, name, c.TFirst); err != nil {
			return obs, err
		}
	}
	if !c.Single || c.Layout == 1 {
		if _, err = c07WriteLayout(dirAlone, map[string]string{name: files[name]}, nil, name, true); err != nil {
			return obs, err
		}
	}
	if !c.Single || c.Layout == 2 {
		if obs.Other, err = c07WriteLayout(dirOther, files, sibs, name, !c.TFirst); err != nil {
			return obs, err
		}
	}
	data, err := buildData07(c.Data)
	if err != nil {
		return obs, err
	}
	pristine, err := buildData07(c.Data) // independent second construction, never handed to the engine
	if err != nil {
		return obs, err
	}
	// two constructions from one description differ: the only engine code involved is pugjs.Convert (data tags
	// obj / objs / omap) - an observation (reported as "not untouched"), not an error of the harness
	differs := !c07Same(data, pristine)
	if differs && !bytes.Contains(c.Data, []byte(`"t":"obj`)) && !bytes.Contains(c.Data, []byte(`"t": "obj`)) && !bytes.Contains(c.Data, []byte(`"omap"`)) {
		return obs, fmt.Errorf("data description does not build reproducibly")
	}
	defer func() {
		if differs && err == nil {
			obs.Untouched = false
			obs.Msg = "two constructions of the data from the same description differ (pugjs.Convert) " + obs.Msg
		}
	}()
	ctx := context.Background()
	funcs, err := c07Funcs(c.Funcs)
	if err != nil {
		return obs, err
	}
	obs.Alien = []renderResult{}
	obs.AlienRef = []renderResult{}

	// alien engines: own function table, own template directory
	aliens := make([]*pugjs.Engine, len(c.Aliens))
	type aslot struct {
		k *c07Kept
		r renderResult
	}
	var alienSlots []aslot
	var others []interface{} // data of the other renders and their pristine copies
	mkAliens := func(first bool) error {
		for i, a := range c.Aliens {
			if a.First != first {
				continue
			}
			af, err := c07Funcs(a.Funcs)
			if err != nil {
				return err
			}
			adir := filepath.Join(root, fmt.Sprintf("alien%d", i))
			tree := map[string]string{}
			for n, x := range a.Files {
				tree["template/page/"+unhx(n)+".ast.json"] = unhx(x)
			}
			if err := os.MkdirAll(filepath.Join(adir, "template", "page"), 0o755); err != nil {
				return err
			}
			if err := writeTree(adir, tree); err != nil {
				return err
			}
			e := newEngine(adir, false, 0, af)
			if cls, _ := safeLoad(e, ""); cls == clsOK {
				aliens[i] = e
			}
			for _, rq := range a.Warm {
				d, err := buildData07(rq.Data)
				if err != nil {
					return err
				}
				p, _ := buildData07(rq.Data)
				others = append(others, d, p)
				alienSlots = append(alienSlots, aslot{r: render07(aliens[i], ctx, unhx(rq.Render), d)})
			}
		}
		return nil
	}
	if !c.Single {
		if err := mkAliens(true); err != nil {
			return obs, err
		}
	}

	first := dir
	if c.Single && c.Layout == 1 {
		first = dirAlone
	} else if c.Single && c.Layout == 2 {
		first = dirOther
	}
	e1 := newEngine(first, false, 0, funcs)
	obs.Load, obs.Msg = safeLoad(e1, "")
	if obs.Load != clsOK {
		e1 = nil
	}
	if c.Single && len(c.Before) > 0 {
		var e0 *pugjs.Engine
		for _, rq := range c.Before {
			d, err := buildData07(rq.Data)
			if err != nil {
				return obs, err
			}
			eng := e1
			if rq.On%2 == 1 {
				if e0 == nil {
					e0 = newEngine(first, false, 0, funcs)
					if cls, _ := safeLoad(e0, ""); cls != clsOK {
						e0 = nil
					}
				}
				eng = e0
			}
			render07(eng, ctx, unhx(rq.Render), d)
		}
	}
	obs.R = append(obs.R, render07(e1, ctx, name, data)) // r0: first render of the pair's engines (of the process, unless an alien engine came first)
	obs.Untouched = c07Same(data, pristine)
	obs.PrefixUntouched = true
	obs.FreshUntouched = true
	obs.Held = []renderResult{}
	obs.Pairs = [][2]renderResult{}
	if c.Single {
		return obs, nil
	}
	var kept []*c07Kept
	type slot struct {
		k *c07Kept
		r renderResult
	}
	var pairSlots []slot // one per additional render of the pair, in the order of the renders
	if c.HoldR0 {
		// the second render of the process: its reader stays unread until everything else is over
		k := keep07(e1, ctx, name, data, 0)
		k.pair = true
		kept = append(kept, k)
		pairSlots = append(pairSlots, slot{k: k})
	}
	obs.R = append(obs.R, render07(e1, ctx, name, data)) // r1: again, same engine, same data value

	// a further engine of the pair (same function table); nil if it does not load
	mk := func(d string) *pugjs.Engine {
		e := newEngine(d, false, 0, funcs)
		if cls, _ := safeLoad(e, ""); cls != clsOK {
			return nil
		}
		return e
	}
	engines := []*pugjs.Engine{e1}
	for i := 2; i <= 3; i++ {
		engines = append(engines, mk(dir))
	}
	obs.R = append(obs.R, render07(engines[1], ctx, name, data)) // r2: second engine instance
	if err := mkAliens(false); err != nil {
		return obs, err
	}

	// one render of the history / the late phase
	step := func(rq c07Req, pool []*pugjs.Engine) error {
		on := rq.On % len(pool)
		if on < 0 {
			on = 0
		}
		eng := pool[on]
		alien := rq.On >= 100 && len(aliens) > 0
		if alien {
			eng = aliens[(rq.On-100)%len(aliens)]
		}
		n, d := name, data
		if !rq.Pair || alien {
			var err error
			if d, err = buildData07(rq.Data); err != nil {
				return err
			}
			p, _ := buildData07(rq.Data)
			others = append(others, d, p)
			n = unhx(rq.Render)
		}
		pre := 0
		if rq.Hold == 2 && rq.Pre > 0 {
			pre = rq.Pre
		}
		if alien {
			if rq.Hold == 0 {
				alienSlots = append(alienSlots, aslot{r: render07(eng, ctx, n, d)})
			} else {
				k := keep07(eng, ctx, n, d, pre)
				k.alien = true
				kept = append(kept, k)
				alienSlots = append(alienSlots, aslot{k: k})
			}
			return nil
		}
		if rq.Hold == 0 {
			r := render07(eng, ctx, n, d)
			if rq.Pair {
				pairSlots = append(pairSlots, slot{r: r}) // (a render of the pair that is read at once)
			}
			return nil
		}
		k := keep07(eng, ctx, n, d, pre)
		k.pair, k.req, k.eng = rq.Pair, rq, on
		kept = append(kept, k)
		if rq.Pair {
			pairSlots = append(pairSlots, slot{k: k})
		}
		return nil
	}
	// the history: other templates / the same template with other data, on any engine of the process
	for _, rq := range c.Prefix {
		if err := step(rq, engines); err != nil {
			return obs, err
		}
	}
	obs.R = append(obs.R, render07(engines[2], ctx, name, data)) // r3: third engine, after the history
	// r4: freshly built equal data, on the first engine, after the history
	fresh, _ := buildData07(c.Data)
	obs.R = append(obs.R, render07(e1, ctx, name, fresh))
	// r5: an engine instance created only now
	e4 := mk(dir)
	obs.R = append(obs.R, render07(e4, ctx, name, data))
	// r6: an engine whose template directory holds the rendered template alone
	eAlone := mk(dirAlone)
	obs.R = append(obs.R, render07(eAlone, ctx, name, data))
	// r7: an engine over the same files, listed in the other order
	eOther := mk(dirOther)
	obs.R = append(obs.R, render07(eOther, ctx, name, data))

	// the late phase: renders whose readers are kept, interleaved with renders that are read at once
	all := append(append([]*pugjs.Engine{}, engines...), e4, eAlone, eOther)
	for _, rq := range c.Late {
		if err := step(rq, all); err != nil {
			return obs, err
		}
	}
	// now read what was kept
	order := c07Order(len(kept), c.ReadSeed)
	if c.HoldR0 && len(kept) > 1 { // the second render of the process is read last of all
		o2 := make([]int, 0, len(order))
		for _, i := range order {
			if i != 0 {
				o2 = append(o2, i)
			}
		}
		order = append(o2, 0)
	}
	if c.ReadStep > 0 {
		for left := true; left; {
			left = false
			for _, i := range order {
				if !kept[i].done {
					kept[i].read(c.ReadStep)
					left = left || !kept[i].done
				}
			}
		}
	} else {
		for _, i := range order {
			kept[i].read(0)
		}
	}
	for _, sl := range pairSlots {
		if sl.k != nil {
			obs.Held = append(obs.Held, sl.k.res)
		} else {
			obs.Held = append(obs.Held, sl.r)
		}
	}
	for _, sl := range alienSlots {
		if sl.k != nil {
			obs.Alien = append(obs.Alien, sl.k.res)
		} else {
			obs.Alien = append(obs.Alien, sl.r)
		}
	}
	// every other kept render once more, with freshly built equal data, read at once
	for _, k := range kept {
		if k.pair || k.alien {
			continue
		}
		d, err := buildData07(k.req.Data)
		if err != nil {
			return obs, err
		}
		obs.Pairs = append(obs.Pairs, [2]renderResult{k.res, render07(all[k.eng%len(all)], ctx, unhx(k.req.Render), d)})
	}
	obs.Untouched = c07Same(data, pristine) && c07Same(fresh, pristine)
	for i := 0; i+1 < len(others); i += 2 {
		if !c07Same(others[i], others[i+1]) {
			obs.PrefixUntouched = false
		}
	}
	return obs, nil
}

// c07Counts: how many results a full process reports for the case (needed when the runtime kills it)
func c07Counts(c c07Case) (held, pairs int) {
	if c.HoldR0 {
		held++
	}
	for _, l := range [][]c07Req{c.Prefix, c.Late} {
		for _, rq := range l {
			if rq.On >= 100 && len(c.Aliens) > 0 {
				continue
			}
			if rq.Pair {
				held++
			} else if rq.Hold != 0 {
				pairs++
			}
		}
	}
	return
}

// child runs one case in a process of its own (this binary, runner C07one).
func c07Child(self, tmp string, c c07Case) (obs c07Obs, err error) {
	in, err := json.Marshal(c)
	if err != nil {
		return obs, err
	}
	ctx, cancel := context.WithTimeout(context.Background(), 5*time.Minute) // a hung child ends as a crash
	defer cancel()
	cmd := exec.CommandContext(ctx, self, "C07one")
	cmd.Stdin = bytes.NewReader(in)
	cmd.Env = append(os.Environ(), "TMPDIR="+tmp) // a child the runtime kills cannot remove its files: the parent does
	if !c.Single {
		// the full sequence runs on one P and without garbage collections: what a render leaves in a per-P
		// cache or in a sync.Pool is then found by the next render every time, not only when the scheduler
		// and the collector happen to allow it - and a replay of the case sees what the first run saw.
		// (The single-render processes run with the runtime's defaults.)
		cmd.Env = append(cmd.Env, "GOMAXPROCS=1", "GOGC=off")
	}
	var stderr bytes.Buffer
	cmd.Stderr = &stderr
	out, err := cmd.Output()
	if err != nil {
		msg := stderr.String()
		if len(msg) > 600 {
			msg = msg[:600]
		}
		if _, died := err.(*exec.ExitError); died && !strings.HasPrefix(msg, "harness error:") && !strings.HasPrefix(msg, "bad input:") {
			// the Go runtime killed the process (stack exhaustion, concurrent map access, ...): nothing a
			// recover() can catch.  Every render of that process is reported as class "crash".
			n, held, pairs := 8, 0, 0
			if c.Single {
				n = 1
			} else {
				held, pairs = c07Counts(c)
			}
			obs = c07Obs{Load: clsOK, Untouched: true, PrefixUntouched: true, FreshUntouched: true, Msg: msg,
				Held: []renderResult{}, Pairs: [][2]renderResult{}, Alien: []renderResult{}, AlienRef: []renderResult{}}
			for i := 0; i < n; i++ {
				obs.R = append(obs.R, renderResult{Class: "crash"})
			}
			for i := 0; i < held; i++ {
				obs.Held = append(obs.Held, renderResult{Class: "crash"})
			}
			for i := 0; i < pairs; i++ {
				obs.Pairs = append(obs.Pairs, [2]renderResult{{Class: "crash"}, {Class: "crash"}})
			}
			if !c.Single {
				for range c07AlienPlan(c) {
					obs.Alien = append(obs.Alien, renderResult{Class: "crash"})
				}
			}
			return obs, nil
		}
		return obs, fmt.Errorf("child process: %v: %s", err, msg)
	}
	err = json.Unmarshal(out, &obs)
	return obs, err
}

// c07Isolated: one process for the full sequence of the case and c.Fresh more processes that render the
// pair exactly once - over the main layout, over the rendered template alone, over the other listing
// order, ... in turn; no state of any kind is shared between two cases or between these processes.
func c07Isolated(self, tmp string, c c07Case) (c07Obs, error) {
	n := c.Fresh
	c.Fresh = 0
	if c.Single {
		return c07Child(self, tmp, c)
	}
	obs, err := c07Child(self, tmp, c)
	if err != nil {
		return obs, err
	}
	plan := c07AlienPlan(c)
	if len(obs.Alien) != len(plan) {
		return obs, fmt.Errorf("the full process reports %d renders by alien engines, expected %d", len(obs.Alien), len(plan))
	}
	obs.Fresh = []renderResult{}
	single := c
	single.Single = true
	single.Prefix, single.Late, single.HoldR0, single.Aliens, single.Before = nil, nil, false, nil, nil
	if len(c.Before) > 0 {
		n++
	}
	for i := 0; i < n; i++ {
		single.Layout = i % 3
		if len(c.Before) > 0 && i == n-1 {
			single.Layout, single.Before = 0, c.Before
		}
		o, err := c07Child(self, tmp, single)
		if err != nil {
			return obs, err
		}
		if len(o.R) != 1 {
			return obs, fmt.Errorf("a fresh process reports %d renders: %s", len(o.R), o.Msg)
		}
		obs.Fresh = append(obs.Fresh, o.R[0])
		obs.FreshUntouched = obs.FreshUntouched && o.Untouched
	}
	// every render by an alien engine once more: in a process that holds only that engine (its files, its
	// function table) and renders only that request
	obs.AlienRef = []renderResult{}
	for _, ar := range plan {
		a := c.Aliens[ar.Alien]
		ref := c07Case{Files: a.Files, Funcs: a.Funcs, Render: ar.Req.Render, Data: ar.Req.Data, Single: true, TFirst: true}
		if _, ok := a.Files[ar.Req.Render]; !ok {
			return obs, fmt.Errorf("alien engine %d has no template %q", ar.Alien, unhx(ar.Req.Render))
		}
		o, err := c07Child(self, tmp, ref)
		if err != nil {
			return obs, err
		}
		if len(o.R) != 1 {
			return obs, fmt.Errorf("an alien engine's own process reports %d renders: %s", len(o.R), o.Msg)
		}
		obs.AlienRef = append(obs.AlienRef, o.R[0])
		obs.FreshUntouched = obs.FreshUntouched && o.Untouched
	}
	return obs, nil
}

func init() {
	runners["C07one"] = func(in json.RawMessage) (interface{}, error) {
		var c c07Case
		if err := json.Unmarshal(in, &c); err != nil {
			return nil, err
		}
		return runC07(c)
	}
	runners["C07"] = func(in json.RawMessage) (interface{}, error) {
		var cases []c07Case
		if err := json.Unmarshal(in, &cases); err != nil {
			return nil, err
		}
		self, err := os.Executable()
		if err != nil {
			return nil, err
		}
		tmp, err := os.MkdirTemp("", "pv07run")
		if err != nil {
			return nil, err
		}
		defer os.RemoveAll(tmp)
		out := make([]c07Obs, len(cases))
		errs := make([]error, len(cases))
		workers := runtime.NumCPU()
		if workers > 8 {
			workers = 8
		}
		if workers < 1 {
			workers = 1
		}
		jobs := make(chan int)
		var wg sync.WaitGroup
		for w := 0; w < workers; w++ {
			wg.Add(1)
			go func() {
				defer wg.Done()
				for i := range jobs {
					out[i], errs[i] = c07Isolated(self, tmp, cases[i])
				}
			}()
		}
		for i := range cases {
			jobs <- i
		}
		close(jobs)
		wg.Wait()
		for i, err := range errs {
			if err != nil {
				return nil, fmt.Errorf("case %d: %w", i, err)
			}
		}
		return out, nil
	}
}
