package main

import (
	"bufio"
	"bytes"
	"crypto/sha1"
	"encoding/hex"
	"encoding/json"
	"fmt"
	"io"
	"os"
	"os/exec"
	"reflect"
	"strconv"
	"strings"
	"sync"
	"sync/atomic"
	"syscall"
	"time"

	"flamingo.me/pugtemplate/otto/ast"
	"flamingo.me/pugtemplate/otto/parser"
)

// C15: parser.ParseFile / parser.ParseFunction on arbitrary byte strings.
//
// Every parse runs in a CHILD process (this binary re-executed as C15child), in a goroutine of its own under
// recover() and a watchdog.  A parse that does not come back is an observation like any other: the watchdog
// (c15Guarded) gives up once the child has burnt more processor time than c15CPUBound allows for an input of
// that size (clean tree: milliseconds; bound: seconds) or once c15WallBound has passed, records class "hang"
// for THAT input, and the child ends - a goroutine in an endless loop cannot be stopped, only its process can.
// The runner (C15, the parent) parses nothing itself: it hands out the cases, reads the children's answers
// line by line, so that it knows which input a child was busy with when it reported a hang, was killed by the
// Go runtime (class "crash": stack exhaustion, out of memory under the address space limit) or fell silent,
// starts a new child for the cases behind it, and asks a freshly started process about that input alone
// before it believes a hang or a crash seen among other inputs.
//
// The tree is written as the canonical S-expression that coq/Js/Parse.v (dump_prog) and gen/c15.py produce
// as well, and - for "the same answer every time" - as a fingerprint of the WHOLE tree (every field of every
// node, positions included, read by reflection), so that two answers can be compared also where the
// canonical dump only says (other:...).
//
// A plain case (no hist, fresh false) is parsed twice in a row in a child that it shares with the plain cases
// before it (batches of c15Chunk).  A case with a history is run in processes of its own: one child parses the
// steps of the history in order, once each - the case's own input A occurs among them several times, between
// other inputs that share sub-strings with it - and a second, freshly started child parses A alone.  Nothing
// another case did can influence these answers, so a replay of the case is self-contained.
type c15Step struct {
	Mode   string `json:"mode"`   // file | func
	Params string `json:"params"` // hex
	Src    string `json:"src"`    // hex
}

type c15Case struct {
	Mode   string    `json:"mode"`   // file | func
	Params string    `json:"params"` // hex, parameter list of ParseFunction
	Src    string    `json:"src"`    // hex
	Bound  int       `json:"bound"`  // watchdog in milliseconds, processor time and wall time alike (0: by size)
	Hist   []c15Step `json:"hist"`   // the inputs parsed, in this order, in one process of its own (empty: A, A)
	Fresh  bool      `json:"fresh"`  // processes of its own: one for the history, a fresh one for A alone
	Hurry  bool      `json:"hurry"`  // set by the runner only, see c15Hangs: a quarter of the bounds
}

type c15StepObs struct {
	Class string `json:"class"` // ok | err | panic | hang | crash (the runtime killed the process)
	Fp    string `json:"fp"`    // fingerprint of the whole tree (class ok)
	Ms    int64  `json:"ms"`
}

type c15Obs struct {
	Class  string       `json:"class"`  // first parse of A: ok | err | panic | hang | crash
	Dump   string       `json:"dump"`   // hex, only for ok
	Fp     string       `json:"fp"`     // fingerprint of the whole tree of that answer
	Class2 string       `json:"class2"` // second parse of A
	Same   bool         `json:"same"`   // every parse of A (in the history and in the fresh process) gave the same class, dump and fingerprint
	Ms     int64        `json:"ms"`     // slowest parse (diagnostic)
	Panic  string       `json:"panic"`  // diagnostic text, never compared
	Steps  []c15StepObs `json:"steps"`  // the answers to the history, in order
	FreshO *c15StepObs  `json:"fresh"`  // the answer of the freshly started process to A
	Hung   bool         `json:"hung"`   // some parse of this case did not come back: the child ends after this case
	Retry  string       `json:"retry"`  // diagnostic: what the shared child had said before this input was asked again alone
}

const (
	c15Workers = 12 // children at a time
	c15Chunk   = 40 // plain cases per child
)

// hangs / crashes seen among other inputs that showed again when the input was parsed alone
var c15Confirmed int32

// cases of this run recorded with a hang or a crash so far.  From c15Enough on the run has its alarms, each of
// them under the full bounds; so that a tree on which every twentieth input hangs does not take ten minutes, the
// children started after that work with a quarter of the bounds (still a hundred times what the unchanged code
// needs).  A replay or a shrinking step is a run of its own and starts with the full bounds again.
var c15Hangs int32

const c15Enough = 12

func init() {
	runners["C15"] = func(in json.RawMessage) (interface{}, error) {
		var cases []c15Case
		if err := json.Unmarshal(in, &cases); err != nil {
			return nil, err
		}
		self, err := os.Executable()
		if err != nil {
			return nil, err
		}
		out := make([]c15Obs, len(cases))
		var jobs [][]int // one case with processes of its own, or a batch of plain cases that share a child
		var plain []int
		nplain := 0
		for _, c := range cases {
			if !(c.Fresh || len(c.Hist) > 0) {
				nplain++
			}
		}
		chunk := c15Chunk // a short list (the candidates of the shrinker) is spread over all workers
		if nplain < 2*c15Chunk*c15Workers {
			chunk = 1 + nplain/(2*c15Workers)
		}
		for i, c := range cases {
			if c.Fresh || len(c.Hist) > 0 {
				jobs = append(jobs, []int{i})
				continue
			}
			plain = append(plain, i)
			if len(plain) >= chunk || len(c.Src) > 4000 {
				jobs = append(jobs, plain)
				plain = nil
			}
		}
		if len(plain) > 0 {
			jobs = append(jobs, plain)
		}
		var wg sync.WaitGroup
		ch := make(chan []int)
		for w := 0; w < c15Workers; w++ {
			wg.Add(1)
			go func() {
				defer wg.Done()
				for job := range ch {
					if c := cases[job[0]]; c.Fresh || len(c.Hist) > 0 {
						out[job[0]] = c15Isolated(self, c)
						continue
					}
					batch := make([]c15Case, len(job))
					for k, i := range job {
						batch[k] = cases[i]
					}
					for k, o := range c15Batch(self, batch) {
						out[job[k]] = o
					}
				}
			}()
		}
		for _, j := range jobs {
			ch <- j
		}
		close(ch)
		wg.Wait()
		return out, nil
	}
	// the child: parses the cases it is given in order and writes one line per case as soon as the case is done;
	// after a case with a hang it ends (the stuck goroutine would run next to every later parse)
	runners["C15child"] = func(in json.RawMessage) (interface{}, error) {
		var cases []c15Case
		if err := json.Unmarshal(in, &cases); err != nil {
			return nil, err
		}
		// an endless loop that allocates ends as a crash, not as a machine without memory
		lim := syscall.Rlimit{}
		if syscall.Getrlimit(syscall.RLIMIT_AS, &lim) == nil && (lim.Cur == ^uint64(0) || lim.Cur > c15AddressSpace) {
			lim.Cur = c15AddressSpace
			syscall.Setrlimit(syscall.RLIMIT_AS, &lim)
		}
		w := bufio.NewWriter(os.Stdout)
		n := 0
		for _, c := range cases {
			o := runC15(c)
			line, err := json.Marshal(o)
			if err != nil {
				return nil, err
			}
			w.Write(line)
			w.WriteString("\n")
			w.Flush()
			n++
			if o.Hung {
				break
			}
		}
		return map[string]int{"done": n}, nil
	}
}

const c15AddressSpace = 6 << 30

type c15Res struct {
	class string
	dump  string
	fp    string
	msg   string
}

func c15Once(mode, src, params string) (r c15Res) {
	defer func() {
		if p := recover(); p != nil {
			r = c15Res{class: "panic", msg: fmt.Sprint(p)}
		}
	}()
	switch mode {
	case "func":
		fn, err := parser.ParseFunction(params, src)
		if err != nil {
			return c15Res{class: "err"}
		}
		var b strings.Builder
		b.WriteString("(prog (expr ")
		c15Expr(&b, fn)
		b.WriteString("))")
		return c15Res{class: "ok", dump: b.String(), fp: c15Fingerprint(fn)}
	default:
		prog, err := parser.ParseFile(nil, "", src, 0)
		if err != nil {
			return c15Res{class: "err"}
		}
		var b strings.Builder
		b.WriteString("(prog")
		for _, s := range prog.Body {
			b.WriteString(" ")
			c15Stmt(&b, s)
		}
		b.WriteString(")")
		return c15Res{class: "ok", dump: b.String(), fp: c15Fingerprint(prog)}
	}
}

// processor time (user mode) this process has used so far
func c15CPU() time.Duration {
	var ru syscall.Rusage
	if syscall.Getrusage(syscall.RUSAGE_SELF, &ru) != nil {
		return 0
	}
	return time.Duration(ru.Utime.Sec)*time.Second + time.Duration(ru.Utime.Usec)*time.Microsecond
}

// c15Guarded: one parse in a goroutine of its own.  It counts as a hang when this process - which does nothing
// else meanwhile - has used more than `cpu` of processor time since the parse began, or when `wall` has passed.
// Processor time, not the clock, is the sharp bound: a machine that stalls the process for seconds (other jobs,
// memory pressure) does not make it grow, an endless loop does.
func c15Guarded(mode, src, params string, cpu, wall time.Duration) (c15Res, time.Duration) {
	ch := make(chan c15Res, 1)
	t0, c0 := time.Now(), c15CPU()
	go func() { ch <- c15Once(mode, src, params) }()
	wait := 50 * time.Millisecond
	for {
		select {
		case r := <-ch:
			return r, time.Since(t0)
		case <-time.After(wait):
		}
		used, since := c15CPU()-c0, time.Since(t0)
		if used > cpu || since > wall {
			return c15Res{class: "hang", msg: fmt.Sprintf("no answer after %d ms of processor time, %d ms on the clock (%d bytes); ",
				used.Milliseconds(), since.Milliseconds(), len(src))}, since
		}
	}
}

// Bounds.  The clean tree needs milliseconds for a few kB; the slowest paths known are the quadratic error
// paths (75 ms for 10^4 bytes of unmatched brackets, 0.5 s on a loaded machine, 32 s for 10^5).  Slowness alone
// must never alarm: 2 s of processor time for anything up to 1 kB, 2.3 s for 2.5 kB, 7 s for 10^4 bytes, 8 min for 10^5.
func c15CPUBound(c c15Case, n int) time.Duration {
	if c.Bound != 0 {
		return time.Duration(c.Bound) * time.Millisecond
	}
	x := float64(n) / 1e3
	d := 2*time.Second + time.Duration(0.05*x*x*float64(time.Second))
	if c.Hurry {
		d /= 4
	}
	return d
}

func c15WallBound(c c15Case, n int) time.Duration {
	if c.Bound != 0 {
		return time.Duration(c.Bound) * time.Millisecond
	}
	return 30*time.Second + 4*c15CPUBound(c, n)
}

// runC15 parses the history of the case (A, A when none is given) in this process, in order, once each.
func runC15(c c15Case) c15Obs {
	hist := c.Hist
	if len(hist) == 0 {
		hist = []c15Step{{c.Mode, c.Params, c.Src}, {c.Mode, c.Params, c.Src}}
	}
	obs := c15Obs{Same: true, Steps: []c15StepObs{}}
	seen := 0 // parses of A so far
	var first c15Res
	for _, st := range hist {
		src, params := unhx(st.Src), unhx(st.Params)
		n := len(src) + len(params)
		r, d := c15Guarded(st.Mode, src, params, c15CPUBound(c, n), c15WallBound(c, n))
		obs.Steps = append(obs.Steps, c15StepObs{Class: r.class, Fp: r.fp, Ms: d.Milliseconds()})
		if d.Milliseconds() > obs.Ms {
			obs.Ms = d.Milliseconds()
		}
		obs.Panic += r.msg
		if st.Mode == c.Mode && st.Params == c.Params && st.Src == c.Src {
			switch seen {
			case 0:
				first = r
				obs.Class, obs.Dump, obs.Fp, obs.Class2 = r.class, hx(r.dump), r.fp, r.class
			case 1:
				obs.Class2 = r.class
			}
			if seen > 0 && (r.class != first.class || r.dump != first.dump || r.fp != first.fp) {
				obs.Same = false
			}
			seen++
		}
		if r.class == "hang" {
			// the stuck goroutine keeps running; do not start another parse next to it
			if seen == 0 {
				obs.Class, obs.Class2 = "hang", "hang"
			}
			obs.Same = false
			obs.Hung = true
			break
		}
	}
	if seen == 0 && obs.Class == "" {
		obs.Class, obs.Class2, obs.Same = "err", "err", false // a history that never parses A is a mistake of the generator
		obs.Panic += "history without the case's own input"
	}
	return obs
}

func c15Steps(c c15Case) []c15Step {
	if len(c.Hist) == 0 {
		return []c15Step{{c.Mode, c.Params, c.Src}, {c.Mode, c.Params, c.Src}}
	}
	return c.Hist
}

// how long the runner waits for the child's line about this case before it takes the child for dead:
// the child's own watchdogs report earlier unless the whole process is frozen
func c15Patience(c c15Case) time.Duration {
	d := time.Minute
	for _, st := range c15Steps(c) {
		d += c15WallBound(c, (len(st.Src)+len(st.Params))/2)
		if c.Bound == 0 && d > 15*time.Minute {
			return 15 * time.Minute
		}
	}
	return d
}

func c15Gone(c c15Case, class, why string) c15Obs {
	obs := c15Obs{Class: class, Class2: class, Panic: why, Steps: []c15StepObs{}, Hung: class == "hang"}
	for range c15Steps(c) {
		obs.Steps = append(obs.Steps, c15StepObs{Class: class})
	}
	return obs
}

// c15Spawn starts one child for the cases and collects its lines.  It returns the observations of the cases
// the child got through; when there are fewer than cases, the child ended on the case behind them: it reported a
// hang there (that observation is the last one returned), was killed by the runtime or fell silent (an
// observation of class crash / hang is appended for that case).
func c15Spawn(self string, cases []c15Case) []c15Obs {
	hurry := atomic.LoadInt32(&c15Hangs) >= c15Enough
	for i := range cases {
		cases[i].Fresh = false
		cases[i].Hurry = hurry
	}
	in, err := json.Marshal(cases)
	if err != nil {
		panic(err)
	}
	cmd := exec.Command(self, "C15child")
	cmd.Stdin = bytes.NewReader(in)
	var stderr bytes.Buffer
	cmd.Stderr = &stderr
	pipe, err := cmd.StdoutPipe()
	if err != nil {
		panic(err)
	}
	if err := cmd.Start(); err != nil {
		panic(err)
	}
	lines := make(chan []byte)
	go func() {
		rd := bufio.NewReaderSize(pipe, 1<<16)
		for {
			line, err := rd.ReadBytes('\n')
			if len(line) > 0 && err == nil {
				lines <- line
			}
			if err != nil {
				close(lines)
				return
			}
		}
	}()
	var out []c15Obs
	silent := false
	for len(out) < len(cases) && !silent {
		select {
		case line, ok := <-lines:
			if !ok {
				lines = nil
				silent = true // end of the child's output before all cases were answered
				break
			}
			var o c15Obs
			if json.Unmarshal(line, &o) != nil || o.Class == "" {
				continue // the closing {"done": n} line
			}
			out = append(out, o)
			if o.Hung {
				silent = true
			}
		case <-time.After(c15Patience(cases[len(out)])):
			cmd.Process.Kill()
			out = append(out, c15Gone(cases[len(out)], "hang", "the child process fell silent and was killed; "))
			silent = true
		}
	}
	cmd.Process.Kill()
	if lines != nil {
		go func() {
			for range lines {
			}
		}()
	}
	werr := cmd.Wait()
	if len(out) < len(cases) && (len(out) == 0 || !out[len(out)-1].Hung) {
		// the Go runtime killed the process (stack exhaustion, out of memory, ...): nothing a recover() can catch
		msg := stderr.String()
		if len(msg) > 600 {
			msg = msg[:600]
		}
		out = append(out, c15Gone(cases[len(out)], "crash", fmt.Sprint(werr)+": "+msg))
	}
	return out
}

func c15Bad(o c15Obs) bool { return o.Hung || o.Class == "crash" }

// c15Batch: plain cases, in order, in as few shared children as possible.  A hang or a crash ends a child; the
// input it happened on is then parsed in a freshly started process alone (twice in a row, as always), and THAT
// observation is the one recorded for it: a hang is a statement about the input, not about what the process had
// parsed before or about a machine that stood still.  (Once three of them have shown again alone the run has
// its alarms; the later ones are taken as the shared child reported them.)
func c15Batch(self string, cases []c15Case) []c15Obs {
	out := make([]c15Obs, 0, len(cases))
	for len(out) < len(cases) {
		got := c15Spawn(self, cases[len(out):])
		if len(got) == 0 {
			panic("C15child returned nothing")
		}
		last := len(got) - 1
		if c15Bad(got[last]) && atomic.LoadInt32(&c15Confirmed) < 3 {
			alone := c15Spawn(self, []c15Case{cases[len(out)+last]})[0]
			alone.Retry = got[last].Class + ": " + got[last].Panic
			if c15Bad(alone) {
				atomic.AddInt32(&c15Confirmed, 1)
			}
			got[last] = alone
		}
		if c15Bad(got[last]) {
			atomic.AddInt32(&c15Hangs, 1)
		}
		out = append(out, got...)
	}
	return out
}

// c15Isolated: one process for the history of the case, one more - freshly started - that parses A alone.
func c15Isolated(self string, c c15Case) c15Obs {
	c.Hist = c15Steps(c)
	obs := c15Spawn(self, []c15Case{c})[0]
	alone := c
	alone.Hist = []c15Step{{c.Mode, c.Params, c.Src}}
	f := c15Spawn(self, []c15Case{alone})[0]
	fo := c15StepObs{Class: f.Class, Fp: f.Fp, Ms: f.Ms}
	obs.FreshO = &fo
	if f.Class != obs.Class || f.Dump != obs.Dump || f.Fp != obs.Fp {
		obs.Same = false
	}
	obs.Panic += f.Panic
	if c15Bad(obs) || c15Bad(f) {
		atomic.AddInt32(&c15Hangs, 1)
	}
	return obs
}

// c15Fingerprint: SHA-1 (first 8 bytes, hex) over every field of every node of the tree, read by reflection
// in declaration order: node types, literals, values, operators, positions.  Not walked: the *file.File of a
// program and comment maps (keyed by node addresses).  A node reached a second time (a function literal is
// also listed in the declarations of its scope) is written as a back reference, so the text does not depend
// on addresses.
func c15Fingerprint(root interface{}) string {
	h := sha1.New()
	w := bufio.NewWriter(h)
	seen := map[uintptr]int{}
	c15Walk(w, reflect.ValueOf(root), seen)
	w.Flush()
	return hex.EncodeToString(h.Sum(nil)[:8])
}

func c15Walk(w io.Writer, v reflect.Value, seen map[uintptr]int) {
	switch v.Kind() {
	case reflect.Invalid:
		io.WriteString(w, "nil")
	case reflect.Interface:
		if v.IsNil() {
			io.WriteString(w, "nil")
			return
		}
		c15Walk(w, v.Elem(), seen)
	case reflect.Ptr:
		if v.IsNil() {
			io.WriteString(w, "nil")
			return
		}
		if v.Type().String() == "*file.File" {
			return
		}
		if k, ok := seen[v.Pointer()]; ok {
			io.WriteString(w, "@"+strconv.Itoa(k))
			return
		}
		seen[v.Pointer()] = len(seen)
		io.WriteString(w, "&")
		c15Walk(w, v.Elem(), seen)
	case reflect.Struct:
		io.WriteString(w, v.Type().String()+"{")
		for i := 0; i < v.NumField(); i++ {
			io.WriteString(w, v.Type().Field(i).Name+":")
			c15Walk(w, v.Field(i), seen)
			io.WriteString(w, ";")
		}
		io.WriteString(w, "}")
	case reflect.Slice, reflect.Array:
		if v.Kind() == reflect.Slice && v.IsNil() {
			io.WriteString(w, "[]") // a nil list and an empty list are the same answer
			return
		}
		io.WriteString(w, "[")
		for i := 0; i < v.Len(); i++ {
			c15Walk(w, v.Index(i), seen)
			io.WriteString(w, ",")
		}
		io.WriteString(w, "]")
	case reflect.Map:
		io.WriteString(w, "map") // comment maps only (empty in mode 0)
	case reflect.String:
		io.WriteString(w, strconv.Quote(v.String()))
	case reflect.Bool:
		io.WriteString(w, strconv.FormatBool(v.Bool()))
	case reflect.Int, reflect.Int8, reflect.Int16, reflect.Int32, reflect.Int64:
		io.WriteString(w, v.Type().String()+strconv.FormatInt(v.Int(), 10))
	case reflect.Uint, reflect.Uint8, reflect.Uint16, reflect.Uint32, reflect.Uint64, reflect.Uintptr:
		io.WriteString(w, v.Type().String()+strconv.FormatUint(v.Uint(), 10))
	case reflect.Float32, reflect.Float64:
		io.WriteString(w, "f"+strconv.FormatFloat(v.Float(), 'g', -1, 64))
	default:
		io.WriteString(w, "?"+v.Kind().String())
	}
}

func c15List(b *strings.Builder, l []ast.Expression) {
	for _, e := range l {
		b.WriteString(" ")
		c15Expr(b, e)
	}
}

func c15Expr(b *strings.Builder, e ast.Expression) {
	switch n := e.(type) {
	case nil:
		b.WriteString("(nil)")
	case *ast.Identifier:
		if n == nil {
			b.WriteString("(nil)")
			return
		}
		b.WriteString("(id " + n.Name + ")")
	case *ast.NumberLiteral:
		b.WriteString("(num " + n.Literal + " ")
		if v, ok := n.Value.(int64); ok {
			b.WriteString("i" + strconv.FormatInt(v, 10))
		} else {
			b.WriteString("f")
		}
		b.WriteString(")")
	case *ast.StringLiteral:
		q := "?"
		if len(n.Literal) > 0 {
			switch n.Literal[0] {
			case '"':
				q = "d"
			case '\'':
				q = "s"
			case '`':
				q = "b"
			}
		}
		b.WriteString("(str " + q + " " + hx(n.Value) + ")")
	case *ast.BooleanLiteral:
		if n.Value {
			b.WriteString("(bool true)")
		} else {
			b.WriteString("(bool false)")
		}
	case *ast.NullLiteral:
		b.WriteString("(null)")
	case *ast.ThisExpression:
		b.WriteString("(this)")
	case *ast.EmptyExpression:
		b.WriteString("(hole)")
	case *ast.ArrayLiteral:
		b.WriteString("(arr")
		c15List(b, n.Value)
		b.WriteString(")")
	case *ast.ObjectLiteral:
		b.WriteString("(obj")
		for _, p := range n.Value {
			if p.Kind != "value" {
				b.WriteString(" (other:property-" + p.Kind + ")")
				continue
			}
			b.WriteString(" (" + hx(p.Key) + " ")
			c15Expr(b, p.Value)
			b.WriteString(")")
		}
		b.WriteString(")")
	case *ast.DotExpression:
		b.WriteString("(dot ")
		c15Expr(b, n.Left)
		name := "(nil)"
		if n.Identifier != nil {
			name = n.Identifier.Name
		}
		b.WriteString(" " + name + ")")
	case *ast.BracketExpression:
		b.WriteString("(idx ")
		c15Expr(b, n.Left)
		b.WriteString(" ")
		c15Expr(b, n.Member)
		b.WriteString(")")
	case *ast.CallExpression:
		b.WriteString("(call ")
		c15Expr(b, n.Callee)
		c15List(b, n.ArgumentList)
		b.WriteString(")")
	case *ast.NewExpression:
		b.WriteString("(new ")
		c15Expr(b, n.Callee)
		c15List(b, n.ArgumentList)
		b.WriteString(")")
	case *ast.UnaryExpression:
		if n.Postfix {
			b.WriteString("(post ")
		} else {
			b.WriteString("(pre ")
		}
		b.WriteString(n.Operator.String() + " ")
		c15Expr(b, n.Operand)
		b.WriteString(")")
	case *ast.BinaryExpression:
		b.WriteString("(bin " + n.Operator.String() + " ")
		c15Expr(b, n.Left)
		b.WriteString(" ")
		c15Expr(b, n.Right)
		b.WriteString(")")
	case *ast.ConditionalExpression:
		b.WriteString("(cond ")
		c15Expr(b, n.Test)
		b.WriteString(" ")
		c15Expr(b, n.Consequent)
		b.WriteString(" ")
		c15Expr(b, n.Alternate)
		b.WriteString(")")
	case *ast.AssignExpression:
		b.WriteString("(assign " + n.Operator.String() + " ")
		c15Expr(b, n.Left)
		b.WriteString(" ")
		c15Expr(b, n.Right)
		b.WriteString(")")
	case *ast.SequenceExpression:
		b.WriteString("(seq")
		c15List(b, n.Sequence)
		b.WriteString(")")
	case *ast.FunctionLiteral:
		if n == nil {
			b.WriteString("(nil)")
			return
		}
		name := "-"
		if n.Name != nil {
			name = n.Name.Name
		}
		b.WriteString("(fun " + name + " (")
		if n.ParameterList != nil {
			for i, p := range n.ParameterList.List {
				if i > 0 {
					b.WriteString(" ")
				}
				b.WriteString(p.Name)
			}
		}
		b.WriteString(") (")
		if blk, ok := n.Body.(*ast.BlockStatement); ok && blk != nil {
			for _, s := range blk.List {
				c15Stmt(b, s)
			}
		} else {
			b.WriteString("(other:body)")
		}
		b.WriteString("))")
	default:
		b.WriteString(fmt.Sprintf("(other:%T)", e))
	}
}

func c15Stmt(b *strings.Builder, s ast.Statement) {
	switch n := s.(type) {
	case *ast.ExpressionStatement:
		b.WriteString("(expr ")
		c15Expr(b, n.Expression)
		b.WriteString(")")
	case *ast.VariableStatement:
		b.WriteString("(var")
		for _, d := range n.List {
			if v, ok := d.(*ast.VariableExpression); ok {
				b.WriteString(" (" + v.Name)
				if v.Initializer != nil {
					b.WriteString(" ")
					c15Expr(b, v.Initializer)
				}
				b.WriteString(")")
			} else {
				b.WriteString(" ")
				c15Expr(b, d)
			}
		}
		b.WriteString(")")
	case *ast.ReturnStatement:
		if n.Argument == nil {
			b.WriteString("(return)")
		} else {
			b.WriteString("(return ")
			c15Expr(b, n.Argument)
			b.WriteString(")")
		}
	case *ast.EmptyStatement:
		b.WriteString("(empty)")
	default:
		b.WriteString(fmt.Sprintf("(other:%T)", s))
	}
}
