package main

import (
	"encoding/json"
	"fmt"
	"strconv"
	"strings"
	"time"

	"flamingo.me/pugtemplate/otto/ast"
	"flamingo.me/pugtemplate/otto/parser"
)

// C15: parser.ParseFile / parser.ParseFunction on arbitrary byte strings.
// Every parse runs in its own goroutine with recover() and a watchdog; it is run
// twice and both answers are reported.  The tree is written as the canonical
// S-expression that coq/Js/Parse.v (dump_prog) and gen/c15.py produce as well.
type c15Case struct {
	Mode   string `json:"mode"`   // file | func
	Params string `json:"params"` // hex, parameter list of ParseFunction
	Src    string `json:"src"`    // hex
	Bound  int    `json:"bound"`  // watchdog in milliseconds (0: default)
}

type c15Obs struct {
	Class  string `json:"class"`  // ok | err | panic | timeout
	Dump   string `json:"dump"`   // hex, only for ok
	Class2 string `json:"class2"` // second run
	Same   bool   `json:"same"`   // second run gave the same class and the same tree
	Ms     int64  `json:"ms"`     // slower of the two runs (diagnostic)
	Panic  string `json:"panic"`  // diagnostic text, never compared
}

func init() {
	runners["C15"] = func(in json.RawMessage) (interface{}, error) {
		var cases []c15Case
		if err := json.Unmarshal(in, &cases); err != nil {
			return nil, err
		}
		out := make([]c15Obs, len(cases))
		for i, c := range cases {
			out[i] = runC15(c)
		}
		return out, nil
	}
}

type c15Res struct {
	class string
	dump  string
	msg   string
}

func c15Once(c c15Case, src, params string) (r c15Res) {
	defer func() {
		if p := recover(); p != nil {
			r = c15Res{class: "panic", msg: fmt.Sprint(p)}
		}
	}()
	switch c.Mode {
	case "func":
		fn, err := parser.ParseFunction(params, src)
		if err != nil {
			return c15Res{class: "err"}
		}
		var b strings.Builder
		b.WriteString("(prog (expr ")
		c15Expr(&b, fn)
		b.WriteString("))")
		return c15Res{class: "ok", dump: b.String()}
	default:
		prog, err := parser.ParseFile(nil, "", src, 0)
		if err != nil {
			return c15Res{class: "err"}
		}
		var b strings.Builder
		b.WriteString("(prog")
		for _, s := range prog.Body {
			b.WriteString(" ")
			c15Stmt(&b, s)
		}
		b.WriteString(")")
		return c15Res{class: "ok", dump: b.String()}
	}
}

func c15Guarded(c c15Case, src, params string, bound time.Duration) (c15Res, time.Duration) {
	ch := make(chan c15Res, 1)
	t0 := time.Now()
	go func() { ch <- c15Once(c, src, params) }()
	select {
	case r := <-ch:
		return r, time.Since(t0)
	case <-time.After(bound):
		return c15Res{class: "timeout"}, time.Since(t0)
	}
}

func runC15(c c15Case) c15Obs {
	src, params := unhx(c.Src), unhx(c.Params)
	bound := time.Duration(c.Bound) * time.Millisecond
	if bound == 0 {
		// generous: the error paths of the parser are quadratic (about 0.5 s for 10^4 bytes;
		// chains of equal labels are cubic: 12 s for 6000 bytes); slowness alone must not alarm
		n := float64(len(src)) / 1e4
		bound = 120*time.Second + time.Duration(120*n*n*float64(time.Second))
	}
	r1, d1 := c15Guarded(c, src, params, bound)
	if r1.class == "timeout" {
		// the stuck goroutine keeps running; do not start a second one
		return c15Obs{Class: "timeout", Class2: "timeout", Ms: d1.Milliseconds()}
	}
	r2, d2 := c15Guarded(c, src, params, bound)
	if d2 > d1 {
		d1 = d2
	}
	return c15Obs{Class: r1.class, Dump: hx(r1.dump), Class2: r2.class,
		Same: r1.class == r2.class && r1.dump == r2.dump, Ms: d1.Milliseconds(), Panic: r1.msg + r2.msg}
}

func c15List(b *strings.Builder, l []ast.Expression) {
	for _, e := range l {
		b.WriteString(" ")
		c15Expr(b, e)
	}
}

func c15Expr(b *strings.Builder, e ast.Expression) {
	switch n := e.(type) {
	case nil:
		b.WriteString("(nil)")
	case *ast.Identifier:
		if n == nil {
			b.WriteString("(nil)")
			return
		}
		b.WriteString("(id " + n.Name + ")")
	case *ast.NumberLiteral:
		b.WriteString("(num " + n.Literal + " ")
		if v, ok := n.Value.(int64); ok {
			b.WriteString("i" + strconv.FormatInt(v, 10))
		} else {
			b.WriteString("f")
		}
		b.WriteString(")")
	case *ast.StringLiteral:
		q := "?"
		if len(n.Literal) > 0 {
			switch n.Literal[0] {
			case '"':
				q = "d"
			case '\'':
				q = "s"
			case '`':
				q = "b"
			}
		}
		b.WriteString("(str " + q + " " + hx(n.Value) + ")")
	case *ast.BooleanLiteral:
		if n.Value {
			b.WriteString("(bool true)")
		} else {
			b.WriteString("(bool false)")
		}
	case *ast.NullLiteral:
		b.WriteString("(null)")
	case *ast.ThisExpression:
		b.WriteString("(this)")
	case *ast.EmptyExpression:
		b.WriteString("(hole)")
	case *ast.ArrayLiteral:
		b.WriteString("(arr")
		c15List(b, n.Value)
		b.WriteString(")")
	case *ast.ObjectLiteral:
		b.WriteString("(obj")
		for _, p := range n.Value {
			if p.Kind != "value" {
				b.WriteString(" (other:property-" + p.Kind + ")")
				continue
			}
			b.WriteString(" (" + hx(p.Key) + " ")
			c15Expr(b, p.Value)
			b.WriteString(")")
		}
		b.WriteString(")")
	case *ast.DotExpression:
		b.WriteString("(dot ")
		c15Expr(b, n.Left)
		name := "(nil)"
		if n.Identifier != nil {
			name = n.Identifier.Name
		}
		b.WriteString(" " + name + ")")
	case *ast.BracketExpression:
		b.WriteString("(idx ")
		c15Expr(b, n.Left)
		b.WriteString(" ")
		c15Expr(b, n.Member)
		b.WriteString(")")
	case *ast.CallExpression:
		b.WriteString("(call ")
		c15Expr(b, n.Callee)
		c15List(b, n.ArgumentList)
		b.WriteString(")")
	case *ast.NewExpression:
		b.WriteString("(new ")
		c15Expr(b, n.Callee)
		c15List(b, n.ArgumentList)
		b.WriteString(")")
	case *ast.UnaryExpression:
		if n.Postfix {
			b.WriteString("(post ")
		} else {
			b.WriteString("(pre ")
		}
		b.WriteString(n.Operator.String() + " ")
		c15Expr(b, n.Operand)
		b.WriteString(")")
	case *ast.BinaryExpression:
		b.WriteString("(bin " + n.Operator.String() + " ")
		c15Expr(b, n.Left)
		b.WriteString(" ")
		c15Expr(b, n.Right)
		b.WriteString(")")
	case *ast.ConditionalExpression:
		b.WriteString("(cond ")
		c15Expr(b, n.Test)
		b.WriteString(" ")
		c15Expr(b, n.Consequent)
		b.WriteString(" ")
		c15Expr(b, n.Alternate)
		b.WriteString(")")
	case *ast.AssignExpression:
		b.WriteString("(assign " + n.Operator.String() + " ")
		c15Expr(b, n.Left)
		b.WriteString(" ")
		c15Expr(b, n.Right)
		b.WriteString(")")
	case *ast.SequenceExpression:
		b.WriteString("(seq")
		c15List(b, n.Sequence)
		b.WriteString(")")
	case *ast.FunctionLiteral:
		if n == nil {
			b.WriteString("(nil)")
			return
		}
		name := "-"
		if n.Name != nil {
			name = n.Name.Name
		}
		b.WriteString("(fun " + name + " (")
		if n.ParameterList != nil {
			for i, p := range n.ParameterList.List {
				if i > 0 {
					b.WriteString(" ")
				}
				b.WriteString(p.Name)
			}
		}
		b.WriteString(") (")
		if blk, ok := n.Body.(*ast.BlockStatement); ok && blk != nil {
			for _, s := range blk.List {
				c15Stmt(b, s)
			}
		} else {
			b.WriteString("(other:body)")
		}
		b.WriteString("))")
	default:
		b.WriteString(fmt.Sprintf("(other:%T)", e))
	}
}

func c15Stmt(b *strings.Builder, s ast.Statement) {
	switch n := s.(type) {
	case *ast.ExpressionStatement:
		b.WriteString("(expr ")
		c15Expr(b, n.Expression)
		b.WriteString(")")
	case *ast.VariableStatement:
		b.WriteString("(var")
		for _, d := range n.List {
			if v, ok := d.(*ast.VariableExpression); ok {
				b.WriteString(" (" + v.Name)
				if v.Initializer != nil {
					b.WriteString(" ")
					c15Expr(b, v.Initializer)
				}
				b.WriteString(")")
			} else {
				b.WriteString(" ")
				c15Expr(b, d)
			}
		}
		b.WriteString(")")
	case *ast.ReturnStatement:
		if n.Argument == nil {
			b.WriteString("(return)")
		} else {
			b.WriteString("(return ")
			c15Expr(b, n.Argument)
			b.WriteString(")")
		}
	case *ast.EmptyStatement:
		b.WriteString("(empty)")
	default:
		b.WriteString(fmt.Sprintf("(other:%T)", s))
	}
}
