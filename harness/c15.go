package main

import (
	"bufio"
	"bytes"
	"context"
	"crypto/sha1"
	"encoding/hex"
	"encoding/json"
	"fmt"
	"io"
	"os"
	"os/exec"
	"reflect"
	"strconv"
	"strings"
	"sync"
	"time"

	"flamingo.me/pugtemplate/otto/ast"
	"flamingo.me/pugtemplate/otto/parser"
)

// C15: parser.ParseFile / parser.ParseFunction on arbitrary byte strings.
//
// Every parse runs in its own goroutine with recover() and a watchdog.  The tree is written as the
// canonical S-expression that coq/Js/Parse.v (dump_prog) and gen/c15.py produce as well, and - for
// "the same answer every time" - as a fingerprint of the WHOLE tree (every field of every node,
// positions included, read by reflection), so that two answers can be compared also where the
// canonical dump only says (other:...).
//
// A plain case (no hist, fresh false) is parsed twice in a row in the runner's process, which all plain
// cases of a run share.  A case with a history is run in processes of its own (this binary re-executed
// as C15hist): one process parses the steps of the history in order, once each - the case's own input A
// occurs among them several times, between other inputs that share sub-strings with it - and a second,
// freshly started process parses A alone.  Nothing another case did can influence these answers, so a
// replay of the case is self-contained.
type c15Step struct {
	Mode   string `json:"mode"`   // file | func
	Params string `json:"params"` // hex
	Src    string `json:"src"`    // hex
}

type c15Case struct {
	Mode   string    `json:"mode"`   // file | func
	Params string    `json:"params"` // hex, parameter list of ParseFunction
	Src    string    `json:"src"`    // hex
	Bound  int       `json:"bound"`  // watchdog in milliseconds (0: default)
	Hist   []c15Step `json:"hist"`   // the inputs parsed, in this order, in one process of its own (empty: A, A)
	Fresh  bool      `json:"fresh"`  // processes of its own: one for the history, a fresh one for A alone
}

type c15StepObs struct {
	Class string `json:"class"` // ok | err | panic | timeout | crash (the runtime killed the process)
	Fp    string `json:"fp"`    // fingerprint of the whole tree (class ok)
	Ms    int64  `json:"ms"`
}

type c15Obs struct {
	Class  string       `json:"class"`  // first parse of A: ok | err | panic | timeout | crash
	Dump   string       `json:"dump"`   // hex, only for ok
	Fp     string       `json:"fp"`     // fingerprint of the whole tree of that answer
	Class2 string       `json:"class2"` // second parse of A
	Same   bool         `json:"same"`   // every parse of A (in the history and in the fresh process) gave the same class, dump and fingerprint
	Ms     int64        `json:"ms"`     // slowest parse (diagnostic)
	Panic  string       `json:"panic"`  // diagnostic text, never compared
	Steps  []c15StepObs `json:"steps"`  // the answers to the history, in order
	FreshO *c15StepObs  `json:"fresh"`  // the answer of the freshly started process to A
}

func init() {
	runners["C15"] = func(in json.RawMessage) (interface{}, error) {
		var cases []c15Case
		if err := json.Unmarshal(in, &cases); err != nil {
			return nil, err
		}
		self, err := os.Executable()
		if err != nil {
			return nil, err
		}
		out := make([]c15Obs, len(cases))
		// cases that want processes of their own: a few workers start the children ...
		var wg sync.WaitGroup
		jobs := make(chan int)
		for w := 0; w < 4; w++ {
			wg.Add(1)
			go func() {
				defer wg.Done()
				for i := range jobs {
					out[i] = c15Isolated(self, cases[i])
				}
			}()
		}
		go func() {
			for i, c := range cases {
				if c.Fresh {
					jobs <- i
				}
			}
			close(jobs)
		}()
		// ... while the plain cases run one after the other in this process
		for i, c := range cases {
			if !c.Fresh {
				out[i] = runC15(c)
			}
		}
		wg.Wait()
		return out, nil
	}
	runners["C15hist"] = func(in json.RawMessage) (interface{}, error) {
		var c c15Case
		if err := json.Unmarshal(in, &c); err != nil {
			return nil, err
		}
		return runC15(c), nil
	}
}

type c15Res struct {
	class string
	dump  string
	fp    string
	msg   string
}

func c15Once(mode, src, params string) (r c15Res) {
	defer func() {
		if p := recover(); p != nil {
			r = c15Res{class: "panic", msg: fmt.Sprint(p)}
		}
	}()
	switch mode {
	case "func":
		fn, err := parser.ParseFunction(params, src)
		if err != nil {
			return c15Res{class: "err"}
		}
		var b strings.Builder
		b.WriteString("(prog (expr ")
		c15Expr(&b, fn)
		b.WriteString("))")
		return c15Res{class: "ok", dump: b.String(), fp: c15Fingerprint(fn)}
	default:
		prog, err := parser.ParseFile(nil, "", src, 0)
		if err != nil {
			return c15Res{class: "err"}
		}
		var b strings.Builder
		b.WriteString("(prog")
		for _, s := range prog.Body {
			b.WriteString(" ")
			c15Stmt(&b, s)
		}
		b.WriteString(")")
		return c15Res{class: "ok", dump: b.String(), fp: c15Fingerprint(prog)}
	}
}

func c15Guarded(mode, src, params string, bound time.Duration) (c15Res, time.Duration) {
	ch := make(chan c15Res, 1)
	t0 := time.Now()
	go func() { ch <- c15Once(mode, src, params) }()
	select {
	case r := <-ch:
		return r, time.Since(t0)
	case <-time.After(bound):
		return c15Res{class: "timeout"}, time.Since(t0)
	}
}

func c15Bound(c c15Case, n int) time.Duration {
	if c.Bound != 0 {
		return time.Duration(c.Bound) * time.Millisecond
	}
	// generous: the error paths of the parser are quadratic (about 0.5 s for 10^4 bytes;
	// chains of equal labels are cubic: 12 s for 6000 bytes); slowness alone must not alarm
	x := float64(n) / 1e4
	return 120*time.Second + time.Duration(120*x*x*float64(time.Second))
}

// runC15 parses the history of the case (A, A when none is given) in this process, in order, once each.
func runC15(c c15Case) c15Obs {
	hist := c.Hist
	if len(hist) == 0 {
		hist = []c15Step{{c.Mode, c.Params, c.Src}, {c.Mode, c.Params, c.Src}}
	}
	obs := c15Obs{Same: true, Steps: []c15StepObs{}}
	seen := 0 // parses of A so far
	var first c15Res
	for _, st := range hist {
		src, params := unhx(st.Src), unhx(st.Params)
		r, d := c15Guarded(st.Mode, src, params, c15Bound(c, len(src)))
		obs.Steps = append(obs.Steps, c15StepObs{Class: r.class, Fp: r.fp, Ms: d.Milliseconds()})
		if d.Milliseconds() > obs.Ms {
			obs.Ms = d.Milliseconds()
		}
		obs.Panic += r.msg
		if st.Mode == c.Mode && st.Params == c.Params && st.Src == c.Src {
			switch seen {
			case 0:
				first = r
				obs.Class, obs.Dump, obs.Fp, obs.Class2 = r.class, hx(r.dump), r.fp, r.class
			case 1:
				obs.Class2 = r.class
			}
			if seen > 0 && (r.class != first.class || r.dump != first.dump || r.fp != first.fp) {
				obs.Same = false
			}
			seen++
		}
		if r.class == "timeout" {
			// the stuck goroutine keeps running; do not start another parse next to it
			if seen == 0 {
				obs.Class, obs.Class2 = "timeout", "timeout"
			}
			obs.Same = false
			break
		}
	}
	if seen == 0 && obs.Class == "" {
		obs.Class, obs.Class2, obs.Same = "err", "err", false // a history that never parses A is a mistake of the generator
		obs.Panic += "history without the case's own input"
	}
	return obs
}

// c15Child runs one case in a process of its own (this binary, runner C15hist).
func c15Child(self string, c c15Case) c15Obs {
	c.Fresh = false
	in, err := json.Marshal(c)
	if err != nil {
		panic(err)
	}
	n := 0
	for _, st := range c.Hist {
		n += len(st.Src) / 2
	}
	ctx, cancel := context.WithTimeout(context.Background(), c15Bound(c, n)+time.Minute) // a hung child ends as a crash
	defer cancel()
	cmd := exec.CommandContext(ctx, self, "C15hist")
	cmd.Stdin = bytes.NewReader(in)
	var stderr bytes.Buffer
	cmd.Stderr = &stderr
	out, err := cmd.Output()
	var obs c15Obs
	if err == nil {
		err = json.Unmarshal(out, &obs)
	}
	if err != nil {
		// the Go runtime killed the process (stack exhaustion, ...): nothing a recover() can catch
		msg := stderr.String()
		if len(msg) > 600 {
			msg = msg[:600]
		}
		obs = c15Obs{Class: "crash", Class2: "crash", Panic: fmt.Sprint(err) + ": " + msg, Steps: []c15StepObs{}}
		for range c.Hist {
			obs.Steps = append(obs.Steps, c15StepObs{Class: "crash"})
		}
	}
	return obs
}

// c15Isolated: one process for the history of the case, one more - freshly started - that parses A alone.
func c15Isolated(self string, c c15Case) c15Obs {
	if len(c.Hist) == 0 {
		c.Hist = []c15Step{{c.Mode, c.Params, c.Src}, {c.Mode, c.Params, c.Src}}
	}
	obs := c15Child(self, c)
	alone := c
	alone.Hist = []c15Step{{c.Mode, c.Params, c.Src}}
	f := c15Child(self, alone)
	fo := c15StepObs{Class: f.Class, Fp: f.Fp, Ms: f.Ms}
	obs.FreshO = &fo
	if f.Class != obs.Class || f.Dump != obs.Dump || f.Fp != obs.Fp {
		obs.Same = false
	}
	obs.Panic += f.Panic
	return obs
}

// c15Fingerprint: SHA-1 (first 8 bytes, hex) over every field of every node of the tree, read by reflection
// in declaration order: node types, literals, values, operators, positions.  Not walked: the *file.File of a
// program and comment maps (keyed by node addresses).  A node reached a second time (a function literal is
// also listed in the declarations of its scope) is written as a back reference, so the text does not depend
// on addresses.
func c15Fingerprint(root interface{}) string {
	h := sha1.New()
	w := bufio.NewWriter(h)
	seen := map[uintptr]int{}
	c15Walk(w, reflect.ValueOf(root), seen)
	w.Flush()
	return hex.EncodeToString(h.Sum(nil)[:8])
}

func c15Walk(w io.Writer, v reflect.Value, seen map[uintptr]int) {
	switch v.Kind() {
	case reflect.Invalid:
		io.WriteString(w, "nil")
	case reflect.Interface:
		if v.IsNil() {
			io.WriteString(w, "nil")
			return
		}
		c15Walk(w, v.Elem(), seen)
	case reflect.Ptr:
		if v.IsNil() {
			io.WriteString(w, "nil")
			return
		}
		if v.Type().String() == "*file.File" {
			return
		}
		if k, ok := seen[v.Pointer()]; ok {
			io.WriteString(w, "@"+strconv.Itoa(k))
			return
		}
		seen[v.Pointer()] = len(seen)
		io.WriteString(w, "&")
		c15Walk(w, v.Elem(), seen)
	case reflect.Struct:
		io.WriteString(w, v.Type().String()+"{")
		for i := 0; i < v.NumField(); i++ {
			io.WriteString(w, v.Type().Field(i).Name+":")
			c15Walk(w, v.Field(i), seen)
			io.WriteString(w, ";")
		}
		io.WriteString(w, "}")
	case reflect.Slice, reflect.Array:
		if v.Kind() == reflect.Slice && v.IsNil() {
			io.WriteString(w, "[]") // a nil list and an empty list are the same answer
			return
		}
		io.WriteString(w, "[")
		for i := 0; i < v.Len(); i++ {
			c15Walk(w, v.Index(i), seen)
			io.WriteString(w, ",")
		}
		io.WriteString(w, "]")
	case reflect.Map:
		io.WriteString(w, "map") // comment maps only (empty in mode 0)
	case reflect.String:
		io.WriteString(w, strconv.Quote(v.String()))
	case reflect.Bool:
		io.WriteString(w, strconv.FormatBool(v.Bool()))
	case reflect.Int, reflect.Int8, reflect.Int16, reflect.Int32, reflect.Int64:
		io.WriteString(w, v.Type().String()+strconv.FormatInt(v.Int(), 10))
	case reflect.Uint, reflect.Uint8, reflect.Uint16, reflect.Uint32, reflect.Uint64, reflect.Uintptr:
		io.WriteString(w, v.Type().String()+strconv.FormatUint(v.Uint(), 10))
	case reflect.Float32, reflect.Float64:
		io.WriteString(w, "f"+strconv.FormatFloat(v.Float(), 'g', -1, 64))
	default:
		io.WriteString(w, "?"+v.Kind().String())
	}
}

func c15List(b *strings.Builder, l []ast.Expression) {
	for _, e := range l {
		b.WriteString(" ")
		c15Expr(b, e)
	}
}

func c15Expr(b *strings.Builder, e ast.Expression) {
	switch n := e.(type) {
	case nil:
		b.WriteString("(nil)")
	case *ast.Identifier:
		if n == nil {
			b.WriteString("(nil)")
			return
		}
		b.WriteString("(id " + n.Name + ")")
	case *ast.NumberLiteral:
		b.WriteString("(num " + n.Literal + " ")
		if v, ok := n.Value.(int64); ok {
			b.WriteString("i" + strconv.FormatInt(v, 10))
		} else {
			b.WriteString("f")
		}
		b.WriteString(")")
	case *ast.StringLiteral:
		q := "?"
		if len(n.Literal) > 0 {
			switch n.Literal[0] {
			case '"':
				q = "d"
			case '\'':
				q = "s"
			case '`':
				q = "b"
			}
		}
		b.WriteString("(str " + q + " " + hx(n.Value) + ")")
	case *ast.BooleanLiteral:
		if n.Value {
			b.WriteString("(bool true)")
		} else {
			b.WriteString("(bool false)")
		}
	case *ast.NullLiteral:
		b.WriteString("(null)")
	case *ast.ThisExpression:
		b.WriteString("(this)")
	case *ast.EmptyExpression:
		b.WriteString("(hole)")
	case *ast.ArrayLiteral:
		b.WriteString("(arr")
		c15List(b, n.Value)
		b.WriteString(")")
	case *ast.ObjectLiteral:
		b.WriteString("(obj")
		for _, p := range n.Value {
			if p.Kind != "value" {
				b.WriteString(" (other:property-" + p.Kind + ")")
				continue
			}
			b.WriteString(" (" + hx(p.Key) + " ")
			c15Expr(b, p.Value)
			b.WriteString(")")
		}
		b.WriteString(")")
	case *ast.DotExpression:
		b.WriteString("(dot ")
		c15Expr(b, n.Left)
		name := "(nil)"
		if n.Identifier != nil {
			name = n.Identifier.Name
		}
		b.WriteString(" " + name + ")")
	case *ast.BracketExpression:
		b.WriteString("(idx ")
		c15Expr(b, n.Left)
		b.WriteString(" ")
		c15Expr(b, n.Member)
		b.WriteString(")")
	case *ast.CallExpression:
		b.WriteString("(call ")
		c15Expr(b, n.Callee)
		c15List(b, n.ArgumentList)
		b.WriteString(")")
	case *ast.NewExpression:
		b.WriteString("(new ")
		c15Expr(b, n.Callee)
		c15List(b, n.ArgumentList)
		b.WriteString(")")
	case *ast.UnaryExpression:
		if n.Postfix {
			b.WriteString("(post ")
		} else {
			b.WriteString("(pre ")
		}
		b.WriteString(n.Operator.String() + " ")
		c15Expr(b, n.Operand)
		b.WriteString(")")
	case *ast.BinaryExpression:
		b.WriteString("(bin " + n.Operator.String() + " ")
		c15Expr(b, n.Left)
		b.WriteString(" ")
		c15Expr(b, n.Right)
		b.WriteString(")")
	case *ast.ConditionalExpression:
		b.WriteString("(cond ")
		c15Expr(b, n.Test)
		b.WriteString(" ")
		c15Expr(b, n.Consequent)
		b.WriteString(" ")
		c15Expr(b, n.Alternate)
		b.WriteString(")")
	case *ast.AssignExpression:
		b.WriteString("(assign " + n.Operator.String() + " ")
		c15Expr(b, n.Left)
		b.WriteString(" ")
		c15Expr(b, n.Right)
		b.WriteString(")")
	case *ast.SequenceExpression:
		b.WriteString("(seq")
		c15List(b, n.Sequence)
		b.WriteString(")")
	case *ast.FunctionLiteral:
		if n == nil {
			b.WriteString("(nil)")
			return
		}
		name := "-"
		if n.Name != nil {
			name = n.Name.Name
		}
		b.WriteString("(fun " + name + " (")
		if n.ParameterList != nil {
			for i, p := range n.ParameterList.List {
				if i > 0 {
					b.WriteString(" ")
				}
				b.WriteString(p.Name)
			}
		}
		b.WriteString(") (")
		if blk, ok := n.Body.(*ast.BlockStatement); ok && blk != nil {
			for _, s := range blk.List {
				c15Stmt(b, s)
			}
		} else {
			b.WriteString("(other:body)")
		}
		b.WriteString("))")
	default:
		b.WriteString(fmt.Sprintf("(other:%T)", e))
	}
}

func c15Stmt(b *strings.Builder, s ast.Statement) {
	switch n := s.(type) {
	case *ast.ExpressionStatement:
		b.WriteString("(expr ")
		c15Expr(b, n.Expression)
		b.WriteString(")")
	case *ast.VariableStatement:
		b.WriteString("(var")
		for _, d := range n.List {
			if v, ok := d.(*ast.VariableExpression); ok {
				b.WriteString(" (" + v.Name)
				if v.Initializer != nil {
					b.WriteString(" ")
					c15Expr(b, v.Initializer)
				}
				b.WriteString(")")
			} else {
				b.WriteString(" ")
				c15Expr(b, d)
			}
		}
		b.WriteString(")")
	case *ast.ReturnStatement:
		if n.Argument == nil {
			b.WriteString("(return)")
		} else {
			b.WriteString("(return ")
			c15Expr(b, n.Argument)
			b.WriteString(")")
		}
	case *ast.EmptyStatement:
		b.WriteString("(empty)")
	default:
		b.WriteString(fmt.Sprintf("(other:%T)", s))
	}
}
