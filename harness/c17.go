package main

import (
	"bytes"
	"context"
	"encoding/json"
	"errors"
	"fmt"
	"io"
	"math"
	"net/http"
	"net/url"
	"os"
	"os/exec"
	"path/filepath"
	"sort"
	"strconv"
	"strings"
	"sync"
	"sync/atomic"
	"time"

	"flamingo.me/flamingo/v3/framework/flamingo"
	"flamingo.me/flamingo/v3/framework/web"
	"flamingo.me/pugtemplate"
	"flamingo.me/pugtemplate/pugjs"
	"flamingo.me/pugtemplate/templatefunctions"
)

// C17: RenderPartials vs Render of each partial alone.
//
// Engines over the same template tree, each in an operating-system process of its own (this binary
// re-executed with the runner C17one), so that nothing - no package variable, cache or pool of the
// code under test - is shared between two cases, between the reference and the engine under test,
// or between two reference renders:
//   - the engine UNDER TEST receives the history `prep` (possibly empty: a fresh engine on which
//     neither LoadTemplates nor Render has run) and then the RenderPartials call that is judged;
//   - for every distinct requested partial name that is a file of the tree, a REFERENCE process
//     builds a preloaded engine and renders that one name alone by Engine.Render: "rendered on its
//     own" means in a process that has done nothing else.  (Requested names that are no file of
//     the tree are rendered, for the record only, on a separate engine inside the process of the
//     engine under test after the judged call; the oracle never consults them.)
//
// All engines carry the template functions the module registers that need no router / injector
// (debug, JSON, Math, Object, stripTags, truncate, capitalize, trim, escapeHtml, startsWith,
// parseInt, parseFloat) - the real implementations from /repo/templatefunctions.
// The template name of the request and the requested partial names are arbitrary strings (also ones
// written with path syntax: trailing slashes, "./", "..", doubled slashes, other case); they are handed
// to the engine verbatim, the file tree itself only has clean relative paths.
// Every call (reference renders, prep operations, the judged call) gets its own freshly built copy of
// the data, as ordinary Go values (maps / slices / strings / numbers), so "the same data" means the
// same value, never the same object.
type c17Case struct {
	Files    map[string]string `json:"files"` // path below template/page (without .ast.json) -> AST json
	Template string            `json:"template"`
	Partials []string          `json:"partials"`
	Universe []string          `json:"universe"` // partial names to render alone
	Data     json.RawMessage   `json:"data"`     // c17Val (must be a map at the top)
	Prep     []c17Op           `json:"prep"`     // history of the engine under test before the judged call
	Debug    bool              `json:"debug"`    // engine under test runs in debug mode (compiles on demand)
	Limit    int               `json:"limit"`    // rate limit of the engine under test (0 = off)
	Gone     *c17Gone          `json:"gone"`     // the judged request's context ends before / during the call
}

// c17Gone: the request behind the judged call goes away (client disconnected = cancel, or its deadline
// passes) at a chosen point, possibly while other renders hold render slots of the rate limiter.
//
//	holders   that many other renders (of the template c17holder, whose function c17hold() blocks) are
//	          inside Engine.Render on the same engine when the judged call starts, and stay there until
//	          it has returned; with holders = limit > 0 the judged call finds no free slot
//	at        -1: the context is over before RenderPartials is called;
//	          k >= 0: it ends while the (k+1)-th executed partial of the call is being rendered (every
//	          partial template of such a case calls c17tick() first, which counts and - at k - cancels
//	          the context / waits for the deadline)
//	after_ms  at >= 0: the context also ends that long after the call began, wherever the call is then
//	          (still waiting for a slot, between two partials, or already back)
type c17Gone struct {
	How     string `json:"how"` // cancel | deadline
	At      int    `json:"at"`
	Holders int    `json:"holders"`
	AfterMs int    `json:"after_ms"`
}

// hooks of the template functions c17tick / c17hold (nil: the functions do nothing); set only by the
// process of the engine under test, for the judged call of a case with `gone`
var (
	c17Tick func()
	c17Hold func()
)

// c17Op is one earlier call on the engine under test.
//
//	load    [filter]  LoadTemplates(filter) (default ""): a full load, or a filtered reload of one template /
//	                  of everything below a prefix
//	debugctl tpl      GET /_pugtpl/debug?tpl=<tpl> answered by the module's DebugController (which reloads tpl)
//	render  name      Engine.Render(name) (full template name), fresh data
//	partials names    Engine.RenderPartials(t or the case's template, names), fresh data, result drained
//
// An earlier call may come with its own data (another request), else it gets a copy of the case's data.
type c17Op struct {
	Op     string   `json:"op"`
	Name   string   `json:"name,omitempty"`   // hex
	Names  []string `json:"names,omitempty"`  // hex
	T      *string  `json:"t,omitempty"`      // hex: template name of an earlier RenderPartials (default: the case's)
	Filter string   `json:"filter,omitempty"` // hex: filter of a load / tpl of a debugctl
	// Data, when present, is the data of this earlier call (another request's data); otherwise the case's data
	Data json.RawMessage `json:"data,omitempty"`
}

// c17Val: typed data.  t = nil | bool | int | str | arr | map | strs ([]string) | strmap (map[string]string)
//
//	float   v = "nan" | "inf" | "-inf" | decimal text           (float64; the first three cannot be JSON-encoded)
//	getter  v = {first,last,orders,visits}                      (*c17Customer: struct with zero-argument methods)
//	unenc   v = text                                            (c17Unencodable: its MarshalJSON reports an error)
//	nilptr                                                      (a nil *c17Customer)
//	fn                                                          (a Go func with a parameter)
type c17Val struct {
	T string          `json:"t"`
	V json.RawMessage `json:"v"`
}

func c17Build(raw json.RawMessage) (interface{}, error) {
	var tv c17Val
	if err := json.Unmarshal(raw, &tv); err != nil {
		return nil, err
	}
	switch tv.T {
	case "nil":
		return nil, nil
	case "bool":
		var b bool
		err := json.Unmarshal(tv.V, &b)
		return b, err
	case "int":
		var n int64
		err := json.Unmarshal(tv.V, &n)
		return int(n), err
	case "str":
		var s string
		err := json.Unmarshal(tv.V, &s)
		return unhx(s), err
	case "float":
		var s string
		if err := json.Unmarshal(tv.V, &s); err != nil {
			return nil, err
		}
		switch s {
		case "nan":
			return math.NaN(), nil
		case "inf":
			return math.Inf(1), nil
		case "-inf":
			return math.Inf(-1), nil
		}
		return strconv.ParseFloat(s, 64)
	case "getter":
		var g struct {
			First, Last    string
			Orders, Visits float64
		}
		if err := json.Unmarshal(tv.V, &g); err != nil {
			return nil, err
		}
		return &c17Customer{Firstname: unhx(g.First), Lastname: unhx(g.Last), Orders: g.Orders, Visits: g.Visits}, nil
	case "unenc":
		var s string
		err := json.Unmarshal(tv.V, &s)
		return c17Unencodable{Why: s}, err
	case "nilptr":
		return (*c17Customer)(nil), nil
	case "fn":
		return func(a string) string { return "fn(" + a + ")" }, nil
	case "strs":
		var l []string
		if err := json.Unmarshal(tv.V, &l); err != nil {
			return nil, err
		}
		res := make([]string, len(l))
		for i, s := range l {
			res[i] = unhx(s)
		}
		return res, nil
	case "arr":
		var l []json.RawMessage
		if err := json.Unmarshal(tv.V, &l); err != nil {
			return nil, err
		}
		res := make([]interface{}, len(l))
		for i, x := range l {
			v, err := c17Build(x)
			if err != nil {
				return nil, err
			}
			res[i] = v
		}
		return res, nil
	case "strmap":
		var l [][2]string
		if err := json.Unmarshal(tv.V, &l); err != nil {
			return nil, err
		}
		res := make(map[string]string, len(l))
		for _, kv := range l {
			res[unhx(kv[0])] = unhx(kv[1])
		}
		return res, nil
	case "map":
		var l [][2]json.RawMessage
		if err := json.Unmarshal(tv.V, &l); err != nil {
			return nil, err
		}
		res := make(map[string]interface{}, len(l))
		for _, kv := range l {
			var k string
			if err := json.Unmarshal(kv[0], &k); err != nil {
				return nil, err
			}
			v, err := c17Build(kv[1])
			if err != nil {
				return nil, err
			}
			res[unhx(k)] = v
		}
		return res, nil
	}
	return nil, fmt.Errorf("bad data tag %q", tv.T)
}

// c17Customer: view data with zero-argument methods ("getters"), which pugjs binds as members
type c17Customer struct {
	Firstname, Lastname string
	Orders, Visits      float64
}

func (c *c17Customer) DisplayName() string { return c.Firstname + " " + c.Lastname }

// Conversion is orders per visit: NaN for a customer without visits
func (c *c17Customer) Conversion() float64 { return c.Orders / c.Visits }

// c17Unencodable cannot be JSON-encoded
type c17Unencodable struct{ Why string }

func (u c17Unencodable) MarshalJSON() ([]byte, error) {
	return nil, errors.New("cannot encode: " + u.Why)
}

// c17Funcs: the module's template functions that work without router / injector (see module.go)
func c17Funcs() map[string]flamingo.TemplateFunc {
	return map[string]flamingo.TemplateFunc{
		"debug":      templatefunctions.DebugFunc{},
		"startsWith": &templatefunctions.StartsWithFunc{},
		"truncate":   &templatefunctions.TruncateFunc{},
		"capitalize": &templatefunctions.CapitalizeFunc{},
		"trim":       &templatefunctions.TrimFunc{},
		"escapeHtml": &templatefunctions.EscapeHTMLFunc{},
		"parseFloat": &templatefunctions.ParseFloat{},
		"c17tick": tplFunc{func() string {
			if h := c17Tick; h != nil {
				h()
			}
			return ""
		}},
		"c17hold": tplFunc{func() string {
			if h := c17Hold; h != nil {
				h()
			}
			return ""
		}},
	}
}

type c17Entry struct {
	Key string `json:"key"` // hex
	Out string `json:"out"` // hex
}

type c17Obs struct {
	Tree    []string      `json:"tree"`  // hex: every file <name>.ast.json found below template/page, as <name>
	Alone   []c17AloneObs `json:"alone"` // every distinct requested name rendered alone (files of the tree: one process each)
	Procs   int           `json:"procs"` // operating-system processes used for the case
	Msg     string        `json:"msg,omitempty"`
	Prep    []string      `json:"prep"`    // outcome class of every prep operation (diagnostic)
	Class   string        `json:"class"`   // ok | error | exec_panic | hang (gone: the call did not come back although its context was over)
	Held    int           `json:"held"`    // gone: holder renders that were inside Engine.Render during the judged call
	Stalled bool          `json:"stalled"` // some call on the engine under test was still waiting when its deadline expired
	NilMap  bool          `json:"nil_map"` // result map is nil
	Entries []c17Entry    `json:"entries"`
}

type c17AloneObs struct {
	Name string       `json:"name"` // hex
	Res  renderResult `json:"res"`
}

// deadlines of the calls on the engine under test (a render of these templates takes milliseconds)
const (
	c17Deadline           = 5 * time.Second
	c17DeadlineAfterStall = 300 * time.Millisecond
)

// c17RunStalled: some call of this harness run was still waiting when its deadline expired
var c17RunStalled atomic.Bool

// c17Job is what a child process (runner C17one) is asked to do for one case
type c17Job struct {
	Dir   string  `json:"dir"` // where the parent wrote the template tree
	Case  c17Case `json:"case"`
	Mode  string  `json:"mode"`  // "test": history + judged call | "ref": render Name alone
	Name  string  `json:"name"`  // hex: partial name (mode ref)
	Short bool    `json:"short"` // an earlier call of the run has stalled: short deadlines
}

type c17JobOut struct {
	Obs c17Obs       `json:"obs"` // mode test: Prep, Class, Stalled, NilMap, Entries, Alone (names that are no files)
	Res renderResult `json:"res"` // mode ref
}

const c17Workers = 6

func init() {
	runners["C17"] = func(in json.RawMessage) (interface{}, error) {
		var cases []c17Case
		if err := json.Unmarshal(in, &cases); err != nil {
			return nil, err
		}
		self, err := os.Executable()
		if err != nil {
			return nil, err
		}
		out := make([]c17Obs, len(cases))
		errs := make([]error, len(cases))
		var wg sync.WaitGroup
		next := int64(-1)
		for w := 0; w < c17Workers; w++ {
			wg.Add(1)
			go func() {
				defer wg.Done()
				for {
					i := int(atomic.AddInt64(&next, 1))
					if i >= len(cases) {
						return
					}
					out[i], errs[i] = runC17(self, cases[i])
				}
			}()
		}
		wg.Wait()
		for i, err := range errs {
			if err != nil {
				return nil, fmt.Errorf("case %d: %w", i, err)
			}
		}
		return out, nil
	}
	runners["C17one"] = func(in json.RawMessage) (interface{}, error) {
		var job c17Job
		if err := json.Unmarshal(in, &job); err != nil {
			return nil, err
		}
		return c17Child(job)
	}
}

// c17Spawn runs one job in a process of its own.  died = the Go runtime killed the process
// (nothing a recover() can catch).
func c17Spawn(self string, job c17Job) (out c17JobOut, died bool, msg string, err error) {
	in, err := json.Marshal(job)
	if err != nil {
		return out, false, "", err
	}
	ctx, cancel := context.WithTimeout(context.Background(), 3*time.Minute)
	defer cancel()
	cmd := exec.CommandContext(ctx, self, "C17one")
	cmd.Stdin = bytes.NewReader(in)
	cmd.Env = append(os.Environ(), "GOMAXPROCS=2")
	var stderr bytes.Buffer
	cmd.Stderr = &stderr
	res, err := cmd.Output()
	if err != nil {
		msg = stderr.String()
		if len(msg) > 400 {
			msg = msg[:400]
		}
		if _, ok := err.(*exec.ExitError); ok && !strings.HasPrefix(msg, "harness error:") && !strings.HasPrefix(msg, "bad input:") {
			return out, true, msg, nil
		}
		return out, false, msg, fmt.Errorf("child process: %v: %s", err, msg)
	}
	err = json.Unmarshal(res, &out)
	return out, false, "", err
}

// c17Partials calls RenderPartials, recovers panics and drains the readers (sorted by key).
func c17Partials(e *pugjs.Engine, ctx context.Context, tname string, data interface{}, ps []string) (class string, nilMap bool, entries []c17Entry) {
	nilMap = true
	defer func() {
		if r := recover(); r != nil {
			class, nilMap, entries = clsPanic, true, nil
		}
	}()
	m, err := e.RenderPartials(ctx, tname, data, ps)
	nilMap = m == nil
	if err != nil {
		class = clsErr
	} else {
		class = clsOK
	}
	keys := make([]string, 0, len(m))
	for k := range m {
		keys = append(keys, k)
	}
	sort.Strings(keys)
	for _, k := range keys {
		b, _ := io.ReadAll(m[k])
		entries = append(entries, c17Entry{Key: hx(k), Out: hx(string(b))})
	}
	return class, nilMap, entries
}

func unhxAll(l []string) []string {
	res := make([]string, len(l))
	for i, p := range l {
		res[i] = unhx(p)
	}
	return res
}

// runC17 (parent): writes the tree, then one process for the engine under test and one per distinct
// requested name that is a file of the tree.
func runC17(self string, c c17Case) (obs c17Obs, err error) {
	dir, err := os.MkdirTemp("", "pv17")
	if err != nil {
		return obs, err
	}
	defer os.RemoveAll(dir)
	files := map[string]string{}
	for p, ast := range c.Files {
		files["template/page/"+unhx(p)+".ast.json"] = unhx(ast)
	}
	if err := writeTree(dir, files); err != nil {
		return obs, err
	}
	os.MkdirAll(dir+"/template/page", 0o755)
	// what is really on disk (the spec side decides existence of a partial by membership in this set)
	root := filepath.Join(dir, "template", "page")
	tree := []string{}
	onDisk := map[string]bool{}
	if err := filepath.Walk(root, func(p string, info os.FileInfo, err error) error {
		if err != nil {
			return err
		}
		if !info.IsDir() && strings.HasSuffix(p, ".ast.json") {
			rel := filepath.ToSlash(strings.TrimPrefix(p, root+string(filepath.Separator)))
			name := strings.TrimSuffix(rel, ".ast.json")
			tree = append(tree, hx(name))
			onDisk[name] = true
		}
		return nil
	}); err != nil {
		return obs, err
	}
	if _, err := c17Build(c.Data); err != nil {
		return obs, err
	}
	for _, op := range c.Prep {
		if len(op.Data) > 0 {
			if _, err := c17Build(op.Data); err != nil {
				return obs, err
			}
		}
		switch op.Op {
		case "load", "debugctl", "render", "partials":
		default:
			return obs, fmt.Errorf("bad prep op %q", op.Op)
		}
	}
	tname := unhx(c.Template)

	// the engine under test
	out, died, msg, err := c17Spawn(self, c17Job{Dir: dir, Case: c, Mode: "test", Short: c17RunStalled.Load()})
	if err != nil {
		return obs, err
	}
	obs = out.Obs
	if died {
		obs = c17Obs{Class: "crash", NilMap: true, Prep: []string{}, Msg: msg}
	}
	if obs.Stalled {
		c17RunStalled.Store(true)
	}
	obs.Tree = tree
	obs.Procs = 1
	rest := map[string]renderResult{}
	for _, a := range obs.Alone {
		rest[a.Name] = a.Res
	}
	obs.Alone = []c17AloneObs{}

	// the reference: every distinct requested name alone
	seen := map[string]bool{}
	for _, p := range c.Partials {
		if seen[p] {
			continue
		}
		seen[p] = true
		if !onDisk[tname+".partial/"+unhx(p)] {
			r, ok := rest[p]
			if !ok {
				r = renderResult{Class: "crash"}
			}
			obs.Alone = append(obs.Alone, c17AloneObs{Name: p, Res: r})
			continue
		}
		out, died, _, err := c17Spawn(self, c17Job{Dir: dir, Case: c, Mode: "ref", Name: p})
		if err != nil {
			return obs, err
		}
		obs.Procs++
		if died {
			out.Res = renderResult{Class: "crash"}
		}
		obs.Alone = append(obs.Alone, c17AloneObs{Name: p, Res: out.Res})
	}
	return obs, nil
}

func c17DebugCtl(e *pugjs.Engine, ctx context.Context, tpl string) (cls string) {
	defer func() {
		if r := recover(); r != nil {
			cls = clsPanic // "tpl not found" and everything else the controller panics with
		}
	}()
	req, err := http.NewRequest(http.MethodGet, "/_pugtpl/debug?"+url.Values{"tpl": {tpl}}.Encode(), nil)
	if err != nil {
		return clsErr
	}
	dc := &pugtemplate.DebugController{Engine: e}
	if res := dc.Get(ctx, web.CreateRequest(req, nil)); res == nil {
		return clsErr
	}
	return clsOK
}

// c17Child: one process, one job.
func c17Child(job c17Job) (out c17JobOut, err error) {
	c, dir := job.Case, job.Dir
	fresh := func() interface{} { // a new copy of the data for every call
		d, _ := c17Build(c.Data)
		return d
	}
	ctx := context.Background()
	tname := unhx(c.Template)

	if job.Mode == "ref" {
		// a preloaded engine (same debug mode: debug changes how templates are compiled), one name alone
		ref := newEngine(dir, c.Debug, 0, c17Funcs())
		if cls, msg := safeLoad(ref, ""); cls != clsOK {
			return out, fmt.Errorf("load failed: %s %s", cls, msg)
		}
		out.Res = safeRender(ref, ctx, tname+".partial/"+unhx(job.Name), fresh())
		return out, nil
	}

	// engine under test: its history, then the judged call.  One goroutine, so no call ever has to
	// wait for a render slot of the rate limiter; every call gets its own context with a generous
	// deadline (c17Deadline), so that an engine that does wait (a slot that was never given back) is
	// observed as an error of that call instead of a harness that hangs.  After the first expired
	// deadline of a harness run (which already is an alarm) the remaining calls of the run get
	// c17DeadlineAfterStall: bounds the cost of a tree whose engine keeps waiting.
	obs := &out.Obs
	e := newEngine(dir, c.Debug, c.Limit, c17Funcs())
	obs.Prep = []string{}
	stalled := job.Short
	call := func(f func(ctx context.Context)) {
		d := c17Deadline
		if stalled {
			d = c17DeadlineAfterStall
		}
		cctx, cancel := context.WithTimeout(ctx, d)
		defer cancel()
		f(cctx)
		if cctx.Err() != nil {
			obs.Stalled, stalled = true, true
		}
	}
	for _, op := range c.Prep {
		fresh := fresh
		if len(op.Data) > 0 {
			raw := op.Data
			fresh = func() interface{} {
				d, _ := c17Build(raw)
				return d
			}
		}
		switch op.Op {
		case "load":
			cls, _ := safeLoad(e, unhx(op.Filter))
			obs.Prep = append(obs.Prep, cls)
		case "debugctl":
			obs.Prep = append(obs.Prep, c17DebugCtl(e, ctx, unhx(op.Filter)))
		case "render":
			call(func(ctx context.Context) {
				obs.Prep = append(obs.Prep, safeRender(e, ctx, unhx(op.Name), fresh()).Class)
			})
		case "partials":
			t := tname
			if op.T != nil {
				t = unhx(*op.T)
			}
			call(func(ctx context.Context) {
				cls, _, _ := c17Partials(e, ctx, t, fresh(), unhxAll(op.Names))
				obs.Prep = append(obs.Prep, cls)
			})
		}
	}
	if c.Gone != nil {
		c17GoneCall(e, c, tname, fresh, obs)
	} else {
		call(func(ctx context.Context) {
			obs.Class, obs.NilMap, obs.Entries = c17Partials(e, ctx, tname, fresh(), unhxAll(c.Partials))
		})
	}

	// for the record only (after the judged call, on another engine): requested names that are no files
	var ref *pugjs.Engine
	seen := map[string]bool{}
	for _, p := range c.Partials {
		name := tname + ".partial/" + unhx(p)
		if _, isFile := c.Files[hx(name)]; isFile || seen[p] {
			continue
		}
		seen[p] = true
		if ref == nil {
			ref = newEngine(dir, c.Debug, 0, c17Funcs())
			if cls, msg := safeLoad(ref, ""); cls != clsOK {
				return out, fmt.Errorf("load failed: %s %s", cls, msg)
			}
		}
		obs.Alone = append(obs.Alone, c17AloneObs{Name: p, Res: safeRender(ref, ctx, name, fresh())})
	}
	return out, nil
}

// c17GoneCall: the judged call of a case whose request goes away (see c17Gone).
func c17GoneCall(e *pugjs.Engine, c c17Case, tname string, fresh func() interface{}, obs *c17Obs) {
	g := c.Gone
	// the other renders: one after the other into Engine.Render, each stays inside c17hold()
	release := make(chan struct{})
	var entered, returned int32
	c17Hold = func() {
		atomic.AddInt32(&entered, 1)
		<-release
	}
	var hwg sync.WaitGroup
	for i := 0; i < g.Holders; i++ {
		hwg.Add(1)
		go func() {
			defer hwg.Done()
			defer atomic.AddInt32(&returned, 1)
			safeRender(e, context.Background(), "c17holder", fresh())
		}()
		for t0 := time.Now(); int(atomic.LoadInt32(&entered)+atomic.LoadInt32(&returned)) <= i && time.Since(t0) < 20*time.Second; {
			time.Sleep(200 * time.Microsecond)
		}
	}
	obs.Held = int(atomic.LoadInt32(&entered))

	after := time.Duration(g.AfterMs) * time.Millisecond
	var cctx context.Context
	var cancel context.CancelFunc
	switch {
	case g.How == "deadline" && g.At < 0:
		cctx, cancel = context.WithDeadline(context.Background(), time.Now().Add(-time.Second))
	case g.How == "deadline":
		cctx, cancel = context.WithTimeout(context.Background(), after)
	default:
		cctx, cancel = context.WithCancel(context.Background())
		if g.At < 0 {
			cancel()
		} else {
			tm := time.AfterFunc(after, cancel)
			defer tm.Stop()
		}
	}
	defer cancel()
	ticks := 0 // only touched by the goroutine of the judged call (templates run in the caller's goroutine)
	c17Tick = func() {
		if ticks == g.At {
			if g.How != "deadline" {
				cancel()
			}
			<-cctx.Done()
		}
		ticks++
	}
	done := make(chan struct{})
	go func() {
		defer close(done)
		obs.Class, obs.NilMap, obs.Entries = c17Partials(e, cctx, tname, fresh(), unhxAll(c.Partials))
	}()
	hang := false
	select {
	case <-done:
	case <-time.After(30 * time.Second):
		hang = true // the context has been over for half a minute and the call is still not back
	}
	close(release)
	<-done
	hwg.Wait()
	c17Tick, c17Hold = nil, nil
	if hang {
		obs.Class, obs.NilMap, obs.Entries = "hang", false, nil
	}
}
