package main

import (
	"context"
	"encoding/json"
	"fmt"
	"io"
	"os"
	"path/filepath"
	"sort"
	"strings"
	"time"

	"flamingo.me/pugtemplate/pugjs"
)

// C17: RenderPartials vs Render of each partial alone.
//
// Two engines over the same template tree:
//   - the engine UNDER TEST receives the history `prep` (possibly empty: a fresh engine on which
//     neither LoadTemplates nor Render has run) and then the RenderPartials call that is judged;
//   - the REFERENCE engine is a separate, preloaded, non-debug engine; every name of `universe` is
//     rendered on it alone by Engine.Render.
// The template name of the request and the requested partial names are arbitrary strings (also ones
// written with path syntax: trailing slashes, "./", "..", doubled slashes, other case); they are handed
// to the engine verbatim, the file tree itself only has clean relative paths.
// Every call (reference renders, prep operations, the judged call) gets its own freshly built copy of
// the data, as ordinary Go values (maps / slices / strings / numbers), so "the same data" means the
// same value, never the same object.
type c17Case struct {
	Files    map[string]string `json:"files"` // path below template/page (without .ast.json) -> AST json
	Template string            `json:"template"`
	Partials []string          `json:"partials"`
	Universe []string          `json:"universe"` // partial names to render alone
	Data     json.RawMessage   `json:"data"`     // c17Val (must be a map at the top)
	Prep     []c17Op           `json:"prep"`     // history of the engine under test before the judged call
	Debug    bool              `json:"debug"`    // engine under test runs in debug mode (compiles on demand)
	Limit    int               `json:"limit"`    // rate limit of the engine under test (0 = off)
}

// c17Op is one earlier call on the engine under test.
//   load              LoadTemplates("")
//   render  name      Engine.Render(name) (full template name), fresh data
//   partials names    Engine.RenderPartials(t or the case's template, names), fresh data, result drained
// An earlier call may come with its own data (another request), else it gets a copy of the case's data.
type c17Op struct {
	Op    string   `json:"op"`
	Name  string   `json:"name,omitempty"`  // hex
	Names []string `json:"names,omitempty"` // hex
	T     *string  `json:"t,omitempty"`     // hex: template name of an earlier RenderPartials (default: the case's)
	// Data, when present, is the data of this earlier call (another request's data); otherwise the case's data
	Data json.RawMessage `json:"data,omitempty"`
}

// c17Val: typed data.  t = nil | bool | int | str | arr | map | strs ([]string) | strmap (map[string]string)
type c17Val struct {
	T string          `json:"t"`
	V json.RawMessage `json:"v"`
}

func c17Build(raw json.RawMessage) (interface{}, error) {
	var tv c17Val
	if err := json.Unmarshal(raw, &tv); err != nil {
		return nil, err
	}
	switch tv.T {
	case "nil":
		return nil, nil
	case "bool":
		var b bool
		err := json.Unmarshal(tv.V, &b)
		return b, err
	case "int":
		var n int64
		err := json.Unmarshal(tv.V, &n)
		return int(n), err
	case "str":
		var s string
		err := json.Unmarshal(tv.V, &s)
		return unhx(s), err
	case "strs":
		var l []string
		if err := json.Unmarshal(tv.V, &l); err != nil {
			return nil, err
		}
		res := make([]string, len(l))
		for i, s := range l {
			res[i] = unhx(s)
		}
		return res, nil
	case "arr":
		var l []json.RawMessage
		if err := json.Unmarshal(tv.V, &l); err != nil {
			return nil, err
		}
		res := make([]interface{}, len(l))
		for i, x := range l {
			v, err := c17Build(x)
			if err != nil {
				return nil, err
			}
			res[i] = v
		}
		return res, nil
	case "strmap":
		var l [][2]string
		if err := json.Unmarshal(tv.V, &l); err != nil {
			return nil, err
		}
		res := make(map[string]string, len(l))
		for _, kv := range l {
			res[unhx(kv[0])] = unhx(kv[1])
		}
		return res, nil
	case "map":
		var l [][2]json.RawMessage
		if err := json.Unmarshal(tv.V, &l); err != nil {
			return nil, err
		}
		res := make(map[string]interface{}, len(l))
		for _, kv := range l {
			var k string
			if err := json.Unmarshal(kv[0], &k); err != nil {
				return nil, err
			}
			v, err := c17Build(kv[1])
			if err != nil {
				return nil, err
			}
			res[unhx(k)] = v
		}
		return res, nil
	}
	return nil, fmt.Errorf("bad data tag %q", tv.T)
}

type c17Entry struct {
	Key string `json:"key"` // hex
	Out string `json:"out"` // hex
}

type c17Obs struct {
	Tree    []string      `json:"tree"`    // hex: every file <name>.ast.json found below template/page, as <name>
	Alone   []c17AloneObs `json:"alone"`   // reference engine
	Prep    []string      `json:"prep"`    // outcome class of every prep operation (diagnostic)
	Class   string        `json:"class"`   // ok | error | exec_panic
	Stalled bool          `json:"stalled"` // some call on the engine under test was still waiting when its deadline expired
	NilMap  bool          `json:"nil_map"` // result map is nil
	Entries []c17Entry    `json:"entries"`
}

type c17AloneObs struct {
	Name string       `json:"name"` // hex
	Res  renderResult `json:"res"`
}

// deadlines of the calls on the engine under test (a render of these templates takes milliseconds)
const (
	c17Deadline           = 5 * time.Second
	c17DeadlineAfterStall = 300 * time.Millisecond
)

var c17RunStalled bool

func init() {
	runners["C17"] = func(in json.RawMessage) (interface{}, error) {
		var cases []c17Case
		if err := json.Unmarshal(in, &cases); err != nil {
			return nil, err
		}
		out := make([]c17Obs, len(cases))
		for i, c := range cases {
			o, err := runC17(c)
			if err != nil {
				return nil, fmt.Errorf("case %d: %w", i, err)
			}
			out[i] = o
		}
		return out, nil
	}
}

// c17Partials calls RenderPartials, recovers panics and drains the readers (sorted by key).
func c17Partials(e *pugjs.Engine, ctx context.Context, tname string, data interface{}, ps []string) (class string, nilMap bool, entries []c17Entry) {
	nilMap = true
	defer func() {
		if r := recover(); r != nil {
			class, nilMap, entries = clsPanic, true, nil
		}
	}()
	m, err := e.RenderPartials(ctx, tname, data, ps)
	nilMap = m == nil
	if err != nil {
		class = clsErr
	} else {
		class = clsOK
	}
	keys := make([]string, 0, len(m))
	for k := range m {
		keys = append(keys, k)
	}
	sort.Strings(keys)
	for _, k := range keys {
		b, _ := io.ReadAll(m[k])
		entries = append(entries, c17Entry{Key: hx(k), Out: hx(string(b))})
	}
	return class, nilMap, entries
}

func unhxAll(l []string) []string {
	res := make([]string, len(l))
	for i, p := range l {
		res[i] = unhx(p)
	}
	return res
}

func runC17(c c17Case) (obs c17Obs, err error) {
	dir, err := os.MkdirTemp("", "pv17")
	if err != nil {
		return obs, err
	}
	defer os.RemoveAll(dir)
	files := map[string]string{}
	for p, ast := range c.Files {
		files["template/page/"+unhx(p)+".ast.json"] = unhx(ast)
	}
	if err := writeTree(dir, files); err != nil {
		return obs, err
	}
	os.MkdirAll(dir+"/template/page", 0o755)
	// what is really on disk (the spec side decides existence of a partial by membership in this set)
	root := filepath.Join(dir, "template", "page")
	obs.Tree = []string{}
	if err := filepath.Walk(root, func(p string, info os.FileInfo, err error) error {
		if err != nil {
			return err
		}
		if !info.IsDir() && strings.HasSuffix(p, ".ast.json") {
			rel := filepath.ToSlash(strings.TrimPrefix(p, root+string(filepath.Separator)))
			obs.Tree = append(obs.Tree, hx(strings.TrimSuffix(rel, ".ast.json")))
		}
		return nil
	}); err != nil {
		return obs, err
	}
	if _, err := c17Build(c.Data); err != nil {
		return obs, err
	}
	fresh := func() interface{} { // a new copy of the data for every call
		d, _ := c17Build(c.Data)
		return d
	}
	ctx := context.Background()
	tname := unhx(c.Template)

	// reference: a separate preloaded engine (same debug mode: debug changes how templates are compiled),
	// every name alone, fresh data each time
	ref := newEngine(dir, c.Debug, 0, nil)
	if cls, msg := safeLoad(ref, ""); cls != clsOK {
		return obs, fmt.Errorf("load failed: %s %s", cls, msg)
	}
	for _, u := range c.Universe {
		r := safeRender(ref, ctx, tname+".partial/"+unhx(u), fresh())
		obs.Alone = append(obs.Alone, c17AloneObs{Name: u, Res: r})
	}

	// engine under test: its history, then the judged call.  One goroutine, so no call ever has to
	// wait for a render slot of the rate limiter; every call gets its own context with a generous
	// deadline (c17Deadline), so that an engine that does wait (a slot that was never given back) is
	// observed as an error of that call instead of a harness that hangs.  After the first expired
	// deadline of a harness run (which already is an alarm) the remaining calls of the run get
	// c17DeadlineAfterStall: bounds the cost of a tree whose engine keeps waiting.
	e := newEngine(dir, c.Debug, c.Limit, nil)
	obs.Prep = []string{}
	call := func(f func(ctx context.Context)) {
		d := c17Deadline
		if c17RunStalled {
			d = c17DeadlineAfterStall
		}
		cctx, cancel := context.WithTimeout(ctx, d)
		defer cancel()
		f(cctx)
		if cctx.Err() != nil {
			obs.Stalled, c17RunStalled = true, true
		}
	}
	for _, op := range c.Prep {
		fresh := fresh
		if len(op.Data) > 0 {
			raw := op.Data
			if _, err := c17Build(raw); err != nil {
				return obs, err
			}
			fresh = func() interface{} {
				d, _ := c17Build(raw)
				return d
			}
		}
		switch op.Op {
		case "load":
			cls, _ := safeLoad(e, "")
			obs.Prep = append(obs.Prep, cls)
		case "render":
			call(func(ctx context.Context) {
				obs.Prep = append(obs.Prep, safeRender(e, ctx, unhx(op.Name), fresh()).Class)
			})
		case "partials":
			t := tname
			if op.T != nil {
				t = unhx(*op.T)
			}
			call(func(ctx context.Context) {
				cls, _, _ := c17Partials(e, ctx, t, fresh(), unhxAll(op.Names))
				obs.Prep = append(obs.Prep, cls)
			})
		default:
			return obs, fmt.Errorf("bad prep op %q", op.Op)
		}
	}
	call(func(ctx context.Context) {
		obs.Class, obs.NilMap, obs.Entries = c17Partials(e, ctx, tname, fresh(), unhxAll(c.Partials))
	})
	return obs, nil
}
