package main

import (
	"context"
	"encoding/json"
	"fmt"
	"io"
	"os"
	"sort"
)

// C17: RenderPartials vs Render of each partial alone.
type c17Case struct {
	Files    map[string]string `json:"files"` // path below template/page (without .ast.json) -> AST json
	Template string            `json:"template"`
	Partials []string          `json:"partials"`
	Universe []string          `json:"universe"` // partial names to render alone
	Data     map[string]string `json:"data"`
}

type c17Entry struct {
	Key string `json:"key"` // hex
	Out string `json:"out"` // hex
}

type c17Obs struct {
	Alone   []c17AloneObs `json:"alone"`
	Class   string        `json:"class"`   // ok | error | exec_panic
	NilMap  bool          `json:"nil_map"` // result map is nil
	Entries []c17Entry    `json:"entries"`
}

type c17AloneObs struct {
	Name string       `json:"name"` // hex
	Res  renderResult `json:"res"`
}

func init() {
	runners["C17"] = func(in json.RawMessage) (interface{}, error) {
		var cases []c17Case
		if err := json.Unmarshal(in, &cases); err != nil {
			return nil, err
		}
		out := make([]c17Obs, len(cases))
		for i, c := range cases {
			o, err := runC17(c)
			if err != nil {
				return nil, fmt.Errorf("case %d: %w", i, err)
			}
			out[i] = o
		}
		return out, nil
	}
}

func runC17(c c17Case) (obs c17Obs, err error) {
	dir, err := os.MkdirTemp("", "pv17")
	if err != nil {
		return obs, err
	}
	defer os.RemoveAll(dir)
	files := map[string]string{}
	for p, ast := range c.Files {
		files["template/page/"+unhx(p)+".ast.json"] = unhx(ast)
	}
	if err := writeTree(dir, files); err != nil {
		return obs, err
	}
	os.MkdirAll(dir+"/template/page", 0o755)
	data := map[string]interface{}{}
	for k, v := range c.Data {
		data[k] = unhx(v)
	}
	e := newEngine(dir, false, 0, nil)
	if cls, msg := safeLoad(e, ""); cls != clsOK {
		return obs, fmt.Errorf("load failed: %s %s", cls, msg)
	}
	ctx := context.Background()
	tname := unhx(c.Template)
	for _, u := range c.Universe {
		r := safeRender(e, ctx, tname+".partial/"+unhx(u), data)
		obs.Alone = append(obs.Alone, c17AloneObs{Name: u, Res: r})
	}
	ps := make([]string, len(c.Partials))
	for i, p := range c.Partials {
		ps[i] = unhx(p)
	}
	func() {
		defer func() {
			if r := recover(); r != nil {
				obs.Class = clsPanic
			}
		}()
		m, err := e.RenderPartials(ctx, tname, data, ps)
		obs.NilMap = m == nil
		if err != nil {
			obs.Class = clsErr
		} else {
			obs.Class = clsOK
		}
		keys := make([]string, 0, len(m))
		for k := range m {
			keys = append(keys, k)
		}
		sort.Strings(keys)
		for _, k := range keys {
			b, _ := io.ReadAll(m[k])
			obs.Entries = append(obs.Entries, c17Entry{Key: hx(k), Out: hx(string(b))})
		}
	}()
	return obs, nil
}
