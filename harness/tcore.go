package main

import (
	"context"
	"encoding/json"
	"fmt"
	"io"
	"os"

	"flamingo.me/pugtemplate/pugjs"
)

// TC: one template tree, rendered with several data values, in production and (optionally) debug mode.
// Every render uses a fresh engine, so results do not depend on each other.  Render returns an io.Reader:
// the readers of one case are read only after ALL its renders have been made (a caller may keep a result
// while it renders something else; what it reads later must still be that render's output).
type tcCase struct {
	Files  map[string]string `json:"files"` // hex name -> hex AST json
	Render string            `json:"render"`
	Datas  []json.RawMessage `json:"datas"`
	Debug  bool              `json:"debug"` // also load and render in debug mode
}

type tcMode struct {
	Load    string         `json:"load"`
	LoadMsg string         `json:"load_msg,omitempty"`
	Code    string         `json:"code"`
	Res     []renderResult `json:"res"`
}

type tcObs struct {
	Prod  tcMode  `json:"prod"`
	Debug *tcMode `json:"debug,omitempty"`
}

func runTCMode(c tcCase, debug bool) (m tcMode, err error) {
	dir, err := os.MkdirTemp("", "pvTC")
	if err != nil {
		return m, err
	}
	defer os.RemoveAll(dir)
	files := map[string]string{}
	for p, a := range c.Files {
		files["template/page/"+unhx(p)+".ast.json"] = unhx(a)
	}
	if err := writeTree(dir, files); err != nil {
		return m, err
	}
	name := unhx(c.Render)
	var pending []io.Reader
	defer func() {
		for i, rd := range pending {
			if rd != nil && i < len(m.Res) && m.Res[i].Class == clsOK {
				b, _ := io.ReadAll(rd)
				m.Res[i].Out = hx(string(b))
			}
		}
	}()
	for _, raw := range c.Datas {
		data, err := buildData(raw)
		if err != nil {
			return m, err
		}
		e := newEngine(dir, debug, 0, nil)
		if debug {
			m.Load, m.LoadMsg = safeLoad(e, name)
		} else {
			m.Load, m.LoadMsg = safeLoad(e, "")
		}
		if m.Load != clsOK {
			return m, nil
		}
		m.Code = hx(e.TemplateCode[name])
		res, rd := renderKeep(e, context.Background(), name, data)
		m.Res = append(m.Res, res)
		pending = append(pending, rd)
	}
	return m, nil
}

// renderKeep renders and hands the reader back unread.
func renderKeep(e *pugjs.Engine, ctx context.Context, name string, data interface{}) (res renderResult, rd io.Reader) {
	defer func() {
		if r := recover(); r != nil {
			res, rd = renderResult{Class: clsPanic, Err: fmt.Sprint(r)}, nil
		}
	}()
	r, err := e.Render(ctx, name, data)
	if err != nil {
		return renderResult{Class: classifyErr(err), Err: err.Error()}, nil
	}
	return renderResult{Class: clsOK}, r
}

func init() {
	runners["TC"] = func(in json.RawMessage) (interface{}, error) {
		var cases []tcCase
		if err := json.Unmarshal(in, &cases); err != nil {
			return nil, err
		}
		out := make([]tcObs, len(cases))
		for i, c := range cases {
			p, err := runTCMode(c, false)
			if err != nil {
				return nil, fmt.Errorf("case %d: %w", i, err)
			}
			out[i].Prod = p
			if c.Debug {
				d, err := runTCMode(c, true)
				if err != nil {
					return nil, fmt.Errorf("case %d (debug): %w", i, err)
				}
				out[i].Debug = &d
			}
		}
		return out, nil
	}
}
