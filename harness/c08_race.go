//go:build race

package main

// raceEnabled: this binary was built with the Go race detector (-race).
const raceEnabled = true
