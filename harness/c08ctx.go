package main

import (
	"context"
	"reflect"
	"runtime"
	"sync"
	"time"

	"flamingo.me/flamingo/v3/framework/flamingo"
)

// C08, the context half of "each with its own data".
//
// A Render call is (template, data, ctx).  The context reaches the template through the
// context-aware template functions of Engine.FuncProvider: flamingo.TemplateFunc.Func(ctx) is
// asked for the function to call, with the context of the render that calls it.  The functions
// below answer from a value carried by the context (a user, a number, a small string table,
// whether the context is already over), so the output of a render depends on ITS context, and
// they are the places where the harness staggers concurrent renders on purpose: every provider
// ("bind") and every bound function ("call") is a stagger point, and so is the moment between
// Render returning its reader and the caller reading it ("read").
//
// Stagger points never change what a correct engine returns; they only decide which
// interleavings happen.  All waiting is bounded (c08HoldMax per hold, released early as soon as
// the awaited progress of OTHER renders has happened or nobody is left who could make it), so
// timing can make a run slower, never wrong.

type c08CtxSpec struct {
	User string      `json:"user"` // hex
	Num  int         `json:"num"`
	KV   [][2]string `json:"kv"`   // hex key, hex value
	Over bool        `json:"over"` // the context is already cancelled when Render is called
}

type c08Key struct{}

// c08Script is the value one call's context carries.
type c08Script struct {
	user string
	num  int
	kv   map[string]string
	meet *c08Meet // nil: rendered alone, no staggering
	seed uint64   // this call's stagger plan

	// guarded by meet.mu (a function bound to this script may be called by a foreign
	// goroutine if the engine mixes renders up)
	step    uint64
	entered bool
}

var c08NoScript = &c08Script{user: "?"}

func c08ScriptOf(ctx context.Context) *c08Script {
	if ctx != nil {
		if s, ok := ctx.Value(c08Key{}).(*c08Script); ok && s != nil {
			return s
		}
	}
	return c08NoScript
}

// c08Context builds the context of ONE call: a fresh context value per call, also when two
// calls name the same job.
func c08Context(spec c08CtxSpec, meet *c08Meet, seed uint64) (context.Context, *c08Script) {
	s := &c08Script{user: unhx(spec.User), num: spec.Num, kv: map[string]string{}, meet: meet, seed: seed}
	for _, kv := range spec.KV {
		s.kv[unhx(kv[0])] = unhx(kv[1])
	}
	ctx := context.WithValue(context.Background(), c08Key{}, s)
	if spec.Over {
		c, cancel := context.WithCancel(ctx)
		cancel()
		ctx = c
	}
	return ctx, s
}

// ------------------------------------------------------------------ the meeting of one round

const c08HoldMax = 2 * time.Millisecond

type c08Wait struct {
	target uint64
	ch     chan struct{}
}

type c08StaggerStats struct {
	Points    int `json:"points"`     // stagger points passed
	Holds     int `json:"holds"`      // points at which a render waited for the others
	Released  int `json:"released"`   // holds ended because the others made the awaited progress
	Timeouts  int `json:"timeouts"`   // holds ended by the bound
	MaxInside int `json:"max_inside"` // most renders seen between their first point and their return at once
}

type c08Meet struct {
	mu       sync.Mutex
	progress uint64 // stagger points passed by all renders of the round
	inside   int    // renders that passed a point and have not been read yet
	waiters  map[*c08Wait]struct{}
	st       c08StaggerStats
}

func newC08Meet() *c08Meet { return &c08Meet{waiters: map[*c08Wait]struct{}{}} }

func c08mix(x uint64) uint64 {
	x += 0x9e3779b97f4a7c15
	x = (x ^ (x >> 30)) * 0xbf58476d1ce4e5b9
	x = (x ^ (x >> 27)) * 0x94d049bb133111eb
	return x ^ (x >> 31)
}

const (
	c08Pass = iota
	c08Yield
	c08Hold
)

// plan: what this call does at its n-th stagger point (a pure function of the case).
func (s *c08Script) plan(n uint64, kind string) (act int, arg uint64) {
	if s.seed == 0 {
		return c08Pass, 0
	}
	h := c08mix(s.seed ^ c08mix(n))
	steps := []uint64{1, 1, 2, 2, 3, 5, 8, 13}
	arg = steps[(h>>16)%uint64(len(steps))]
	p := h % 100
	hold, yield := uint64(30), uint64(20)
	switch kind {
	case "bind": // inside a provider: the engine is in the middle of resolving a function
		hold = 40
	case "read": // the caller holds the reader of a finished render
		hold = 60
	}
	switch {
	case p < hold:
		return c08Hold, arg
	case p < hold+yield:
		return c08Yield, 0
	}
	return c08Pass, 0
}

// wake releases the waiters whose awaited progress has happened (mu held).
func (m *c08Meet) wake() {
	for w := range m.waiters {
		if m.progress >= w.target {
			delete(m.waiters, w)
			m.st.Released++
			close(w.ch)
		}
	}
}

// wakeOne releases the waiter closest to its target (mu held): nobody is left to make progress.
func (m *c08Meet) wakeOne() {
	var best *c08Wait
	for w := range m.waiters {
		if best == nil || w.target < best.target {
			best = w
		}
	}
	if best != nil {
		delete(m.waiters, best)
		m.st.Released++
		close(best.ch)
	}
}

// point is one stagger point of the call that owns s.
func (s *c08Script) point(kind string) {
	m := s.meet
	if m == nil {
		return
	}
	m.mu.Lock()
	s.step++
	act, arg := s.plan(s.step, kind)
	if !s.entered {
		s.entered = true
		m.inside++
		if m.inside > m.st.MaxInside {
			m.st.MaxInside = m.inside
		}
	}
	m.progress++
	m.st.Points++
	m.wake()
	var w *c08Wait
	if act == c08Hold && m.inside-len(m.waiters) > 1 { // somebody else is running and can make the progress
		w = &c08Wait{target: m.progress + arg, ch: make(chan struct{})}
		m.waiters[w] = struct{}{}
		m.st.Holds++
	}
	m.mu.Unlock()
	switch {
	case w != nil:
		t := time.NewTimer(c08HoldMax)
		select {
		case <-w.ch:
			t.Stop()
		case <-t.C:
			m.mu.Lock()
			if _, still := m.waiters[w]; still {
				delete(m.waiters, w)
				m.st.Timeouts++
			}
			m.mu.Unlock()
		}
	case act == c08Yield:
		runtime.Gosched()
	}
}

// leave: the call's result has been read.
func (s *c08Script) leave() {
	m := s.meet
	if m == nil {
		return
	}
	m.mu.Lock()
	if s.entered {
		s.entered = false
		m.inside--
	}
	if len(m.waiters) > 0 && m.inside-len(m.waiters) <= 0 {
		m.wakeOne()
	}
	m.mu.Unlock()
}

// ------------------------------------------------------------------ the template functions

// c08Func is a context-aware template function: Func(ctx) is what pugjs calls with the context
// of the render that uses the function.
type c08Func struct{ name string }

// c08Req is an object-valued function result (used like Math: Req.user(), Req.plus(x)).
type c08Req struct{ s *c08Script }

func (r c08Req) User() string { r.s.point("call"); return r.s.user }

func (r c08Req) Plus(x interface{}) int { r.s.point("call"); return r.s.num + c08Int(x) }

func c08Int(x interface{}) int {
	v := reflect.ValueOf(x)
	switch v.Kind() {
	case reflect.Int, reflect.Int8, reflect.Int16, reflect.Int32, reflect.Int64:
		return int(v.Int())
	case reflect.Float32, reflect.Float64:
		return int(v.Float())
	}
	return 0
}

func (f c08Func) Func(ctx context.Context) interface{} {
	s := c08ScriptOf(ctx)
	s.point("bind")
	switch f.name {
	case "who":
		return func() string { s.point("call"); return s.user }
	case "cnum":
		return func(x interface{}) int { s.point("call"); return s.num + c08Int(x) }
	case "cget":
		return func(k string) string { s.point("call"); return s.kv[k] }
	case "alive":
		return func() string {
			s.point("call")
			if ctx.Err() != nil {
				return "over"
			}
			return "live"
		}
	case "Req":
		return func() c08Req { return c08Req{s} }
	}
	// "meet": nothing but a stagger point
	return func() string { s.point("call"); return "" }
}

func c08Funcs() map[string]flamingo.TemplateFunc {
	m := map[string]flamingo.TemplateFunc{}
	for _, n := range []string{"who", "cnum", "cget", "alive", "Req", "meet"} {
		m[n] = c08Func{n}
	}
	return m
}
