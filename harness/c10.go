package main

import (
	"context"
	"encoding/json"
	"fmt"
	"io"
	"os"
	"path/filepath"
	"runtime"
	"strconv"
	"strings"
	"sync"
	"time"

	"flamingo.me/pugtemplate/pugjs"
)

// C10: template loading.  One case = one real Engine over a generated directory
// and a SCHEDULE.  Every call (Engine.Render or Engine.LoadTemplates) is a
// thread = one goroutine.  The engine's yield points (pugjs.VerifHook, build
// tag verif) park the calling goroutine; the controller releases exactly one
// thread per schedule step and waits until that thread parks again or returns,
// so exactly one goroutine of the case runs at any time and the interleaving
// is the one the case says.  File edits happen between steps, while every
// goroutine is parked.  A sequential history is a schedule that runs each
// thread to completion before the next one starts.
//
// A released thread that neither parks nor returns within the bound (it waits
// for a lock somebody parked holds) is reported as its own class "stuck"; the
// case is then abandoned: all hooks are opened and the goroutines run free.
//
// Nothing here judges anything.  Error texts are only mapped to a class.

type c10File struct {
	P string `json:"p"` // hex, path relative to basedir
	K string `json:"k"` // tpl | json | syntax | js | node | mixin | other
	M string `json:"m"` // hex marker (tpl) or raw content (other)
}

type c10Edit struct {
	A string `json:"a"` // write | rm | mkdir | rmpage | mkpage
	P string `json:"p,omitempty"`
	K string `json:"k,omitempty"`
	M string `json:"m,omitempty"`
}

type c10Op struct {
	O string `json:"o"` // render | load
	N string `json:"n"` // hex: template name / filter
}

type c10Ev struct {
	T *int      `json:"t,omitempty"` // step of thread t
	E []c10Edit `json:"e,omitempty"` // file edits
}

type c10Case struct {
	Debug  bool      `json:"debug"`
	NoPage bool      `json:"nopage"` // template/page does not exist at the start
	Files  []c10File `json:"files"`
	Ops    []c10Op   `json:"ops"`
	Sched  []c10Ev   `json:"sched"`
}

type c10Thread struct {
	Class string `json:"class"` // ok | loaded | not_found | load_error | load_panic | again | exec | stuck | unfinished
	Out   string `json:"out"`   // hex (render ok)
	Late  bool   `json:"late"`  // returned only after the schedule had ended (free run)
	Err   string `json:"err,omitempty"`
}

type c10Obs struct {
	Threads  []c10Thread `json:"threads"`
	Steps    []string    `json:"steps"` // per schedule event: check | locked | afterload | done | stuck | noop | edit
	Leftover int         `json:"leftover"`
}

const (
	c10Stuck      = 2000 * time.Millisecond // bound for one step (a step takes microseconds to a few ms)
	c10StuckShort = 300 * time.Millisecond  // after several stuck steps in the same run
	c10Drain      = 1500 * time.Millisecond
	c10DrainShort = 250 * time.Millisecond // same
)

var c10StuckSeen int

// ---- goroutine identity (the hook gets only the point name)

func goid() int64 {
	var buf [64]byte
	n := runtime.Stack(buf[:], false)
	// "goroutine 123 [running]:..."
	f := strings.Fields(string(buf[:n]))
	if len(f) < 2 {
		return -1
	}
	id, err := strconv.ParseInt(f[1], 10, 64)
	if err != nil {
		return -1
	}
	return id
}

type c10Thr struct {
	parked  chan string
	resume  chan struct{}
	done    chan c10Thread
	started bool
	fin     bool
	res     c10Thread
}

var (
	c10mu     sync.Mutex
	c10byGoid = map[int64]*c10Thr{}
	c10free   = map[*c10Thr]bool{} // hooks of these threads no longer park
)

func c10Hook(point string) {
	id := goid()
	c10mu.Lock()
	th := c10byGoid[id]
	free := th == nil || c10free[th]
	c10mu.Unlock()
	if free {
		return
	}
	th.parked <- point
	<-th.resume
}

func c10Content(k, m string) string {
	switch k {
	case "tpl":
		b, _ := json.Marshal(map[string]interface{}{"type": "Block", "nodes": []interface{}{
			map[string]interface{}{"type": "Text", "val": unhx(m)}}})
		return string(b)
	case "json": // broken JSON: error
		return `{"type":"Block","nodes":[`
	case "syntax": // the emitted template text does not parse (template-level syntax error): error
		return `{"type":"Block","nodes":[{"type":"Tag","name":"{{end}}","isInline":false,"selfClosing":false,"attrs":[],"attributeBlocks":[],"block":{"type":"Block","nodes":[]}}]}`
	case "mixin": // call of a mixin that is not defined: error in debug mode, empty output otherwise
		return `{"type":"Block","nodes":[{"type":"Mixin","name":"nomix","args":"","call":true,"attrs":[],"attributeBlocks":[],"block":null}]}`
	case "js": // malformed JavaScript in a snippet: panic
		return `{"type":"Block","nodes":[{"type":"Code","val":"a +","buffer":true,"mustEscape":true,"isInline":true}]}`
	case "node": // unknown node type: panic
		return `{"type":"Block","nodes":[{"type":"Bogus"}]}`
	}
	return unhx(m)
}

func c10Apply(dir string, eds []c10Edit) error {
	for _, e := range eds {
		switch e.A {
		case "write":
			full := filepath.Join(dir, unhx(e.P))
			if err := os.MkdirAll(filepath.Dir(full), 0o755); err != nil {
				return err
			}
			if err := os.WriteFile(full, []byte(c10Content(e.K, e.M)), 0o644); err != nil {
				return err
			}
		case "rm":
			if err := os.Remove(filepath.Join(dir, unhx(e.P))); err != nil {
				return err
			}
		case "mkdir":
			if err := os.MkdirAll(filepath.Join(dir, unhx(e.P)), 0o755); err != nil {
				return err
			}
		case "rmpage":
			if err := os.RemoveAll(filepath.Join(dir, "template", "page")); err != nil {
				return err
			}
		case "mkpage":
			if err := os.MkdirAll(filepath.Join(dir, "template", "page"), 0o755); err != nil {
				return err
			}
		default:
			return fmt.Errorf("unknown edit %q", e.A)
		}
	}
	return nil
}

func c10ClassifyErr(err error) string {
	s := err.Error()
	switch {
	case strings.Contains(s, "Can not preload"):
		return "again"
	case strings.HasPrefix(s, "Template ") && strings.HasSuffix(s, " not found!"):
		return "not_found"
	}
	return "load_error"
}

// one call of the exported API, every way out mapped to a class
func c10Call(e *pugjs.Engine, op c10Op) (res c10Thread) {
	name := unhx(op.N)
	if op.O == "load" {
		defer func() {
			if r := recover(); r != nil {
				res = c10Thread{Class: "load_panic", Err: fmt.Sprint(r)}
			}
		}()
		if err := e.LoadTemplates(name); err != nil {
			return c10Thread{Class: c10ClassifyErr(err), Err: err.Error()}
		}
		return c10Thread{Class: "loaded"}
	}
	// render: a panic before the lookup is a load that panicked (Render does not recover);
	// the templates used here cannot panic during execution
	defer func() {
		if r := recover(); r != nil {
			res = c10Thread{Class: "load_panic", Err: fmt.Sprint(r)}
		}
	}()
	rd, err := e.Render(context.Background(), name, map[string]interface{}{})
	if err != nil {
		return c10Thread{Class: c10ClassifyErr(err), Err: err.Error()}
	}
	b, _ := io.ReadAll(rd)
	return c10Thread{Class: "ok", Out: hx(string(b))}
}

func c10Point(p string) string {
	switch p {
	case "render:after-loaded-check":
		return "check"
	case "load:locked":
		return "locked"
	case "render:after-load":
		return "afterload"
	}
	return "point:" + p
}

func runC10(c c10Case) (obs c10Obs, err error) {
	dir, err := os.MkdirTemp("", "pv10")
	if err != nil {
		return obs, err
	}
	defer os.RemoveAll(dir)
	if !c.NoPage {
		if err := os.MkdirAll(filepath.Join(dir, "template", "page"), 0o755); err != nil {
			return obs, err
		}
	}
	init := make([]c10Edit, len(c.Files))
	for i, f := range c.Files {
		init[i] = c10Edit{A: "write", P: f.P, K: f.K, M: f.M}
	}
	if err := c10Apply(dir, init); err != nil {
		return obs, err
	}
	e := newEngine(dir, c.Debug, 0, nil)

	ths := make([]*c10Thr, len(c.Ops))
	for i := range ths {
		ths[i] = &c10Thr{parked: make(chan string), resume: make(chan struct{}), done: make(chan c10Thread, 1)}
	}
	var goids []int64
	var gm sync.Mutex
	start := func(i int) {
		th := ths[i]
		th.started = true
		go func() {
			id := goid()
			c10mu.Lock()
			c10byGoid[id] = th
			c10mu.Unlock()
			gm.Lock()
			goids = append(goids, id)
			gm.Unlock()
			th.done <- c10Call(e, c.Ops[i])
		}()
	}
	defer func() {
		c10mu.Lock()
		for _, id := range goids {
			delete(c10byGoid, id)
		}
		for _, th := range ths {
			delete(c10free, th)
		}
		c10mu.Unlock()
	}()

	parkedAt := make([]bool, len(ths)) // thread i sits in the hook waiting for resume
	abandoned := false
	for _, ev := range c.Sched {
		if ev.T == nil {
			if err := c10Apply(dir, ev.E); err != nil {
				return obs, err
			}
			obs.Steps = append(obs.Steps, "edit")
			continue
		}
		i := *ev.T
		if i < 0 || i >= len(ths) {
			return obs, fmt.Errorf("bad thread %d", i)
		}
		th := ths[i]
		if abandoned || th.fin {
			obs.Steps = append(obs.Steps, "noop")
			continue
		}
		if !th.started {
			start(i)
		} else if parkedAt[i] {
			parkedAt[i] = false
			th.resume <- struct{}{}
		} else {
			obs.Steps = append(obs.Steps, "noop")
			continue
		}
		bound := c10Stuck
		if c10StuckSeen >= 3 {
			bound = c10StuckShort
		}
		select {
		case p := <-th.parked:
			parkedAt[i] = true
			obs.Steps = append(obs.Steps, c10Point(p))
		case r := <-th.done:
			th.fin, th.res = true, r
			obs.Steps = append(obs.Steps, "done")
		case <-time.After(bound):
			c10StuckSeen++
			obs.Steps = append(obs.Steps, "stuck")
			th.res = c10Thread{Class: "stuck"}
			abandoned = true
		}
	}
	// end of schedule (or abandoned): open all hooks, collect what returns
	stuckIdx := -1
	for i, th := range ths {
		if th.res.Class == "stuck" {
			stuckIdx = i
		}
	}
	c10mu.Lock()
	for _, th := range ths {
		c10free[th] = true
	}
	c10mu.Unlock()
	for i, th := range ths {
		if parkedAt[i] {
			parkedAt[i] = false
			th.resume <- struct{}{}
		}
	}
	deadline := make(chan struct{})
	drain := c10Drain
	if c10StuckSeen >= 3 {
		drain = c10DrainShort
	}
	timer := time.AfterFunc(drain, func() { close(deadline) })
	defer timer.Stop()
	for i, th := range ths {
		if !th.started || th.fin {
			continue
		}
		select {
		case r := <-th.done:
			th.fin = true
			if i != stuckIdx {
				r.Late = true
				th.res = r
			}
		case p := <-th.parked: // raced with the opening of the hooks
			_ = p
			th.resume <- struct{}{}
			select {
			case r := <-th.done:
				th.fin = true
				if i != stuckIdx {
					r.Late = true
					th.res = r
				}
			case <-deadline:
				obs.Leftover++
			}
		case <-deadline:
			obs.Leftover++
			if i != stuckIdx {
				th.res = c10Thread{Class: "stuck", Late: true}
			}
		}
	}
	for _, th := range ths {
		r := th.res
		if r.Class == "" {
			r.Class = "unfinished" // never started by the schedule
		}
		if len(r.Err) > 200 {
			r.Err = r.Err[:200]
		}
		obs.Threads = append(obs.Threads, r)
	}
	return obs, nil
}

func init() {
	runners["C10"] = func(in json.RawMessage) (interface{}, error) {
		var cases []c10Case
		if err := json.Unmarshal(in, &cases); err != nil {
			return nil, err
		}
		pugjs.VerifHook = c10Hook
		defer func() { pugjs.VerifHook = nil }()
		out := make([]c10Obs, len(cases))
		for i, c := range cases {
			o, err := runC10(c)
			if err != nil {
				return nil, fmt.Errorf("case %d: %w", i, err)
			}
			out[i] = o
		}
		return out, nil
	}
}
