package main

import (
	"context"
	"encoding/json"
	"fmt"
	"io"
	"os"
	"path/filepath"
	"runtime"
	"strconv"
	"strings"
	"sync"
	"sync/atomic"
	"time"

	"flamingo.me/flamingo/v3/framework/flamingo"

	"flamingo.me/pugtemplate/pugjs"
)

// C10: template loading.  One case = one real Engine over a generated directory
// and a SCHEDULE.  Every call (Engine.Render or Engine.LoadTemplates) is a
// thread = one goroutine.  The engine's yield points (pugjs.VerifHook, build
// tag verif) park the calling goroutine; the controller releases exactly one
// thread per schedule step and waits until that thread parks again or returns,
// so exactly one goroutine of the case runs at any time and the interleaving
// is the one the case says.  File edits happen between steps, while every
// goroutine is parked.  A sequential history is a schedule that runs each
// thread to completion before the next one starts.
//
// A load is a long operation.  Besides the three yield points the harness owns
// a further, hook-free parking point INSIDE a running load: Engine.FuncProvider,
// which compileDir calls once per template file it is about to compile.  A
// "c" event releases a thread parked at "load:locked" or in FuncProvider and
// lets it run to its next FuncProvider call (observed point "compile") or to
// the end of the load; a "t" event lets it run to the next yield point.
//
// A released thread that neither parks nor returns within the bound (it waits
// for a lock somebody parked holds) is reported as its own class "stuck"; the
// case is then abandoned: all hooks are opened and the goroutines run free.
// When the event says that the generator EXPECTS the thread to block ("b":
// true) the bound is the short probe bound, the observation is "blocked", the
// thread stays in flight (it goes on by itself when the lock is released) and
// the case goes on; a later "t" event of that thread only waits for it.  A
// thread that is really blocked can never be seen parking or returning, so the
// probe has no false alarms; a thread that should block and does not is seen
// parking or returning within the probe bound.
//
// File edits can keep a file's size (padding), restore or fix its modification
// time (os.Chtimes), replace it atomically (temp file + rename: new inode) or
// in place, and rename files and directories.
//
// Nothing here judges anything.  Error texts are only mapped to a class.

type c10File struct {
	P  string `json:"p"` // hex, path relative to basedir
	K  string `json:"k"` // tpl | json | syntax | js | node | mixin | other
	M  string `json:"m"` // hex marker (tpl) or raw content (other)
	Z  int    `json:"z,omitempty"`
	MT string `json:"mt,omitempty"`
}

type c10Edit struct {
	A  string `json:"a"` // write | rm | mkdir | rmpage | mkpage | mv
	P  string `json:"p,omitempty"`
	K  string `json:"k,omitempty"`
	M  string `json:"m,omitempty"`
	Q  string `json:"q,omitempty"`  // mv: destination (hex, relative to basedir)
	Z  int    `json:"z,omitempty"`  // write: pad the content with spaces to this size
	MT string `json:"mt,omitempty"` // write: "" natural | keep (mtime of the file replaced) | fixed (one build time stamp)
	V  string `json:"v,omitempty"`  // write: "" in place (same inode) | rename (temp file + rename over)
}

type c10Op struct {
	O string `json:"o"` // render | load
	N string `json:"n"` // hex: template name / filter
}

type c10Ev struct {
	T *int      `json:"t,omitempty"` // step of thread t to its next yield point
	C *int      `json:"c,omitempty"` // step of thread c (inside a load) to its next FuncProvider call
	B bool      `json:"b,omitempty"` // the thread is expected to block: probe bound, go on
	E []c10Edit `json:"e,omitempty"` // file edits
}

type c10Case struct {
	Debug  bool      `json:"debug"`
	NoPage bool      `json:"nopage"` // template/page does not exist at the start
	Files  []c10File `json:"files"`
	Ops    []c10Op   `json:"ops"`
	Sched  []c10Ev   `json:"sched"`
}

type c10Thread struct {
	Class string `json:"class"` // ok | loaded | not_found | load_error | load_panic | again | exec | stuck | unfinished
	Out   string `json:"out"`   // hex (render ok)
	Late  bool   `json:"late"`  // returned only after the schedule had ended (free run)
	Err   string `json:"err,omitempty"`
}

type c10Obs struct {
	Threads  []c10Thread `json:"threads"`
	Steps    []string    `json:"steps"` // per schedule event: check | locked | afterload | compile | done | blocked | stuck | noop | edit
	Leftover int         `json:"leftover"`
}

const (
	c10Stuck      = 2000 * time.Millisecond // bound for one step (a step takes microseconds to a few ms)
	c10StuckShort = 300 * time.Millisecond  // after several stuck steps in the same run
	c10Drain      = 1500 * time.Millisecond
	c10DrainShort = 250 * time.Millisecond // same
	c10Probe      = 30 * time.Millisecond  // a thread expected to block: how long it is watched
	c10SlowCap    = 90 * time.Second       // a released thread that is not waiting for anything gets this long
)

// the one build time stamp of "mt":"fixed"
var c10Epoch = time.Date(2001, 9, 9, 1, 46, 40, 0, time.UTC)

var c10StuckSeen int

// ---- goroutine identity (the hook gets only the point name)

func goid() int64 {
	var buf [64]byte
	n := runtime.Stack(buf[:], false)
	// "goroutine 123 [running]:..."
	f := strings.Fields(string(buf[:n]))
	if len(f) < 2 {
		return -1
	}
	id, err := strconv.ParseInt(f[1], 10, 64)
	if err != nil {
		return -1
	}
	return id
}

type c10Thr struct {
	parked  chan string
	resume  chan struct{}
	done    chan c10Thread
	started bool
	fin     bool
	res     c10Thread
	cpark   atomic.Bool  // park at the next FuncProvider call
	gid     atomic.Int64 // its goroutine id, once the goroutine runs
}

// c10Waiting tells, after the bound of a step has passed, whether the goroutine of a released thread is
// really WAITING (for a lock, a channel) or has only not got far yet on a busy machine: its state is read
// from the runtime's goroutine dump.  Only a waiting goroutine is reported stuck; a running, runnable or
// not yet started one gets more time (up to c10SlowCap).  "stuck" is thus an observation of the state of
// the goroutine, not of the speed of the machine.
func c10Waiting(th *c10Thr) bool {
	id := th.gid.Load()
	if id == 0 {
		return false // the goroutine has not run its first instruction yet
	}
	buf := make([]byte, 1<<20)
	n := runtime.Stack(buf, true)
	dump := "\n" + string(buf[:n])
	key := fmt.Sprintf("goroutine %d [", id)
	k := strings.Index(dump, "\n"+key)
	if k < 0 {
		return false // gone: its result is on the way
	}
	rest := dump[k+1+len(key):]
	end := strings.IndexAny(rest, "],")
	if end < 0 {
		return false
	}
	switch st := rest[:end]; {
	case strings.HasPrefix(st, "semacquire"), strings.HasPrefix(st, "sync."), strings.HasPrefix(st, "chan "),
		st == "select":
		return true
	}
	return false
}

var (
	c10mu     sync.Mutex
	c10byGoid = map[int64]*c10Thr{}
	c10free   = map[*c10Thr]bool{} // hooks of these threads no longer park
)

func c10Hook(point string) {
	id := goid()
	c10mu.Lock()
	th := c10byGoid[id]
	free := th == nil || c10free[th]
	c10mu.Unlock()
	if free {
		return
	}
	th.parked <- point
	<-th.resume
}

// two looks, 200 ms apart: a goroutine that passes through a briefly contended mutex is not waiting
func c10ReallyWaiting(th *c10Thr) bool {
	if !c10Waiting(th) {
		return false
	}
	time.Sleep(200 * time.Millisecond)
	return c10Waiting(th)
}

// c10Compile is called from the engine's FuncProvider: once per template file compileDir is about to compile
func c10Compile() {
	id := goid()
	c10mu.Lock()
	th := c10byGoid[id]
	free := th == nil || c10free[th]
	c10mu.Unlock()
	if free || !th.cpark.Load() {
		return
	}
	th.parked <- "compile"
	<-th.resume
}

func c10Content(k, m string) string {
	switch k {
	case "tpl":
		b, _ := json.Marshal(map[string]interface{}{"type": "Block", "nodes": []interface{}{
			map[string]interface{}{"type": "Text", "val": unhx(m)}}})
		return string(b)
	case "json": // broken JSON: error
		return `{"type":"Block","nodes":[`
	case "syntax": // the emitted template text does not parse (template-level syntax error): error
		return `{"type":"Block","nodes":[{"type":"Tag","name":"{{end}}","isInline":false,"selfClosing":false,"attrs":[],"attributeBlocks":[],"block":{"type":"Block","nodes":[]}}]}`
	case "mixin": // call of a mixin that is not defined: error in debug mode, empty output otherwise
		return `{"type":"Block","nodes":[{"type":"Mixin","name":"nomix","args":"","call":true,"attrs":[],"attributeBlocks":[],"block":null}]}`
	case "js": // malformed JavaScript in a snippet: panic
		return `{"type":"Block","nodes":[{"type":"Code","val":"a +","buffer":true,"mustEscape":true,"isInline":true}]}`
	case "node": // unknown node type: panic
		return `{"type":"Block","nodes":[{"type":"Bogus"}]}`
	}
	return unhx(m)
}

var c10tmp int

func c10Apply(dir string, eds []c10Edit) error {
	for _, e := range eds {
		switch e.A {
		case "write":
			full := filepath.Join(dir, unhx(e.P))
			if err := os.MkdirAll(filepath.Dir(full), 0o755); err != nil {
				return err
			}
			content := c10Content(e.K, e.M)
			if len(content) < e.Z {
				content += strings.Repeat(" ", e.Z-len(content))
			}
			prev, prevErr := os.Stat(full)
			if e.V == "rename" {
				c10tmp++
				tmp := filepath.Join(dir, fmt.Sprintf(".c10tmp%d", c10tmp))
				if err := os.WriteFile(tmp, []byte(content), 0o644); err != nil {
					return err
				}
				if err := os.Rename(tmp, full); err != nil {
					return err
				}
			} else if err := os.WriteFile(full, []byte(content), 0o644); err != nil {
				return err
			}
			switch e.MT {
			case "keep":
				if prevErr == nil {
					if err := os.Chtimes(full, prev.ModTime(), prev.ModTime()); err != nil {
						return err
					}
				}
			case "fixed":
				if err := os.Chtimes(full, c10Epoch, c10Epoch); err != nil {
					return err
				}
			}
		case "mv":
			dst := filepath.Join(dir, unhx(e.Q))
			if err := os.MkdirAll(filepath.Dir(dst), 0o755); err != nil {
				return err
			}
			if err := os.Rename(filepath.Join(dir, unhx(e.P)), dst); err != nil {
				return err
			}
		case "rm":
			if err := os.Remove(filepath.Join(dir, unhx(e.P))); err != nil {
				return err
			}
		case "mkdir":
			if err := os.MkdirAll(filepath.Join(dir, unhx(e.P)), 0o755); err != nil {
				return err
			}
		case "rmpage":
			if err := os.RemoveAll(filepath.Join(dir, "template", "page")); err != nil {
				return err
			}
		case "mkpage":
			if err := os.MkdirAll(filepath.Join(dir, "template", "page"), 0o755); err != nil {
				return err
			}
		default:
			return fmt.Errorf("unknown edit %q", e.A)
		}
	}
	return nil
}

func c10ClassifyErr(err error) string {
	s := err.Error()
	switch {
	case strings.Contains(s, "Can not preload"):
		return "again"
	case strings.HasPrefix(s, "Template ") && strings.HasSuffix(s, " not found!"):
		return "not_found"
	}
	return "load_error"
}

// one call of the exported API, every way out mapped to a class
func c10Call(e *pugjs.Engine, op c10Op) (res c10Thread) {
	name := unhx(op.N)
	if op.O == "load" {
		defer func() {
			if r := recover(); r != nil {
				res = c10Thread{Class: "load_panic", Err: fmt.Sprint(r)}
			}
		}()
		if err := e.LoadTemplates(name); err != nil {
			return c10Thread{Class: c10ClassifyErr(err), Err: err.Error()}
		}
		return c10Thread{Class: "loaded"}
	}
	// render: a panic before the lookup is a load that panicked (Render does not recover);
	// the templates used here cannot panic during execution
	defer func() {
		if r := recover(); r != nil {
			res = c10Thread{Class: "load_panic", Err: fmt.Sprint(r)}
		}
	}()
	rd, err := e.Render(context.Background(), name, map[string]interface{}{})
	if err != nil {
		return c10Thread{Class: c10ClassifyErr(err), Err: err.Error()}
	}
	b, _ := io.ReadAll(rd)
	return c10Thread{Class: "ok", Out: hx(string(b))}
}

func c10Point(p string) string {
	switch p {
	case "render:after-loaded-check":
		return "check"
	case "load:locked":
		return "locked"
	case "render:after-load":
		return "afterload"
	case "compile":
		return "compile"
	}
	return "point:" + p
}

func runC10(c c10Case) (obs c10Obs, err error) {
	dir, err := os.MkdirTemp("", "pv10")
	if err != nil {
		return obs, err
	}
	defer os.RemoveAll(dir)
	if !c.NoPage {
		if err := os.MkdirAll(filepath.Join(dir, "template", "page"), 0o755); err != nil {
			return obs, err
		}
	}
	init := make([]c10Edit, len(c.Files))
	for i, f := range c.Files {
		init[i] = c10Edit{A: "write", P: f.P, K: f.K, M: f.M, Z: f.Z, MT: f.MT}
	}
	if err := c10Apply(dir, init); err != nil {
		return obs, err
	}
	e := newEngine(dir, c.Debug, 0, nil)
	provider := e.FuncProvider
	e.FuncProvider = func() map[string]flamingo.TemplateFunc {
		c10Compile()
		return provider()
	}

	ths := make([]*c10Thr, len(c.Ops))
	for i := range ths {
		ths[i] = &c10Thr{parked: make(chan string), resume: make(chan struct{}), done: make(chan c10Thread, 1)}
	}
	var goids []int64
	var gm sync.Mutex
	start := func(i int) {
		th := ths[i]
		th.started = true
		go func() {
			id := goid()
			c10mu.Lock()
			c10byGoid[id] = th
			c10mu.Unlock()
			th.gid.Store(id)
			gm.Lock()
			goids = append(goids, id)
			gm.Unlock()
			th.done <- c10Call(e, c.Ops[i])
		}()
	}
	defer func() {
		c10mu.Lock()
		for _, id := range goids {
			delete(c10byGoid, id)
		}
		for _, th := range ths {
			delete(c10free, th)
		}
		c10mu.Unlock()
	}()

	parkedAt := make([]bool, len(ths))   // thread i sits in a hook waiting for resume
	parkedIn := make([]string, len(ths)) // ... at this point
	abandoned := false
	for _, ev := range c.Sched {
		if ev.T == nil && ev.C == nil {
			if err := c10Apply(dir, ev.E); err != nil {
				return obs, err
			}
			obs.Steps = append(obs.Steps, "edit")
			continue
		}
		compile := ev.T == nil
		i := 0
		if compile {
			i = *ev.C
		} else {
			i = *ev.T
		}
		if i < 0 || i >= len(ths) {
			return obs, fmt.Errorf("bad thread %d", i)
		}
		th := ths[i]
		if abandoned || th.fin {
			obs.Steps = append(obs.Steps, "noop")
			continue
		}
		if compile {
			// only a thread inside a load can take a compile step
			if !parkedAt[i] || (parkedIn[i] != "load:locked" && parkedIn[i] != "compile") {
				obs.Steps = append(obs.Steps, "noop")
				continue
			}
			th.cpark.Store(true)
			parkedAt[i] = false
			th.resume <- struct{}{}
		} else if !th.started {
			th.cpark.Store(false)
			start(i)
		} else if parkedAt[i] {
			th.cpark.Store(false)
			parkedAt[i] = false
			th.resume <- struct{}{}
		}
		// else: in flight (released earlier, seen blocked): only wait for it
		bound := c10Stuck
		if c10StuckSeen >= 3 {
			bound = c10StuckShort
		}
		if ev.B {
			bound = c10Probe
		}
		for waited := time.Duration(0); ; waited += bound {
			again := false
			select {
			case p := <-th.parked:
				parkedAt[i], parkedIn[i] = true, p
				obs.Steps = append(obs.Steps, c10Point(p))
			case r := <-th.done:
				th.fin, th.res = true, r
				obs.Steps = append(obs.Steps, "done")
			case <-time.After(bound):
				if ev.B {
					obs.Steps = append(obs.Steps, "blocked")
					break
				}
				if waited < c10SlowCap && !c10ReallyWaiting(th) {
					again = true // busy machine: the goroutine is running or runnable, not waiting
					break
				}
				c10StuckSeen++
				obs.Steps = append(obs.Steps, "stuck")
				th.res = c10Thread{Class: "stuck"}
				abandoned = true
			}
			if !again {
				break
			}
		}
	}
	// end of schedule (or abandoned): open all hooks, collect what returns
	stuckIdx := -1
	for i, th := range ths {
		if th.res.Class == "stuck" {
			stuckIdx = i
		}
	}
	c10mu.Lock()
	for _, th := range ths {
		c10free[th] = true
	}
	c10mu.Unlock()
	for i, th := range ths {
		if parkedAt[i] {
			parkedAt[i] = false
			th.resume <- struct{}{}
		}
	}
	deadline := make(chan struct{})
	drain := c10Drain
	if c10StuckSeen >= 3 {
		drain = c10DrainShort
	}
	timer := time.AfterFunc(drain, func() { close(deadline) })
	defer timer.Stop()
	for i, th := range ths {
		if !th.started || th.fin {
			continue
		}
		select {
		case r := <-th.done:
			th.fin = true
			if i != stuckIdx {
				r.Late = true
				th.res = r
			}
		case p := <-th.parked: // raced with the opening of the hooks
			_ = p
			th.resume <- struct{}{}
			select {
			case r := <-th.done:
				th.fin = true
				if i != stuckIdx {
					r.Late = true
					th.res = r
				}
			case <-deadline:
				obs.Leftover++
			}
		case <-deadline:
			obs.Leftover++
			if i != stuckIdx {
				th.res = c10Thread{Class: "stuck", Late: true}
			}
		}
	}
	for _, th := range ths {
		r := th.res
		if r.Class == "" {
			r.Class = "unfinished" // never started by the schedule
		}
		if len(r.Err) > 200 {
			r.Err = r.Err[:200]
		}
		obs.Threads = append(obs.Threads, r)
	}
	return obs, nil
}

func init() {
	runners["C10"] = func(in json.RawMessage) (interface{}, error) {
		var cases []c10Case
		if err := json.Unmarshal(in, &cases); err != nil {
			return nil, err
		}
		pugjs.VerifHook = c10Hook
		defer func() { pugjs.VerifHook = nil }()
		out := make([]c10Obs, len(cases))
		for i, c := range cases {
			o, err := runC10(c)
			if err != nil {
				return nil, fmt.Errorf("case %d: %w", i, err)
			}
			out[i] = o
		}
		return out, nil
	}
}
