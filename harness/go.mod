module verif/harness

go 1.22

require (
	flamingo.me/dingo v0.2.10
	flamingo.me/flamingo/v3 v3.10.1
	flamingo.me/pugtemplate v0.0.0
	golang.org/x/net v0.27.0
)

require (
	contrib.go.opencensus.io/exporter/jaeger v0.2.1 // indirect
	contrib.go.opencensus.io/exporter/prometheus v0.4.2 // indirect
	contrib.go.opencensus.io/exporter/zipkin v0.1.2 // indirect
	cuelang.org/go v0.0.15 // indirect
	github.com/beorn7/perks v1.0.1 // indirect
	github.com/cespare/xxhash/v2 v2.2.0 // indirect
	github.com/cockroachdb/apd/v2 v2.0.1 // indirect
	github.com/davecgh/go-spew v1.1.1 // indirect
	github.com/dgryski/go-rendezvous v0.0.0-20200823014737-9f7001d12a5f // indirect
	github.com/ghodss/yaml v1.0.0 // indirect
	github.com/go-kit/log v0.2.1 // indirect
	github.com/go-logfmt/logfmt v0.5.1 // indirect
	github.com/go-sourcemap/sourcemap v2.1.3+incompatible // indirect
	github.com/golang/groupcache v0.0.0-20210331224755-41bb18bfe9da // indirect
	github.com/golang/protobuf v1.5.3 // indirect
	github.com/gorilla/securecookie v1.1.2 // indirect
	github.com/gorilla/sessions v1.3.0 // indirect
	github.com/matttproud/golang_protobuf_extensions v1.0.1 // indirect
	github.com/mpvl/unique v0.0.0-20150818121801-cbe035fff7de // indirect
	github.com/openzipkin/zipkin-go v0.4.3 // indirect
	github.com/pkg/errors v0.9.1 // indirect
	github.com/pmezard/go-difflib v1.0.0 // indirect
	github.com/prometheus/client_golang v1.13.0 // indirect
	github.com/prometheus/client_model v0.2.0 // indirect
	github.com/prometheus/common v0.37.0 // indirect
	github.com/prometheus/procfs v0.8.0 // indirect
	github.com/prometheus/statsd_exporter v0.22.7 // indirect
	github.com/rbcervilla/redisstore/v9 v9.0.0 // indirect
	github.com/redis/go-redis/v9 v9.6.1 // indirect
	github.com/spf13/cobra v1.8.1 // indirect
	github.com/spf13/pflag v1.0.5 // indirect
	github.com/stretchr/objx v0.5.2 // indirect
	github.com/stretchr/testify v1.9.0 // indirect
	github.com/uber/jaeger-client-go v2.25.0+incompatible // indirect
	github.com/zemirco/memorystore v0.0.0-20160308183530-ecd57e5134f6 // indirect
	go.opencensus.io v0.24.0 // indirect
	golang.org/x/sync v0.8.0 // indirect
	golang.org/x/sys v0.22.0 // indirect
	golang.org/x/text v0.16.0 // indirect
	golang.org/x/xerrors v0.0.0-20231012003039-104605ab7028 // indirect
	google.golang.org/api v0.126.0 // indirect
	google.golang.org/protobuf v1.33.0 // indirect
	gopkg.in/yaml.v2 v2.4.0 // indirect
	gopkg.in/yaml.v3 v3.0.1 // indirect
)

replace flamingo.me/pugtemplate => /repo
