//go:build !race

package main

// raceEnabled: this binary was built without the Go race detector.
const raceEnabled = false
