package main

import (
	"context"
	"encoding/json"
	"fmt"
	"os"
	"strconv"
	"strings"

	"flamingo.me/pugtemplate/pugjs"
	"flamingo.me/pugtemplate/templatefunctions"
)

// C12: JSON-shaped Go data handed to the browser as JSON.
//
// One case = one Go value d.  It is stringified
//
//	direct  : templatefunctions.JSON{}.Stringify(pugjs.Convert(d))            (exported API)
//	raw     : template  != JSON.stringify(x)      rendered with data {x: d}
//	helper  : template  != json(x)
//	esc     : template  = JSON.stringify(x)       (HTML-escaped by the engine; un-escaped by the judge)
//	rt      : template  - var y = JSON.parse(JSON.stringify(x))   then   != JSON.stringify(y)
//	reparse : JSON{}.Stringify(JSON{}.Parse(direct))                          (exported API)
//
// and, as a Go-side oracle that knows nothing of the Coq model, the direct
// text is decoded with encoding/json and deep-compared with d itself.
//
// A case may go on with a history (c12Hist below) in the same process: more
// renders, on two engines, of templates that parse, MUTATE and stringify copies
// of d, and calls of the exported functions by a Go caller.  gen/c12.py starts
// one harness process per history case.
//
// typed data: {"t": "nil|bool|int|float|str|arr|nilarr|map|nilmap", "v": ...}
//
//	int   : decimal text, becomes a Go int        float : decimal text, becomes float64
//	str   : hex                                    map   : [[hexkey, value], ...]
//	nest  : {"n": depth, "kind": "arr"|"map", "leaf": value}  (deep values without deep harness input)
type c12Val struct {
	T string          `json:"t"`
	V json.RawMessage `json:"v"`
}

type c12Case struct {
	Data c12Val   `json:"data"`
	Hist *c12Hist `json:"hist,omitempty"`
}

// A history: what happens in the same process after the six observations.
//
// The generator (gen/c12.py) writes an abstract history (conv / parse / mut / out
// over numbered variables, Models/JsonHist.v) and realises it as a sequence of
// SEGMENTS, each either
//
//	render : Engine.Render of one of the case's own templates (JavaScript
//	         written by the generator; every buffered line is followed by a
//	         line feed, which no JSON text contains) on engine number e with
//	         page data {x: d, w: {k0.., v0.., p0.., t: <the direct text>}}
//	api    : the same kind of steps done by a Go caller through the exported
//	         functions only: pugjs.Convert, JSON{}.Parse, JSON{}.Stringify,
//	         (*Map).Member / (*Array).Items to walk, (*Map).Assign,
//	         (*Array).Push / Unshift / Pop / Shift / Splice to mutate;
//	         its variables live on between api segments
//
// Every segment reports the texts it wrote, in order.
type c12Sel struct {
	K *string `json:"k,omitempty"` // hex key
	I *int    `json:"i,omitempty"`
}

type c12Op struct {
	O string   `json:"o"` // set | push | unshift | pop | shift | splice
	P []c12Sel `json:"p"`
	K string   `json:"k"` // hex, for set
	V *c12Val  `json:"v,omitempty"`
	N int      `json:"n"` // for splice
}

type c12Step struct {
	I  string `json:"i"` // conv | parse | mut | out
	V  int    `json:"v"`
	U  int    `json:"u"`
	Op *c12Op `json:"op,omitempty"`
}

type c12Line struct {
	JS  string `json:"js"`
	Out bool   `json:"out"`
}

type c12Seg struct {
	Kind    string    `json:"k"` // render | api
	Eng     int       `json:"e"`
	Tpl     string    `json:"t"`
	N       int       `json:"n"`       // number of texts the segment writes
	Rebuild bool      `json:"rebuild"` // page data built anew from the case instead of the Go value used so far
	Steps   []c12Step `json:"steps"`   // api
}

type c12Hist struct {
	W       map[string]c12Val    `json:"w"`
	Tpls    map[string][]c12Line `json:"tpls"`
	Engines int                  `json:"engines"`
	Segs    []c12Seg             `json:"segs"`
}

type c12SegObs struct {
	Class string   `json:"class"`
	Outs  []string `json:"outs"` // hex
}

type c12Text struct {
	Class string `json:"class"` // ok | exec_panic | error | not_found | ...
	Out   string `json:"out"`   // hex
}

type c12Obs struct {
	Direct       c12Text     `json:"direct"`
	Raw          c12Text     `json:"raw"`
	Helper       c12Text     `json:"helper"`
	Esc          c12Text     `json:"esc"`
	RT           c12Text     `json:"rt"`
	Reparse      c12Text     `json:"reparse"`
	DecodedEqual bool        `json:"decoded_equal"`  // encoding/json.Unmarshal(direct) deep-equals the source value
	ParsedKind   string      `json:"parsed_kind"`    // dynamic type of JSON.Parse(direct): map | array | string | number | bool | nil | other
	Hist         []c12SegObs `json:"hist,omitempty"` // one entry per segment of the history
}

func c12Build(v c12Val) (interface{}, error) {
	switch v.T {
	case "nil":
		return nil, nil
	case "bool":
		var b bool
		err := json.Unmarshal(v.V, &b)
		return b, err
	case "int":
		var s string
		if err := json.Unmarshal(v.V, &s); err != nil {
			return nil, err
		}
		n, err := strconv.ParseInt(s, 10, 64)
		return int(n), err
	case "float":
		var s string
		if err := json.Unmarshal(v.V, &s); err != nil {
			return nil, err
		}
		return strconv.ParseFloat(s, 64)
	case "str":
		var s string
		if err := json.Unmarshal(v.V, &s); err != nil {
			return nil, err
		}
		return unhx(s), nil
	case "nilarr":
		return []interface{}(nil), nil
	case "nilmap":
		return map[string]interface{}(nil), nil
	case "nest":
		// {"n": depth, "kind": "arr"|"map", "leaf": value}: leaf wrapped n times in a one-element array / {"a": .}
		var spec struct {
			N    int    `json:"n"`
			Kind string `json:"kind"`
			Leaf c12Val `json:"leaf"`
		}
		if err := json.Unmarshal(v.V, &spec); err != nil {
			return nil, err
		}
		cur, err := c12Build(spec.Leaf)
		if err != nil {
			return nil, err
		}
		for i := 0; i < spec.N; i++ {
			if spec.Kind == "map" {
				cur = map[string]interface{}{"a": cur}
			} else {
				cur = []interface{}{cur}
			}
		}
		return cur, nil
	case "arr":
		var l []c12Val
		if err := json.Unmarshal(v.V, &l); err != nil {
			return nil, err
		}
		res := make([]interface{}, len(l))
		for i, x := range l {
			e, err := c12Build(x)
			if err != nil {
				return nil, err
			}
			res[i] = e
		}
		return res, nil
	case "map":
		var l [][2]json.RawMessage
		if err := json.Unmarshal(v.V, &l); err != nil {
			return nil, err
		}
		res := make(map[string]interface{}, len(l))
		for _, kv := range l {
			var k string
			if err := json.Unmarshal(kv[0], &k); err != nil {
				return nil, err
			}
			var cv c12Val
			if err := json.Unmarshal(kv[1], &cv); err != nil {
				return nil, err
			}
			e, err := c12Build(cv)
			if err != nil {
				return nil, err
			}
			res[unhx(k)] = e
		}
		return res, nil
	}
	return nil, fmt.Errorf("bad data tag %q", v.T)
}

// c12Same: does the value decoded by encoding/json (numbers kept as their literal
// text, json.Number) equal the source value?  Integers are compared exactly
// (no float64 round trip on the oracle side), a nil slice counts as the empty
// array and a nil map as the empty object.
func c12Same(src, dec interface{}) bool {
	switch x := src.(type) {
	case nil:
		return dec == nil
	case bool:
		b, ok := dec.(bool)
		return ok && b == x
	case int:
		n, ok := dec.(json.Number)
		return ok && string(n) == strconv.FormatInt(int64(x), 10)
	case float64:
		n, ok := dec.(json.Number)
		if !ok {
			return false
		}
		f, err := strconv.ParseFloat(string(n), 64)
		return err == nil && f == x
	case string:
		s, ok := dec.(string)
		return ok && s == x
	case []interface{}:
		l, ok := dec.([]interface{})
		if !ok || len(l) != len(x) {
			return false
		}
		for i := range x {
			if !c12Same(x[i], l[i]) {
				return false
			}
		}
		return true
	case map[string]interface{}:
		m, ok := dec.(map[string]interface{})
		if !ok || len(m) != len(x) {
			return false
		}
		for k, v := range x {
			w, ok := m[k]
			if !ok || !c12Same(v, w) {
				return false
			}
		}
		return true
	}
	return false
}

func c12Safe(f func() string) (t c12Text) {
	defer func() {
		if r := recover(); r != nil {
			t = c12Text{Class: clsPanic}
		}
	}()
	return c12Text{Class: clsOK, Out: hx(f())}
}

const c12CodeNode = `{"type":"Code","val":%q,"buffer":%v,"mustEscape":%v,"isInline":false}`

func c12Tpl(nodes ...string) string {
	s := `{"type":"Block","nodes":[`
	for i, n := range nodes {
		if i > 0 {
			s += ","
		}
		s += n
	}
	return s + "]}"
}

// c12Walk follows a path through exported accessors only.
func c12Walk(o pugjs.Object, path []c12Sel) pugjs.Object {
	for _, s := range path {
		if s.K != nil {
			o = o.(*pugjs.Map).Member(unhx(*s.K))
		} else {
			o = o.(*pugjs.Array).Items()[*s.I]
		}
	}
	return o
}

func c12Apply(root pugjs.Object, op *c12Op) error {
	o := c12Walk(root, op.P)
	var val pugjs.Object
	if op.V != nil {
		g, err := c12Build(*op.V)
		if err != nil {
			return err
		}
		val = pugjs.Convert(g)
	}
	switch op.O {
	case "set":
		o.(*pugjs.Map).Assign(unhx(op.K), val)
	case "push":
		o.(*pugjs.Array).Push(val)
	case "unshift":
		o.(*pugjs.Array).Unshift(val)
	case "pop":
		o.(*pugjs.Array).Pop()
	case "shift":
		o.(*pugjs.Array).Shift()
	case "splice":
		o.(*pugjs.Array).Splice(pugjs.Number(op.N))
	default:
		return fmt.Errorf("bad op %q", op.O)
	}
	return nil
}

// c12RunHist runs the segments one after the other in this process.
func c12RunHist(h *c12Hist, spec c12Val, d interface{}, text string) ([]c12SegObs, error) {
	n := h.Engines
	if n < 1 {
		n = 1
	}
	files := map[string]string{}
	for name, lines := range h.Tpls {
		nodes := make([]string, 0, 2*len(lines))
		for _, l := range lines {
			nodes = append(nodes, fmt.Sprintf(c12CodeNode, l.JS, l.Out, false))
			if l.Out {
				nodes = append(nodes, `{"type":"Text","val":"\n"}`)
			}
		}
		files["template/page/"+name+".ast.json"] = c12Tpl(nodes...)
	}
	engines := make([]*pugjs.Engine, n)
	for i := range engines {
		dir, err := os.MkdirTemp("", "pv12h")
		if err != nil {
			return nil, err
		}
		defer os.RemoveAll(dir)
		if err := os.MkdirAll(dir+"/template/page", 0o755); err != nil { // a history of api segments has no templates
			return nil, err
		}
		if err := writeTree(dir, files); err != nil {
			return nil, err
		}
		engines[i] = newEngine(dir, false, 0, nil)
		if cls, msg := safeLoad(engines[i], ""); cls != clsOK {
			return nil, fmt.Errorf("history templates do not load: %s %s", cls, msg)
		}
	}
	ctx := context.Background()
	vars := map[int]pugjs.Object{}
	res := make([]c12SegObs, len(h.Segs))
	for si, seg := range h.Segs {
		data := d
		if seg.Rebuild {
			var err error
			if data, err = c12Build(spec); err != nil {
				return nil, err
			}
		}
		switch seg.Kind {
		case "render":
			w := make(map[string]interface{}, len(h.W)+1)
			for k, tv := range h.W {
				g, err := c12Build(tv)
				if err != nil {
					return nil, err
				}
				w[k] = g
			}
			w["t"] = text
			if seg.Eng < 0 || seg.Eng >= n {
				return nil, fmt.Errorf("segment %d: no engine %d", si, seg.Eng)
			}
			r := safeRender(engines[seg.Eng], ctx, seg.Tpl, map[string]interface{}{"x": data, "w": w})
			o := c12SegObs{Class: r.Class}
			if r.Class == clsOK {
				parts := strings.Split(unhx(r.Out), "\n")
				if len(parts) != seg.N+1 || parts[seg.N] != "" {
					o.Class = "bad_sections"
				} else {
					for _, p := range parts[:seg.N] {
						o.Outs = append(o.Outs, hx(p))
					}
				}
			}
			res[si] = o
		case "api":
			var hardErr error
			o := c12SegObs{Class: clsOK}
			func() {
				defer func() {
					if r := recover(); r != nil {
						o = c12SegObs{Class: clsPanic}
					}
				}()
				for _, st := range seg.Steps {
					switch st.I {
					case "conv":
						vars[st.V] = pugjs.Convert(data)
					case "parse":
						vars[st.V] = templatefunctions.JSON{}.Parse(templatefunctions.JSON{}.Stringify(vars[st.U]))
					case "mut":
						if err := c12Apply(vars[st.V], st.Op); err != nil {
							hardErr = err
							return
						}
					case "out":
						o.Outs = append(o.Outs, hx(templatefunctions.JSON{}.Stringify(vars[st.V])))
					default:
						hardErr = fmt.Errorf("bad step %q", st.I)
						return
					}
				}
			}()
			if hardErr != nil {
				return nil, hardErr
			}
			res[si] = o
		default:
			return nil, fmt.Errorf("bad segment kind %q", seg.Kind)
		}
	}
	return res, nil
}

func init() {
	runners["C12"] = func(in json.RawMessage) (interface{}, error) {
		var cases []c12Case
		if err := json.Unmarshal(in, &cases); err != nil {
			return nil, err
		}
		dir, err := os.MkdirTemp("", "pv12")
		if err != nil {
			return nil, err
		}
		defer os.RemoveAll(dir)
		files := map[string]string{
			"template/page/raw.ast.json":    c12Tpl(fmt.Sprintf(c12CodeNode, "JSON.stringify(x)", true, false)),
			"template/page/helper.ast.json": c12Tpl(fmt.Sprintf(c12CodeNode, "json(x)", true, false)),
			"template/page/esc.ast.json":    c12Tpl(fmt.Sprintf(c12CodeNode, "JSON.stringify(x)", true, true)),
			"template/page/rt.ast.json": c12Tpl(
				fmt.Sprintf(c12CodeNode, "var y = JSON.parse(JSON.stringify(x))", false, false),
				fmt.Sprintf(c12CodeNode, "JSON.stringify(y)", true, false)),
		}
		if err := writeTree(dir, files); err != nil {
			return nil, err
		}
		e := newEngine(dir, false, 0, nil)
		if cls, msg := safeLoad(e, ""); cls != clsOK {
			return nil, fmt.Errorf("load failed: %s %s", cls, msg)
		}
		ctx := context.Background()
		out := make([]c12Obs, len(cases))
		for i, c := range cases {
			d, err := c12Build(c.Data)
			if err != nil {
				return nil, fmt.Errorf("case %d: %w", i, err)
			}
			var o c12Obs
			o.Direct = c12Safe(func() string { return templatefunctions.JSON{}.Stringify(pugjs.Convert(d)) })
			render := func(name string) c12Text {
				// fresh top-level map per render: nothing shared between the modes
				r := safeRender(e, ctx, name, map[string]interface{}{"x": d})
				return c12Text{Class: r.Class, Out: r.Out}
			}
			o.Raw = render("raw")
			o.Helper = render("helper")
			o.Esc = render("esc")
			o.RT = render("rt")
			if o.Direct.Class == clsOK {
				text := unhx(o.Direct.Out)
				o.Reparse = c12Safe(func() string {
					p := templatefunctions.JSON{}.Parse(text)
					switch p.(type) {
					case *pugjs.Map:
						o.ParsedKind = "map"
					case *pugjs.Array:
						o.ParsedKind = "array"
					case pugjs.String:
						o.ParsedKind = "string"
					case pugjs.Number:
						o.ParsedKind = "number"
					case pugjs.Bool:
						o.ParsedKind = "bool"
					case pugjs.Nil:
						o.ParsedKind = "nil"
					default:
						o.ParsedKind = "other"
					}
					return templatefunctions.JSON{}.Stringify(p)
				})
				dec := json.NewDecoder(strings.NewReader(text))
				dec.UseNumber()
				var back interface{}
				if err := dec.Decode(&back); err == nil && !dec.More() {
					o.DecodedEqual = c12Same(d, back)
				}
			} else {
				o.Reparse = c12Text{Class: "skipped"}
			}
			if c.Hist != nil && o.Direct.Class == clsOK {
				h, err := c12RunHist(c.Hist, c.Data, d, unhx(o.Direct.Out))
				if err != nil {
					return nil, fmt.Errorf("case %d: %w", i, err)
				}
				o.Hist = h
			}
			out[i] = o
		}
		return out, nil
	}
}
