package main

import (
	"bytes"
	"context"
	"encoding/json"
	"fmt"

	"flamingo.me/pugtemplate/pugjs"
)

// C06L: template SOURCE TEXT straight into the forked text/template (public API pugjs.New(..).Parse,
// Template.Execute): what the real lexer/parser/executor make of text items, trim markers, comments and
// string-literal actions.  Used to compare Tmpl/Lexer.v (segment) with the real lexer directly.
type c06lCase struct {
	Src string `json:"src"` // hex
}

type c06lObs struct {
	Class string `json:"class"` // ok | parse_error | exec_error | panic
	Out   string `json:"out"`   // hex
	Err   string `json:"err,omitempty"`
}

func runC06L(c c06lCase) (o c06lObs) {
	defer func() {
		if r := recover(); r != nil {
			o = c06lObs{Class: "panic", Err: fmt.Sprint(r)}
		}
	}()
	t, err := pugjs.New("t").Parse(unhx(c.Src))
	if err != nil {
		return c06lObs{Class: "parse_error", Err: err.Error()}
	}
	var buf bytes.Buffer
	if err := t.Execute(context.Background(), &buf, nil, false); err != nil {
		return c06lObs{Class: "exec_error", Err: err.Error()}
	}
	return c06lObs{Class: "ok", Out: hx(buf.String())}
}

func init() {
	runners["C06L"] = func(in json.RawMessage) (interface{}, error) {
		var cases []c06lCase
		if err := json.Unmarshal(in, &cases); err != nil {
			return nil, err
		}
		out := make([]c06lObs, len(cases))
		for i, c := range cases {
			out[i] = runC06L(c)
		}
		return out, nil
	}
}
