package main

import (
	"context"
	"encoding/json"
	"fmt"
	"io"
	"strings"

	"flamingo.me/flamingo/v3/framework/config"
	"flamingo.me/pugtemplate/templatefunctions"
	"golang.org/x/net/html"
)

// C14: stripTags. For each case the real template function is called, the
// same input is parsed with html.ParseFragment (the call stripTags makes) and
// the resulting forest is dumped for the model, and the result is checked by
// an independent oracle built on the x/net/html Tokenizer.

type c14Item struct {
	S *string  `json:"s,omitempty"` // hex: a string item of the config.Slice
	N *float64 `json:"n,omitempty"` // a non-string item
}

type c14Case struct {
	Input  string      `json:"input"`  // hex
	Slices [][]c14Item `json:"slices"` // the variadic allowedTagsConfig arguments
}

type c14Node struct {
	Type     string      `json:"type"` // elem | text | comment | doctype | other
	Data     string      `json:"data"` // hex
	Attrs    [][2]string `json:"attrs,omitempty"`
	Children []c14Node   `json:"children,omitempty"`
}

type c14Obs struct {
	Class     string    `json:"class"` // ok | exec_panic
	Out       string    `json:"out"`   // hex
	Forest    []c14Node `json:"forest"`
	Modelled  bool      `json:"modelled"` // false: the forest has a shape the model's node type cannot carry
	Why       string    `json:"why,omitempty"`
	TokOK     bool      `json:"tok_ok"`
	TokReason string    `json:"tok_reason,omitempty"`
}

func init() {
	runners["C14"] = func(in json.RawMessage) (interface{}, error) {
		var cases []c14Case
		if err := json.Unmarshal(in, &cases); err != nil {
			return nil, err
		}
		out := make([]c14Obs, len(cases))
		for i, c := range cases {
			out[i] = runC14(c)
		}
		return out, nil
	}
}

func runC14(c c14Case) (obs c14Obs) {
	input := unhx(c.Input)
	slices := make([]config.Slice, len(c.Slices))
	for i, sl := range c.Slices {
		s := config.Slice{}
		for _, it := range sl {
			if it.S != nil {
				s = append(s, unhx(*it.S))
			} else if it.N != nil {
				s = append(s, *it.N)
			} else {
				s = append(s, nil)
			}
		}
		slices[i] = s
	}

	obs.Modelled = true
	for _, sl := range slices {
		for _, it := range sl {
			// the model lower-cases A-Z only; Go applies Unicode case mapping
			// (and rewrites invalid UTF-8) to definitions with bytes >= 0x80
			if d, ok := it.(string); ok && strings.ToLower(d) != asciiLowerC14(d) {
				obs.Modelled = false
				obs.Why = "Unicode case mapping in a definition"
			}
		}
	}
	var out string
	func() {
		defer func() {
			if r := recover(); r != nil {
				obs.Class = clsPanic
			}
		}()
		f := templatefunctions.StriptagsFunc{}.Func(context.Background()).(func(string, ...config.Slice) string)
		out = f(input, slices...)
		obs.Class = clsOK
	}()
	obs.Out = hx(out)

	// the forest stripTags worked on
	doc, err := html.ParseFragment(strings.NewReader(input), nil)
	if err != nil {
		obs.Modelled = false
		obs.Why = "ParseFragment error"
	}
	obs.Forest = make([]c14Node, 0, len(doc))
	for _, n := range doc {
		obs.Forest = append(obs.Forest, dumpC14(n, &obs))
	}

	obs.TokOK, obs.TokReason = oracleC14(out, c.Slices)
	if obs.Class != clsOK {
		obs.TokOK, obs.TokReason = false, "panic"
	}
	return obs
}

func asciiLowerC14(s string) string {
	b := []byte(s)
	for i, c := range b {
		if 'A' <= c && c <= 'Z' {
			b[i] = c + 'a' - 'A'
		}
	}
	return string(b)
}

func dumpC14(n *html.Node, obs *c14Obs) c14Node {
	var d c14Node
	d.Data = hx(n.Data)
	switch n.Type {
	case html.ElementNode:
		d.Type = "elem"
		for _, a := range n.Attr {
			d.Attrs = append(d.Attrs, [2]string{hx(a.Key), hx(a.Val)})
		}
	case html.TextNode:
		d.Type = "text"
	case html.CommentNode:
		d.Type = "comment"
	case html.DoctypeNode:
		d.Type = "doctype"
	default:
		d.Type = "other"
	}
	for c := n.FirstChild; c != nil; c = c.NextSibling {
		if n.Type != html.ElementNode && obs.Modelled {
			obs.Modelled = false
			obs.Why = "non-element node with children"
		}
		d.Children = append(d.Children, dumpC14(c, obs))
	}
	return d
}

// ---- independent oracle --------------------------------------------------

// oracleAllowC14 reads the allow-list definitions the way the documentation of
// stripTags describes them: "name" or "name(attr attr ...)", case-insensitive;
// exactly one list argument counts; a later definition of a name replaces an
// earlier one.
func oracleAllowC14(slices [][]c14Item) map[string]map[string]bool {
	allow := map[string]map[string]bool{}
	if len(slices) != 1 {
		return allow
	}
	for _, it := range slices[0] {
		if it.S == nil {
			continue
		}
		def := strings.ToLower(unhx(*it.S))
		name, attrs := def, map[string]bool{}
		if i := strings.IndexByte(def, '('); i >= 0 {
			name = def[:i]
			rest := def[i+1:]
			if j := strings.IndexByte(rest, '('); j >= 0 {
				rest = rest[:j]
			}
			for len(rest) > 0 && rest[len(rest)-1] == ')' {
				rest = rest[:len(rest)-1]
			}
			for _, a := range strings.Split(rest, " ") {
				attrs[a] = true
			}
		}
		if name != "" {
			allow[name] = attrs
		}
	}
	return allow
}

// oracleC14 tokenizes the result: only start/end/self-closing tag tokens of
// allow-listed element names carrying allow-listed attribute keys, no comment
// or doctype token; with an empty allow-list no '<' byte at all.
func oracleC14(out string, slices [][]c14Item) (ok bool, reason string) {
	defer func() {
		if r := recover(); r != nil {
			ok, reason = false, "tokenizer panic"
		}
	}()
	allow := oracleAllowC14(slices)
	if len(allow) == 0 && strings.IndexByte(out, '<') >= 0 {
		return false, "'<' in the result with an empty allow-list"
	}
	z := html.NewTokenizer(strings.NewReader(out))
	for {
		switch tt := z.Next(); tt {
		case html.ErrorToken:
			if z.Err() == io.EOF {
				return true, ""
			}
			return false, "tokenizer error"
		case html.TextToken:
		case html.StartTagToken, html.EndTagToken, html.SelfClosingTagToken:
			nameB, hasAttr := z.TagName()
			name := string(nameB)
			attrs, found := allow[name]
			if !found {
				return false, fmt.Sprintf("%v of element %q not in the allow-list", tt, name)
			}
			for hasAttr {
				var k []byte
				k, _, hasAttr = z.TagAttr()
				if !attrs[string(k)] {
					return false, fmt.Sprintf("attribute %q not allowed on %q", string(k), name)
				}
			}
		case html.CommentToken:
			return false, "comment token"
		case html.DoctypeToken:
			return false, "doctype token"
		default:
			return false, "unexpected token type"
		}
	}
}
