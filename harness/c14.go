package main

import (
	"context"
	"encoding/json"
	"fmt"
	"io"
	"strings"

	"flamingo.me/flamingo/v3/framework/config"
	"flamingo.me/pugtemplate/templatefunctions"
	"golang.org/x/net/html"
)

// C14: stripTags. For each case the real template function is called, the
// same input is parsed with html.ParseFragment (the call stripTags makes) and
// the resulting forest is dumped for the model (flat, in document order; of
// any depth), and the result is checked by an independent oracle built on the
// x/net/html Tokenizer.  All cases of one run go through the same process; a
// case may carry earlier calls of its own (Before).

type c14Item struct {
	S *string  `json:"s,omitempty"` // hex: a string item of the config.Slice
	N *float64 `json:"n,omitempty"` // a non-string item
}

type c14Call struct {
	Input  string      `json:"input"`  // hex
	Slices [][]c14Item `json:"slices"` // the variadic allowedTagsConfig arguments
}

type c14Case struct {
	c14Call
	// Before: calls made on the same function value before the observed one;
	// their results are discarded. What stripTags returns must not depend on them.
	Before []c14Call `json:"before,omitempty"`
}

// c14Tok is one token of the parse tree in document order: the tree is handed
// over flat (a tree thousands of levels deep cannot be nested JSON).
type c14Tok struct {
	K string      `json:"k"`           // o(pen element) | c(lose) | t(ext) | m (comment) | y (doctype) | x (other)
	D string      `json:"d,omitempty"` // hex: Node.Data
	A [][2]string `json:"a,omitempty"` // hex key, hex value (elements only)
}

// c14MaxToks: above this number of nodes only the summary (text, depth, counts)
// of the forest is handed over.
const c14MaxToks = 60000

type c14Obs struct {
	Class     string   `json:"class"` // ok | exec_panic
	Out       string   `json:"out"`   // hex
	Toks      []c14Tok `json:"toks"`
	ToksCut   bool     `json:"toks_cut,omitempty"` // more than c14MaxToks nodes: toks is empty
	Text      string   `json:"text"`               // hex: the text nodes' data in document order
	Depth     int      `json:"depth"`              // deepest element nesting in the forest
	Nodes     int      `json:"nodes"`
	MaxAttrs  int      `json:"max_attrs"` // longest attribute list of one element
	Modelled  bool     `json:"modelled"`  // false: the forest has a shape the model's node type cannot carry
	Why       string   `json:"why,omitempty"`
	TokOK     bool     `json:"tok_ok"`
	TokReason string   `json:"tok_reason,omitempty"`
}

func init() {
	runners["C14"] = func(in json.RawMessage) (interface{}, error) {
		var cases []c14Case
		if err := json.Unmarshal(in, &cases); err != nil {
			return nil, err
		}
		out := make([]c14Obs, len(cases))
		for i, c := range cases {
			out[i] = runC14(c)
		}
		return out, nil
	}
}

func slicesC14(in [][]c14Item) []config.Slice {
	slices := make([]config.Slice, len(in))
	for i, sl := range in {
		s := config.Slice{}
		for _, it := range sl {
			if it.S != nil {
				s = append(s, unhx(*it.S))
			} else if it.N != nil {
				s = append(s, *it.N)
			} else {
				s = append(s, nil)
			}
		}
		slices[i] = s
	}
	return slices
}

func runC14(c c14Case) (obs c14Obs) {
	input := unhx(c.Input)
	slices := slicesC14(c.Slices)
	f := templatefunctions.StriptagsFunc{}.Func(context.Background()).(func(string, ...config.Slice) string)
	for _, b := range c.Before {
		func() {
			defer func() { _ = recover() }()
			_ = f(unhx(b.Input), slicesC14(b.Slices)...)
		}()
	}

	obs.Modelled = true
	for _, sl := range slices {
		for _, it := range sl {
			// the model lower-cases A-Z only; Go applies Unicode case mapping
			// (and rewrites invalid UTF-8) to definitions with bytes >= 0x80
			if d, ok := it.(string); ok && strings.ToLower(d) != asciiLowerC14(d) {
				obs.Modelled = false
				obs.Why = "Unicode case mapping in a definition"
			}
		}
	}
	var out string
	func() {
		defer func() {
			if r := recover(); r != nil {
				obs.Class = clsPanic
			}
		}()
		out = f(input, slices...)
		obs.Class = clsOK
	}()
	obs.Out = hx(out)

	// the forest stripTags worked on
	doc, err := html.ParseFragment(strings.NewReader(input), nil)
	if err != nil {
		obs.Modelled = false
		obs.Why = "ParseFragment error"
	}
	d := &c14Dump{obs: &obs}
	for _, n := range doc {
		d.walk(n, 1)
	}
	obs.Text = hx(d.text.String())
	obs.Toks = d.toks
	if obs.Toks == nil {
		obs.Toks = []c14Tok{}
	}
	if obs.Nodes > c14MaxToks {
		obs.Toks, obs.ToksCut = []c14Tok{}, true
	}

	obs.TokOK, obs.TokReason = oracleC14(out, c.Slices)
	if obs.Class != clsOK {
		obs.TokOK, obs.TokReason = false, "panic"
	}
	return obs
}

func asciiLowerC14(s string) string {
	b := []byte(s)
	for i, c := range b {
		if 'A' <= c && c <= 'Z' {
			b[i] = c + 'a' - 'A'
		}
	}
	return string(b)
}

type c14Dump struct {
	obs  *c14Obs
	toks []c14Tok
	text strings.Builder
}

func (d *c14Dump) walk(n *html.Node, depth int) {
	obs := d.obs
	obs.Nodes++
	keep := obs.Nodes <= c14MaxToks
	switch n.Type {
	case html.ElementNode:
		if depth > obs.Depth {
			obs.Depth = depth
		}
		if len(n.Attr) > obs.MaxAttrs {
			obs.MaxAttrs = len(n.Attr)
		}
		if keep {
			t := c14Tok{K: "o", D: hx(n.Data)}
			for _, a := range n.Attr {
				t.A = append(t.A, [2]string{hx(a.Key), hx(a.Val)})
			}
			d.toks = append(d.toks, t)
		}
		for c := n.FirstChild; c != nil; c = c.NextSibling {
			d.walk(c, depth+1)
		}
		if keep {
			d.toks = append(d.toks, c14Tok{K: "c"})
		}
		return
	case html.TextNode:
		d.text.WriteString(n.Data)
		if keep {
			d.toks = append(d.toks, c14Tok{K: "t", D: hx(n.Data)})
		}
	case html.CommentNode:
		if keep {
			d.toks = append(d.toks, c14Tok{K: "m", D: hx(n.Data)})
		}
	case html.DoctypeNode:
		if keep {
			d.toks = append(d.toks, c14Tok{K: "y", D: hx(n.Data)})
		}
	default:
		if keep {
			d.toks = append(d.toks, c14Tok{K: "x"})
		}
	}
	if n.FirstChild != nil && obs.Modelled {
		obs.Modelled = false
		obs.Why = "non-element node with children"
	}
}

// ---- independent oracle --------------------------------------------------

// oracleAllowC14 reads the allow-list definitions the way the documentation of
// stripTags describes them: "name" or "name(attr attr ...)", case-insensitive;
// exactly one list argument counts; a later definition of a name replaces an
// earlier one.
func oracleAllowC14(slices [][]c14Item) map[string]map[string]bool {
	allow := map[string]map[string]bool{}
	if len(slices) != 1 {
		return allow
	}
	for _, it := range slices[0] {
		if it.S == nil {
			continue
		}
		def := strings.ToLower(unhx(*it.S))
		name, attrs := def, map[string]bool{}
		if i := strings.IndexByte(def, '('); i >= 0 {
			name = def[:i]
			rest := def[i+1:]
			if j := strings.IndexByte(rest, '('); j >= 0 {
				rest = rest[:j]
			}
			for len(rest) > 0 && rest[len(rest)-1] == ')' {
				rest = rest[:len(rest)-1]
			}
			for _, a := range strings.Split(rest, " ") {
				attrs[a] = true
			}
		}
		if name != "" {
			allow[name] = attrs
		}
	}
	return allow
}

// oracleC14 tokenizes the result: only start/end/self-closing tag tokens of
// allow-listed element names carrying allow-listed attribute keys, no comment
// or doctype token; with an empty allow-list no '<' byte at all.
func oracleC14(out string, slices [][]c14Item) (ok bool, reason string) {
	defer func() {
		if r := recover(); r != nil {
			ok, reason = false, "tokenizer panic"
		}
	}()
	allow := oracleAllowC14(slices)
	if len(allow) == 0 && strings.IndexByte(out, '<') >= 0 {
		return false, "'<' in the result with an empty allow-list"
	}
	z := html.NewTokenizer(strings.NewReader(out))
	for {
		switch tt := z.Next(); tt {
		case html.ErrorToken:
			if z.Err() == io.EOF {
				return true, ""
			}
			return false, "tokenizer error"
		case html.TextToken:
		case html.StartTagToken, html.EndTagToken, html.SelfClosingTagToken:
			nameB, hasAttr := z.TagName()
			name := string(nameB)
			attrs, found := allow[name]
			if !found {
				return false, fmt.Sprintf("%v of element %q not in the allow-list", tt, name)
			}
			for hasAttr {
				var k []byte
				k, _, hasAttr = z.TagAttr()
				if !attrs[string(k)] {
					return false, fmt.Sprintf("attribute %q not allowed on %q", string(k), name)
				}
			}
		case html.CommentToken:
			return false, "comment token"
		case html.DoctypeToken:
			return false, "doctype token"
		default:
			return false, "unexpected token type"
		}
	}
}
