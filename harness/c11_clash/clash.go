// Package clash: C11 hand-written struct types whose members collide after the lower-camel name mapping
// (the member table of a struct is keyed by lowerFirst(name); Go itself keeps the names apart):
//
//   - an exported and an unexported field (Title / title), in both declaration orders and interleaved;
//   - an unexported field and an exported method (holder / Holder()), value and pointer receivers;
//   - an embedded type and an outer field (Inner / inner), an embedded UNEXPORTED type and an exported outer
//     field (inner / Inner), an embedded pointer (*Meta / meta), in both declaration orders; outer fields that
//     shadow or resemble promoted ones.
//
// The generator (gen/c11.py, TWINS["K"]) carries its own description of every type (fields in declaration
// order, embedded fields, both method sets); harness/c11.go compares it with reflect on every use.
package clash

// ---------------------------------------------------------------- exported next to unexported fields

// PairEU declares the exported fields first.
type PairEU struct {
	Title string
	Price int
	title string
	price int
}

// PairUE declares the unexported fields first.
type PairUE struct {
	title string
	price int
	Title string
	Price int
}

// PairMix interleaves them; the unexported side has other types.
type PairMix struct {
	Title string
	title []string
	name  *int
	Name  string
	Count int
	cache map[string]int
	count bool
}

// PairDeep holds colliding structs in colliding fields.
type PairDeep struct {
	Item  PairEU
	item  *PairUE
	list  []string
	List  []PairEU
	Next  *PairDeep
	next  string
	Extra interface{}
	extra int
}

// ---------------------------------------------------------------- unexported fields next to methods

// Getter: the usual getter over an unexported field; a field pair after it.
type Getter struct {
	holder string
	Limit  int
	limit  int
}

func (g Getter) Holder() string { return "holder:" + g.holder }

// GetterP: a getter with a pointer receiver and one with a value receiver; the unexported fields come last.
type GetterP struct {
	Count   int
	caption string
	sum     int
}

func (g *GetterP) Caption() string { return "caption:" + g.caption }
func (g GetterP) Sum() int         { return g.sum + g.Count }

// ---------------------------------------------------------------- embedded types next to outer fields

// Inner is embedded by value below.
type Inner struct {
	Title string
	Code  int
}

func (i Inner) Kind() string { return "kind:" + i.Title }

// inner is an unexported type that is embedded below: its field cannot be read, its methods are promoted.
type inner struct {
	Note string
	Rank int
}

func (i inner) Tag() string { return "tag:" + i.Note }

// Meta is embedded by pointer below; Slug tolerates a nil receiver.
type Meta struct {
	Key string
}

func (m *Meta) Slug() string {
	if m == nil {
		return "nometa"
	}
	return "slug:" + m.Key
}

// OuterEU: the embedded (exported) field Inner, then the unexported field inner; Title shadows Inner.Title.
type OuterEU struct {
	Inner
	inner string
	Title string
}

// OuterUE: the other order; the unexported title resembles the promoted Inner.Title.
type OuterUE struct {
	inner string
	Inner
	title int
}

// OuterX: an exported field Inner, then the embedded unexported type inner.
type OuterX struct {
	Inner string
	inner
}

// OuterY: the other order, and an unexported field that resembles the promoted Rank.
type OuterY struct {
	inner
	Inner string
	rank  int
}

// OuterP: an embedded pointer, then the unexported field of its lower-camel name; Key shadows Meta.Key.
type OuterP struct {
	*Meta
	meta int
	Key  string
}

// OuterQ: the other order.
type OuterQ struct {
	meta string
	*Meta
	Note string
}

// ---------------------------------------------------------------- members whose first letter is not ASCII

// Wide has fields and methods whose names begin with a letter outside ASCII (Go exports a name whose first letter
// is upper-case in Unicode's sense), an unexported field that is the lower-camel spelling of an exported one, and
// plain ASCII neighbours.
type Wide struct {
	Ärger     string
	Übersicht int
	Name      string
	Ωmega     string
	Élan      []string
	ärger     int
	Next      *Wide
}

// Österreich has a value receiver.
func (w Wide) Österreich() string { return "at:" + w.Ärger }

// Ñandú has a pointer receiver.
func (w *Wide) Ñandú() int { return w.Übersicht + 1 }

// WideBox holds a Wide by value and by pointer under names outside ASCII.
type WideBox struct {
	Über  Wide
	Öl    *Wide
	Жук   string
	Title string
}

// Types lists every type of the family by name ("inner" is reachable only through this table).
var Types = map[string]interface{}{
	"PairEU": PairEU{}, "PairUE": PairUE{}, "PairMix": PairMix{}, "PairDeep": PairDeep{},
	"Getter": Getter{}, "GetterP": GetterP{},
	"Inner": Inner{}, "inner": inner{}, "Meta": Meta{},
	"OuterEU": OuterEU{}, "OuterUE": OuterUE{}, "OuterX": OuterX{}, "OuterY": OuterY{},
	"OuterP": OuterP{}, "OuterQ": OuterQ{},
	"Wide": Wide{}, "WideBox": WideBox{},
}
