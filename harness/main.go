// pugrun: correspondence harness. Reads a JSON document of cases on stdin,
// runs them against the real code in /repo (via the replace directive) and
// writes a JSON document of observations on stdout. Byte strings travel as
// lower-case hex so that arbitrary bytes survive JSON.
package main

import (
	"encoding/hex"
	"encoding/json"
	"fmt"
	"os"
)

type runner func(in json.RawMessage) (interface{}, error)

var runners = map[string]runner{}

func hx(s string) string { return hex.EncodeToString([]byte(s)) }

func unhx(s string) string {
	b, err := hex.DecodeString(s)
	if err != nil {
		panic(fmt.Sprintf("bad hex %q: %v", s, err))
	}
	return string(b)
}

func main() {
	if len(os.Args) < 2 {
		fmt.Fprintln(os.Stderr, "usage: pugrun <engine> < cases.json > obs.json")
		os.Exit(2)
	}
	r, ok := runners[os.Args[1]]
	if !ok {
		fmt.Fprintln(os.Stderr, "unknown engine", os.Args[1])
		os.Exit(2)
	}
	dec := json.NewDecoder(os.Stdin)
	var in json.RawMessage
	if err := dec.Decode(&in); err != nil {
		fmt.Fprintln(os.Stderr, "bad input:", err)
		os.Exit(2)
	}
	out, err := r(in)
	if err != nil {
		fmt.Fprintln(os.Stderr, "harness error:", err)
		os.Exit(2)
	}
	enc := json.NewEncoder(os.Stdout)
	if err := enc.Encode(out); err != nil {
		fmt.Fprintln(os.Stderr, "encode:", err)
		os.Exit(2)
	}
}
