// Package shop (first of two): C11 look-alike types. harness/c11_two declares another package that is
// also called shop, with types of the same names but other fields and methods, so that
// reflect.Type.String() ("shop.Product", "shop.Cart") is the same for two distinct types.
package shop

// Product has a value-receiver and a pointer-receiver method.
type Product struct {
	Sku   string
	Price int
	Tags  []string
}

func (p Product) Label() string { return "one:" + p.Sku }
func (p *Product) Total() int   { return p.Price + len(p.Tags) }

// Cart holds Products by pointer and by value.
type Cart struct {
	Owner *Product
	Items []Product
	Note  string
}

func (c Cart) Count() int { return len(c.Items) }
