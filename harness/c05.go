package main

import (
	"encoding/hex"
	"encoding/json"
	"fmt"
	"strings"

	"golang.org/x/net/html"
)

// C05: a template case as for runner "T" (one tag <div ...></div>, possibly inside a mixin), rendered by the
// real engine; additionally the output is re-read with the x/net/html tokenizer (independent reader).
type c05Attr struct {
	Name string `json:"name"` // hex
	Val  string `json:"val"`  // hex
}

type c05Obs struct {
	Load    string    `json:"load"`
	Class   string    `json:"class"`
	Out     string    `json:"out"` // hex
	Err     string    `json:"err,omitempty"`
	TokOK   bool      `json:"tok_ok"` // the token stream is exactly StartTag(div) EndTag(div)
	TokAttr []c05Attr `json:"tok_attrs"`
}

func tokenizeDiv(out string) (ok bool, attrs []c05Attr) {
	attrs = []c05Attr{}
	z := html.NewTokenizer(strings.NewReader(out))
	step := 0
	for {
		tt := z.Next()
		if tt == html.ErrorToken {
			return step == 2, attrs
		}
		tok := z.Token()
		switch {
		case step == 0 && tt == html.StartTagToken && tok.Data == "div":
			for _, a := range tok.Attr {
				if a.Namespace != "" {
					return false, attrs
				}
				attrs = append(attrs, c05Attr{Name: hex.EncodeToString([]byte(a.Key)), Val: hex.EncodeToString([]byte(a.Val))})
			}
			step = 1
		case step == 1 && tt == html.EndTagToken && tok.Data == "div":
			step = 2
		default:
			return false, attrs
		}
	}
}

func init() {
	runners["C05"] = func(in json.RawMessage) (interface{}, error) {
		var cases []tCase
		if err := json.Unmarshal(in, &cases); err != nil {
			return nil, err
		}
		res := make([]c05Obs, len(cases))
		for i, c := range cases {
			o, err := runTCase(c)
			if err != nil {
				return nil, fmt.Errorf("case %d: %w", i, err)
			}
			ob := c05Obs{Load: o.Load, Class: o.Res.Class, Out: o.Res.Out, Err: o.Res.Err, TokAttr: []c05Attr{}}
			if o.Load != clsOK {
				ob.Err = o.LoadMsg
			} else if o.Res.Class == clsOK {
				ob.TokOK, ob.TokAttr = tokenizeDiv(unhx(o.Res.Out))
			}
			res[i] = ob
		}
		return res, nil
	}
}
