package main

import (
	"encoding/hex"
	"encoding/json"
	"fmt"
	"strings"

	"golang.org/x/net/html"
)

// C05: a template case as for runner "T" (one tag <div ...></div>, possibly inside a mixin), rendered by the
// real engine; additionally the output is re-read with the x/net/html tokenizer (independent reader).
type c05Attr struct {
	Name string `json:"name"` // hex
	Val  string `json:"val"`  // hex
}

type c05Obs struct {
	Load    string    `json:"load"`
	Class   string    `json:"class"`
	Out     string    `json:"out"` // hex
	Err     string    `json:"err,omitempty"`
	TokOK   bool      `json:"tok_ok"` // the token stream is exactly StartTag(div) EndTag(div)
	TokAttr []c05Attr `json:"tok_attrs"`
	// every render of the case on the one engine of this process (the first is the one above), and for each
	// render the attribute list of every <div> of its output (a case may use its tag several times per render)
	Renders []c05Render `json:"renders"`
}

type c05Render struct {
	Class string      `json:"class"`
	Out   string      `json:"out"`    // hex
	TokOK bool        `json:"tok_ok"` // the token stream is exactly `uses` times StartTag(div) EndTag(div)
	Toks  [][]c05Attr `json:"toks"`
}

// a C05 case: a T case whose page holds the tag under test `uses` times (default 1)
type c05Case struct {
	tCase
	Uses int `json:"uses"`
}

// tokenizeDivs reads `uses` times <div ATTRS></div> and nothing else
func tokenizeDivs(out string, uses int) (ok bool, all [][]c05Attr) {
	all = [][]c05Attr{}
	z := html.NewTokenizer(strings.NewReader(out))
	open := false
	for {
		tt := z.Next()
		if tt == html.ErrorToken {
			return !open && len(all) == uses, all
		}
		tok := z.Token()
		switch {
		case !open && tt == html.StartTagToken && tok.Data == "div":
			attrs := []c05Attr{}
			for _, a := range tok.Attr {
				if a.Namespace != "" {
					return false, all
				}
				attrs = append(attrs, c05Attr{Name: hex.EncodeToString([]byte(a.Key)), Val: hex.EncodeToString([]byte(a.Val))})
			}
			all = append(all, attrs)
			open = true
		case open && tt == html.EndTagToken && tok.Data == "div":
			open = false
		default:
			return false, all
		}
	}
}

func tokenizeDiv(out string) (ok bool, attrs []c05Attr) {
	attrs = []c05Attr{}
	z := html.NewTokenizer(strings.NewReader(out))
	step := 0
	for {
		tt := z.Next()
		if tt == html.ErrorToken {
			return step == 2, attrs
		}
		tok := z.Token()
		switch {
		case step == 0 && tt == html.StartTagToken && tok.Data == "div":
			for _, a := range tok.Attr {
				if a.Namespace != "" {
					return false, attrs
				}
				attrs = append(attrs, c05Attr{Name: hex.EncodeToString([]byte(a.Key)), Val: hex.EncodeToString([]byte(a.Val))})
			}
			step = 1
		case step == 1 && tt == html.EndTagToken && tok.Data == "div":
			step = 2
		default:
			return false, attrs
		}
	}
}

func init() {
	runners["C05"] = func(in json.RawMessage) (interface{}, error) {
		var cases []c05Case
		if err := json.Unmarshal(in, &cases); err != nil {
			return nil, err
		}
		res := make([]c05Obs, len(cases))
		for i, c := range cases {
			if c.Uses < 1 {
				c.Uses = 1
			}
			o, err := runTCase(c.tCase)
			if err != nil {
				return nil, fmt.Errorf("case %d: %w", i, err)
			}
			ob := c05Obs{Load: o.Load, Class: o.Res.Class, Out: o.Res.Out, Err: o.Res.Err, TokAttr: []c05Attr{}, Renders: []c05Render{}}
			if o.Load != clsOK {
				ob.Err = o.LoadMsg
			} else if o.Res.Class == clsOK {
				ob.TokOK, ob.TokAttr = tokenizeDiv(unhx(o.Res.Out))
			}
			if o.Load == clsOK {
				for _, r := range append([]renderResult{o.Res}, o.More...) {
					rr := c05Render{Class: r.Class, Out: r.Out, Toks: [][]c05Attr{}}
					if r.Class == clsOK {
						rr.TokOK, rr.Toks = tokenizeDivs(unhx(r.Out), c.Uses)
					}
					ob.Renders = append(ob.Renders, rr)
				}
			}
			res[i] = ob
		}
		return res, nil
	}
}
