package main

import (
	"context"
	"fmt"
	"io"
	"os"
	"path/filepath"
	"strings"

	"flamingo.me/flamingo/v3/framework/flamingo"
	"flamingo.me/pugtemplate/pugjs"
	"flamingo.me/pugtemplate/templatefunctions"
)

// tplFunc adapts a plain Go func to flamingo.TemplateFunc.
type tplFunc struct{ f interface{} }

func (t tplFunc) Func(context.Context) interface{} { return t.f }

// stdFuncs are the template functions the module registers that properties name.
func stdFuncs() map[string]flamingo.TemplateFunc {
	return map[string]flamingo.TemplateFunc{
		"Math":      templatefunctions.JsMath{},
		"JSON":      templatefunctions.JsJSON{},
		"Object":    templatefunctions.JsObject{},
		"stripTags": templatefunctions.StriptagsFunc{},
		"parseInt":  &templatefunctions.ParseInt{},
	}
}

// writeTree writes files (relative path -> content) below dir.
func writeTree(dir string, files map[string]string) error {
	for p, c := range files {
		full := filepath.Join(dir, p)
		if err := os.MkdirAll(filepath.Dir(full), 0o755); err != nil {
			return err
		}
		if err := os.WriteFile(full, []byte(c), 0o644); err != nil {
			return err
		}
	}
	return nil
}

// newEngine builds an engine over basedir (templates under basedir/template/page).
func newEngine(basedir string, debug bool, ratelimit int, extra map[string]flamingo.TemplateFunc) *pugjs.Engine {
	e := pugjs.NewEngineWithOptions(pugjs.WithRateLimit(ratelimit))
	e.Basedir = basedir
	e.Debug = debug
	e.Logger = flamingo.NullLogger{}
	e.FuncProvider = func() map[string]flamingo.TemplateFunc {
		m := stdFuncs()
		for k, v := range extra {
			m[k] = v
		}
		return m
	}
	return e
}

// outcome classes (never compare error text)
const (
	clsOK       = "ok"
	clsNotFound = "not_found"
	clsLoadErr  = "load_error"
	clsPanic    = "exec_panic"
	clsCtx      = "ctx_error"
	clsErr      = "error"
)

type renderResult struct {
	Class string `json:"class"`
	Out   string `json:"out"`           // hex
	Err   string `json:"err,omitempty"` // diagnostic text only
}

func classifyErr(err error) string {
	s := err.Error()
	switch {
	case strings.Contains(s, "not found!"):
		return clsNotFound
	case strings.Contains(s, "wait failed"):
		return clsCtx
	case strings.Contains(s, "Can not preload"):
		return clsLoadErr
	}
	return clsErr
}

// safeRender calls Engine.Render and maps every way out to a class.
func safeRender(e *pugjs.Engine, ctx context.Context, name string, data interface{}) (res renderResult) {
	defer func() {
		if r := recover(); r != nil {
			res = renderResult{Class: clsPanic, Err: fmt.Sprint(r)}
		}
	}()
	rd, err := e.Render(ctx, name, data)
	if err != nil {
		return renderResult{Class: classifyErr(err), Err: err.Error()}
	}
	b, _ := io.ReadAll(rd)
	return renderResult{Class: clsOK, Out: hx(string(b))}
}

// safeLoad calls LoadTemplates and maps panics.
func safeLoad(e *pugjs.Engine, filter string) (cls string, msg string) {
	defer func() {
		if r := recover(); r != nil {
			cls, msg = "load_panic", fmt.Sprint(r)
		}
	}()
	if err := e.LoadTemplates(filter); err != nil {
		return clsLoadErr, err.Error()
	}
	return clsOK, ""
}
