package main

import (
	"context"
	"encoding/json"
	"fmt"
	"math/big"
	"os"
	"reflect"
	"strconv"
	"strings"

	"flamingo.me/flamingo/v3/framework/flamingo"
	"flamingo.me/pugtemplate/pugjs"
	"flamingo.me/pugtemplate/templatefunctions"
)

// C18: one call of Math.min/max/ceil/trunc/round or parseInt per case, made
// either directly on the exported Go API or through a rendered template.
type c18Arg struct {
	K string `json:"k"` // int | int64 | float64 | number | float32 | int8..int32 | uint..uint32 | string | pugstring | bool
	V string `json:"v"` // numbers: decimal text (strconv round trip); strings: hex; bool: true|false
	// Src: for the template paths literal / var, the JavaScript source of the argument as the author
	// spelled it (1234567.4999999, 1.2345674999999e6, 0x1F, .5, 5., (7 / 2), parseFloat('2.5'), ...).
	// The generator computes the value this source denotes in ECMAScript on its own (V, K); the
	// harness only pastes the text.  Empty: V is the source.
	Src string `json:"src,omitempty"`
	// Wrap "parseFloat": K is string | pugstring and the helper under test receives parseFloat(<the string>)
	// (directly: the registered parseFloat function is called from Go; templates: parseFloat(...) in the source).
	Wrap string `json:"wrap,omitempty"`
}

type c18Case struct {
	Fn   string   `json:"fn"`   // min | max | ceil | trunc | round | parseInt
	Args []c18Arg `json:"args"` // the argument list
	Via  string   `json:"via"`  // direct | literal | var | data
	// Obs, template paths only.  "" / "print": the observation is what `= Math.f(...)` renders (the engine prints
	// every number with 10 significant digits).  "exact": the result value is handed to the observer function
	// c18show, registered next to the module's functions through Engine.FuncProvider, which writes the Go value
	// it receives exactly (an int in decimal, a float as a fraction).
	Obs string `json:"obs,omitempty"`
}

// c18Show is the observer: a template function of the harness, not of the module under test.
type c18Show struct{}

func (c18Show) Func(context.Context) interface{} {
	return func(x interface{}) string {
		v := reflect.ValueOf(x)
		switch v.Kind() {
		case reflect.Int, reflect.Int8, reflect.Int16, reflect.Int32, reflect.Int64:
			return "i" + strconv.FormatInt(v.Int(), 10)
		case reflect.Float32, reflect.Float64:
			if n, d, ok := c18Rat(v.Float()); ok {
				return "r" + n + "_" + d
			}
			return "notfinite"
		}
		return "other"
	}
}

type c18Obs struct {
	Class string `json:"class"`          // ok | exec_panic | error | load_error | bad_case
	Num   string `json:"num,omitempty"`  // direct path: exact result as a fraction
	Den   string `json:"den,omitempty"`  //
	Text  string `json:"text,omitempty"` // template path: printed output, hex
	Err   string `json:"err,omitempty"`  // diagnostic only
}

const c18Batch = 40 // calls per rendered template

func init() {
	runners["C18"] = func(in json.RawMessage) (interface{}, error) {
		var cases []c18Case
		if err := json.Unmarshal(in, &cases); err != nil {
			return nil, err
		}
		out := make([]c18Obs, len(cases))
		var tpl []int
		for i, c := range cases {
			if c.Via == "direct" {
				out[i] = c18Direct(c)
			} else {
				tpl = append(tpl, i)
			}
		}
		if err := c18Templates(cases, tpl, out, c18Batch); err != nil {
			return nil, err
		}
		return out, nil
	}
}

// ---------------------------------------------------------------- Go values

func c18Value(a c18Arg) (interface{}, error) {
	switch a.K {
	case "int", "int64":
		n, err := strconv.ParseInt(a.V, 10, 64)
		if err != nil {
			return nil, err
		}
		if a.K == "int" {
			return int(n), nil
		}
		return n, nil
	case "int8", "int16", "int32":
		n, err := strconv.ParseInt(a.V, 10, 32)
		if err != nil {
			return nil, err
		}
		switch a.K {
		case "int8":
			if int64(int8(n)) != n {
				return nil, fmt.Errorf("%d is no int8", n)
			}
			return int8(n), nil
		case "int16":
			if int64(int16(n)) != n {
				return nil, fmt.Errorf("%d is no int16", n)
			}
			return int16(n), nil
		}
		return int32(n), nil
	case "uint", "uint8", "uint16", "uint32":
		n, err := strconv.ParseUint(a.V, 10, 64)
		if err != nil {
			return nil, err
		}
		switch a.K {
		case "uint8":
			if uint64(uint8(n)) != n {
				return nil, fmt.Errorf("%d is no uint8", n)
			}
			return uint8(n), nil
		case "uint16":
			if uint64(uint16(n)) != n {
				return nil, fmt.Errorf("%d is no uint16", n)
			}
			return uint16(n), nil
		case "uint32":
			if uint64(uint32(n)) != n {
				return nil, fmt.Errorf("%d is no uint32", n)
			}
			return uint32(n), nil
		}
		return uint(n), nil
	case "float32":
		// V is the shortest text of the float32 value itself (the generator rounds first)
		x, err := strconv.ParseFloat(a.V, 32)
		if err != nil {
			return nil, err
		}
		return float32(x), nil
	case "float64", "number":
		x, err := strconv.ParseFloat(a.V, 64)
		if err != nil {
			return nil, err
		}
		if a.K == "number" {
			return pugjs.Number(x), nil
		}
		return x, nil
	case "string":
		return unhx(a.V), nil
	case "pugstring":
		return pugjs.String(unhx(a.V)), nil
	case "bool":
		return a.V == "true", nil
	}
	return nil, fmt.Errorf("unknown kind %q", a.K)
}

func c18Rat(x float64) (string, string, bool) {
	r := new(big.Rat)
	if r.SetFloat64(x) == nil {
		return "", "", false
	}
	return r.Num().String(), r.Denom().String(), true
}

// ---------------------------------------------------------------- direct calls

func c18Direct(c c18Case) (obs c18Obs) {
	vals := make([]interface{}, len(c.Args))
	for i, a := range c.Args {
		v, err := c18Value(a)
		if err != nil {
			return c18Obs{Class: "bad_case", Err: err.Error()}
		}
		vals[i] = v
	}
	defer func() {
		if r := recover(); r != nil {
			obs = c18Obs{Class: clsPanic, Err: fmt.Sprint(r)}
		}
	}()
	ctx := context.Background()
	funcs := stdFuncs()
	for i, a := range c.Args {
		switch a.Wrap {
		case "":
		case "parseFloat":
			vals[i] = c18Extra["parseFloat"].Func(ctx).(func(interface{}) float64)(vals[i])
		default:
			return c18Obs{Class: "bad_case", Err: "unknown wrap"}
		}
	}
	// the registered template functions, obtained the way the engine obtains them
	m := funcs["Math"].Func(ctx).(func() templatefunctions.Math)()
	one := func() (interface{}, bool) {
		if len(vals) != 1 {
			return nil, false
		}
		return vals[0], true
	}
	intRes := func(n int) c18Obs { return c18Obs{Class: clsOK, Num: strconv.Itoa(n), Den: "1"} }
	floatRes := func(x float64) c18Obs {
		n, d, ok := c18Rat(x)
		if !ok {
			return c18Obs{Class: clsOK, Err: "not finite"}
		}
		return c18Obs{Class: clsOK, Num: n, Den: d}
	}
	switch c.Fn {
	case "min":
		return floatRes(m.Min(vals...))
	case "max":
		return floatRes(m.Max(vals...))
	case "ceil":
		if x, ok := one(); ok {
			return intRes(m.Ceil(x))
		}
	case "trunc":
		if x, ok := one(); ok {
			return intRes(m.Trunc(x))
		}
	case "round":
		if x, ok := one(); ok {
			return intRes(m.Round(x))
		}
	case "parseInt":
		if x, ok := one(); ok {
			p := funcs["parseInt"].Func(ctx).(func(interface{}) int)
			return intRes(p(x))
		}
	}
	return c18Obs{Class: "bad_case", Err: "arity or function"}
}

// ---------------------------------------------------------------- through templates

var c18JsName = map[string]string{
	"min": "Math.min", "max": "Math.max", "ceil": "Math.ceil", "trunc": "Math.trunc",
	"round": "Math.round", "parseInt": "parseInt",
}

// functions of the module that stdFuncs does not register
var c18Extra = map[string]flamingo.TemplateFunc{"parseFloat": &templatefunctions.ParseFloat{}, "c18show": c18Show{}}

func c18Wrap(a c18Arg, src string) (string, error) {
	switch a.Wrap {
	case "":
		return src, nil
	case "parseFloat":
		return "parseFloat(" + src + ")", nil
	}
	return "", fmt.Errorf("unknown wrap %q", a.Wrap)
}

// c18Literal: the argument as JavaScript source text.
func c18Literal(a c18Arg) (string, error) {
	if a.Src != "" {
		for _, r := range a.Src {
			if r < 0x20 || r > 0x7e || r == '"' || r == '\\' || r == '`' || r == '{' || r == '}' || r == ';' {
				return "", fmt.Errorf("source %q not usable", a.Src)
			}
		}
		return a.Src, nil
	}
	switch a.K {
	case "int", "int64", "float64", "number":
		for _, r := range a.V {
			if !strings.ContainsRune("0123456789.-e+", r) {
				return "", fmt.Errorf("number text %q not plain decimal", a.V)
			}
		}
		return a.V, nil
	case "string", "pugstring":
		s := unhx(a.V)
		for _, r := range s {
			if r < 0x20 || r > 0x7e || r == '\'' || r == '"' || r == '\\' || r == '`' || r == '{' || r == '}' {
				return "", fmt.Errorf("string %q not usable as a literal", s)
			}
		}
		return "'" + s + "'", nil
	case "bool":
		return a.V, nil
	}
	return "", fmt.Errorf("unknown kind %q", a.K)
}

type c18Node map[string]interface{}

func c18Code(val string, buffered bool) c18Node {
	if buffered {
		return c18Node{"type": "Code", "val": val, "buffer": true, "mustEscape": true, "isInline": true}
	}
	return c18Node{"type": "Code", "val": val, "buffer": false, "mustEscape": false, "isInline": false}
}

// c18Nodes: AST nodes that make call number slot of a template, plus its data fields.
func c18Nodes(c c18Case, slot int, data map[string]interface{}) ([]c18Node, error) {
	name, ok := c18JsName[c.Fn]
	if !ok {
		return nil, fmt.Errorf("unknown function %q", c.Fn)
	}
	var nodes []c18Node
	srcs := make([]string, len(c.Args))
	for j, a := range c.Args {
		switch c.Via {
		case "literal":
			s, err := c18Literal(a)
			if err == nil {
				s, err = c18Wrap(a, s)
			}
			if err != nil {
				return nil, err
			}
			srcs[j] = s
		case "var":
			s, err := c18Literal(a)
			if err == nil {
				s, err = c18Wrap(a, s)
			}
			if err != nil {
				return nil, err
			}
			v := fmt.Sprintf("v%dx%d", slot, j)
			nodes = append(nodes, c18Code("var "+v+" = "+s, false))
			srcs[j] = v
		case "data":
			val, err := c18Value(a)
			if err != nil {
				return nil, err
			}
			v := fmt.Sprintf("d%dx%d", slot, j)
			data[v] = val
			if srcs[j], err = c18Wrap(a, v); err != nil {
				return nil, err
			}
		default:
			return nil, fmt.Errorf("unknown via %q", c.Via)
		}
	}
	call := name + "(" + strings.Join(srcs, ", ") + ")"
	switch c.Obs {
	case "", "print":
	case "exact":
		call = "c18show(" + call + ")"
	default:
		return nil, fmt.Errorf("unknown obs %q", c.Obs)
	}
	nodes = append(nodes, c18Code(call, true))
	return nodes, nil
}

// c18Templates renders the cases idxs in templates of at most batch calls,
// outputs separated by ";". A template that does not come back as exactly its
// number of fields (panic, error) is repeated one call per template.
func c18Templates(cases []c18Case, idxs []int, out []c18Obs, batch int) error {
	if len(idxs) == 0 {
		return nil
	}
	dir, err := os.MkdirTemp("", "pv18")
	if err != nil {
		return err
	}
	defer os.RemoveAll(dir)
	type tpl struct {
		name string
		idxs []int
		data map[string]interface{}
	}
	var tpls []tpl
	files := map[string]string{}
	for start := 0; start < len(idxs); {
		t := tpl{name: fmt.Sprintf("t%d", len(tpls)), data: map[string]interface{}{}}
		var nodes []c18Node
		for start < len(idxs) && len(t.idxs) < batch {
			i := idxs[start]
			start++
			ns, err := c18Nodes(cases[i], len(t.idxs), t.data)
			if err != nil {
				out[i] = c18Obs{Class: "bad_case", Err: err.Error()}
				continue
			}
			nodes = append(nodes, ns...)
			nodes = append(nodes, c18Node{"type": "Text", "val": ";"})
			t.idxs = append(t.idxs, i)
		}
		if len(t.idxs) == 0 {
			continue
		}
		b, err := json.Marshal(c18Node{"type": "Block", "nodes": nodes})
		if err != nil {
			return err
		}
		files["template/page/"+t.name+".ast.json"] = string(b)
		tpls = append(tpls, t)
	}
	if len(tpls) == 0 {
		return nil
	}
	if err := writeTree(dir, files); err != nil {
		return err
	}
	e := newEngine(dir, false, 0, c18Extra)
	loadCls, loadMsg := safeLoad(e, "")
	if loadCls != clsOK && batch == 1 && len(tpls) > 1 {
		// one template spoils the whole load: give every call its own engine
		for _, t := range tpls {
			if err := c18Templates(cases, t.idxs, out, 1); err != nil {
				return err
			}
		}
		return nil
	}
	var again []int
	ctx := context.Background()
	for _, t := range tpls {
		var r renderResult
		if loadCls != clsOK {
			r = renderResult{Class: clsLoadErr, Err: loadMsg}
		} else {
			r = safeRender(e, ctx, t.name, t.data)
		}
		if r.Class == clsOK {
			parts := strings.Split(unhx(r.Out), ";")
			if len(parts) == len(t.idxs)+1 && strings.TrimSpace(parts[len(parts)-1]) == "" {
				for k, i := range t.idxs {
					out[i] = c18Obs{Class: clsOK, Text: hx(strings.TrimSpace(parts[k]))}
				}
				continue
			}
			r = renderResult{Class: clsErr, Err: "field count"}
		}
		if len(t.idxs) == 1 {
			out[t.idxs[0]] = c18Obs{Class: r.Class, Err: r.Err}
			continue
		}
		again = append(again, t.idxs...)
	}
	return c18Templates(cases, again, out, 1)
}
