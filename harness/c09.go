package main

import (
	"context"
	"encoding/json"
	"errors"
	"fmt"
	"io"
	"os"
	"runtime"
	"sort"
	"strconv"
	"sync"
	"sync/atomic"
	"time"

	"flamingo.me/flamingo/v3/framework/flamingo"
	"flamingo.me/pugtemplate/pugjs"
)

// C09: the render rate limit.  One case = one engine and one history of driver
// actions.  Renders run in goroutines through safeRender (exported API only);
// a template function gate(id) reports "this render is past the gate" and then
// blocks until the driver tells it which way out to take.  After every action
// the driver SETTLES (waits until the observed state is quiescent, or a
// timeout) and records what it saw.  Nothing here judges anything: the
// expectation "quiescent" only paces the waits.
//
// observed sets, per window:
//   inside  = renders that reported entry (gate called) and whose Render has not returned
//   waiting = renders started, not inside, Render not returned
// quiescent = nobody waiting, or limit > 0 and at least limit renders inside.
//
// Contexts.  A render is started with one of
//   ""          a live context (context.WithCancel), ended only by a cancel / race action
//   "cancelled" a context that was cancelled before Render is called
//   "expired"   a context whose deadline passed before Render is called
//   "at"        c09Ctx: a context that ends by itself at the K-th use anybody makes of it
//               (Done / Err / Value / Deadline, also through derived contexts), i.e. at a
//               point of Render's own progress: before the select, in it, right after it, ...
// "over" = the context of the render is known to be over.  A window is closed only
// when no render whose context is over is still at the gate (neither returned nor
// inside), or after c09Cancel: that is the observation behind "promptly".
// The race action ends the context of a waiting render WHILE it tells a render
// inside to leave (concurrently, or one a few microseconds after the other).
//
// Requests.  A render is started by Engine.Render (one template: "g" calls
// gate(id), "nosuch" does not exist) or by Engine.RenderPartials with a list of
// partials (action field Partials: kinds "g" = partial whose template calls
// gate(id), "t" = partial of plain text, "m" = unknown partial).  All partials
// of a request get the same data, so the n-th call of gate with the id of a
// request is its n-th "g" partial.  One request has ONE number (rid) and one
// context.  It is "inside" while one of its templates is executing, i.e. from
// a call of gate until the driver tells that call which way out to take; when
// the driver tells a "g" partial that is not the last partial of its request
// to return normally ("ok"), the request is from that moment counted as
// waiting (it goes back to the gate for its next partial) and reported in
// Moved of the window.  A failing template function panics out of
// RenderPartials as it does out of Render.
//
// Engine mode.  Debug = true: every Render reloads its template first
// (LoadTemplates(name)); everything else is driven and observed the same way.
//
// Arriving together.  The volley action starts N renders that call Render at
// the same instant: their goroutines are parked on one barrier, spinning on a
// start flag, and released by one store.  ROUNDS (cases with Shapes) repeat the
// situation many times on the same engine, each round a small history of its
// own that begins and ends at an empty gate and has its own render numbers
// (1, 2, ...):
//   Pre renders are put inside (limit - Pre slots stay free); K > limit - Pre
//   callers arrive together, so that the free slots are taken and the rest
//   waits; the contexts of Cancel of the waiting ones are ended while the renders
//   inside are still held (window "cancel": they must return within c09RSettle);
//   then the renders inside are told to leave, the remaining waiters get in and
//   are told to leave as well.
// The rounds run after the drain of the history and before the refill probe.
// Rounds with exactly the same record (shape and windows; within a window of a
// round the reports are sorted by render number) are reported once, with a count.  Cases with rounds are run one at a time, with GOMAXPROCS set
// to the value the case asks for.

const (
	c09Settle = 2000 * time.Millisecond // per action (generous: the machine may be heavily loaded)
	c09Short  = 100 * time.Millisecond  // after a first timeout in the same history
	c09Cancel = 2000 * time.Millisecond // "promptly" for a caller whose context is over (generous)
	c09Refill = 3000 * time.Millisecond // final refill probe
	c09Grace  = 2 * time.Millisecond    // after quiescence: catch stragglers (over-admission)
	c09Final  = 20 * time.Millisecond   // grace of the probe that ends the history
	c09RGrace = 150 * time.Microsecond  // rounds: after the arrival (catch stragglers); no grace elsewhere
	// rounds: bound of every step, the return of a cancelled waiter included.  There are tens of
	// thousands of steps per run, and on a machine that is short of memory single threads have been
	// seen to stand still for more than 3 s.
	c09RSettle = 10 * time.Second
	c09MaxCuts = 5 // after so many cases whose rounds were cut short the later cases of the run drive no rounds
	c09Workers = 16
)

type c09Action struct {
	Op       string   `json:"op"`                 // start | volley | release | cancel | race | probe
	N        int      `json:"n,omitempty"`        // volley: how many renders arrive together (2..8)
	Missing  bool     `json:"missing"`            // start: render a template that does not exist
	Partials []string `json:"partials,omitempty"` // start / volley: RenderPartials with these partials (kinds g | t | m) instead of Render
	Pick     int      `json:"pick"`               // release / cancel / race: index into the sorted inside / waiting set (mod size)
	Outcome  string   `json:"outcome"`            // release / race: ok | func_error | panic
	Ctx      string   `json:"ctx,omitempty"`      // start: "" | cancelled | expired | at
	K        int      `json:"k,omitempty"`        // start, ctx "at": the context ends at its K-th use (K >= 1)
	Pick2    int      `json:"pick2,omitempty"`    // race: index of the render inside that is told to leave
	Order    int      `json:"order,omitempty"`    // race: 0 both at once (two goroutines), 1 release then cancel, 2 cancel then release
	DelayUs  int      `json:"delay_us,omitempty"` // race, order 1 / 2: pause between the two (busy wait, <= 500)
}

// c09Shape is one kind of round, repeated Reps times (the shapes of a case take turns).
type c09Shape struct {
	Pre      int      `json:"pre"`     // renders put inside first (0 .. limit-1)
	K        int      `json:"k"`       // callers that arrive together
	Cancel   int      `json:"cancel"`  // waiting callers whose context is ended while the gate is full (<= 0: all)
	Pick     int      `json:"pick"`    // the first of them: index into the sorted waiting set (mod size), then the following ones
	Outcome  string   `json:"outcome"` // way out of the renders inside: ok | func_error | panic
	Reps     int      `json:"reps"`
	Partials []string `json:"partials,omitempty"` // the callers that arrive together are RenderPartials requests with these partials
}

type c09Case struct {
	Cap       int         `json:"cap"`
	ViaInject bool        `json:"via_inject"` // limit set through Engine.Inject (config value) on an engine built with Init
	Init      int         `json:"init"`
	Debug     bool        `json:"debug,omitempty"` // Engine.Debug
	Actions   []c09Action `json:"actions"`
	Shapes    []c09Shape  `json:"shapes,omitempty"`
	Procs     int         `json:"procs,omitempty"` // GOMAXPROCS for this case (0: leave it; never above the number of CPUs)
}

type c09Fin struct {
	Rid   int    `json:"rid"`
	Class string `json:"class"`
}

type c09Window struct {
	Phase    string   `json:"phase"` // history | drain | refill
	Op       string   `json:"op"`    // start | release | cancel | probe | noop | drain | drain_cancel | refill
	Rids     []int    `json:"rids"`  // renders the action addressed (started / released / cancelled)
	Missing  bool     `json:"missing"`
	Partials []string `json:"partials,omitempty"` // start: the requests are RenderPartials calls with these partials
	Outcome  string   `json:"outcome,omitempty"`
	Ctx      string   `json:"ctx,omitempty"` // start: the kind of context
	Entered  []int    `json:"entered"`       // entry reports that arrived in this window, in order
	Ended    []int    `json:"ended"`         // renders whose context was seen to be over for the first time in this window
	Finished []c09Fin `json:"finished"`      // requests that returned in this window, in order
	Moved    []int    `json:"moved"`         // requests inside that were told in this window to go on to their next partial
	Inside   []int    `json:"inside"`
	Waiting  []int    `json:"waiting"`
	Settled  bool     `json:"settled"`  // quiescence was reached before the timeout
	Returned bool     `json:"returned"` // cancel: every cancelled caller returned within the bound
}

// c09Round is the record of Count rounds that went exactly alike.
type c09Round struct {
	Shape   int         `json:"shape"`
	Count   int         `json:"count"`
	First   int         `json:"first"` // number of the first such round (0-based)
	Windows []c09Window `json:"windows"`
}

type c09Obs struct {
	Limit     int         `json:"limit"` // GetRateLimit()
	Windows   []c09Window `json:"windows"`
	Rounds    []c09Round  `json:"rounds"`
	RoundsRun int         `json:"rounds_run"`
	RoundsCut bool        `json:"rounds_cut"` // a round did not go to its end in time: no further rounds
	RoundsOff bool        `json:"rounds_off"` // no rounds driven: c09MaxCuts earlier cases of this run had theirs cut short
	Procs     int         `json:"procs"`      // GOMAXPROCS while the case ran
	RefillOK  bool        `json:"refill_ok"`
	Leftover  int         `json:"leftover"` // goroutines still blocked when the case ended (diagnostic)
}

type c09Render struct {
	rid      int
	missing  bool
	cancel   context.CancelFunc
	cmd      chan string
	entered  bool
	finished bool
	told     bool
	class    string
	steps    []string // RenderPartials: the kinds of its partials (nil: a Render call)
	gcalls   int      // calls of gate so far
	moved    bool     // the last thing it was told: go on to the next partial
	over     int32    // atomic: the context is over (set before the cancel is issued / when an "at" context fires)
	overSeen bool     // reported in some window's Ended
}

func (r *c09Render) end() {
	atomic.StoreInt32(&r.over, 1)
	r.cancel()
}

// c09Ctx is a context that ends (context.Canceled) at its K-th use.  It keeps the
// Context contract: Err is non-nil exactly when Done is closed; the use that
// makes it end already sees it ended, as if another goroutine had cancelled it
// just before.  left < 0: never by itself.
type c09Ctx struct {
	mu   sync.Mutex
	done chan struct{}
	err  error
	left int
	over *int32
	wake func()
}

func (c *c09Ctx) use() {
	c.mu.Lock()
	if c.left > 0 {
		c.left--
		if c.left == 0 {
			c.endLocked()
		}
	}
	c.mu.Unlock()
}

func (c *c09Ctx) endLocked() {
	if c.err == nil {
		atomic.StoreInt32(c.over, 1)
		c.err = context.Canceled
		close(c.done)
		c.left = -1
	}
}

func (c *c09Ctx) end() {
	c.mu.Lock()
	c.endLocked()
	c.mu.Unlock()
}

func (c *c09Ctx) Done() <-chan struct{} { c.use(); return c.done }
func (c *c09Ctx) Err() error {
	c.use()
	c.mu.Lock()
	defer c.mu.Unlock()
	return c.err
}
func (c *c09Ctx) Value(interface{}) interface{} { c.use(); return nil }
func (c *c09Ctx) Deadline() (time.Time, bool)   { c.use(); return time.Time{}, false }

type c09Log struct {
	enter bool
	rid   int
	class string
}

var c09Cuts int32 // cases of this run whose rounds were cut short

type c09Hist struct {
	mu      sync.Mutex
	idx     int  // 0: the history; i > 0: the i-th round
	alone   bool // no other case runs beside this one: renders that are to arrive together may spin without yielding
	cap     int
	renders map[int]*c09Render
	log     []c09Log
	mark    int
	wake    chan struct{}
	next    int
	stalled bool
	moved   []int // requests told to go on to their next partial since the last window
}

func init() {
	runners["C09"] = func(in json.RawMessage) (interface{}, error) {
		var cases []c09Case
		if err := json.Unmarshal(in, &cases); err != nil {
			return nil, err
		}
		out := make([]c09Obs, len(cases))
		errs := make([]error, len(cases))
		one := func(i int) {
			defer func() {
				if r := recover(); r != nil {
					errs[i] = fmt.Errorf("driver panic: %v", r)
				}
			}()
			out[i], errs[i] = runC09(cases[i])
		}
		// cases without rounds: side by side
		sem := make(chan struct{}, c09Workers)
		var wg sync.WaitGroup
		for i := range cases {
			if len(cases[i].Shapes) > 0 {
				continue
			}
			wg.Add(1)
			sem <- struct{}{}
			go func(i int) {
				defer wg.Done()
				defer func() { <-sem }()
				one(i)
			}(i)
		}
		wg.Wait()
		// cases with rounds: one at a time, the processors to themselves
		for i := range cases {
			if len(cases[i].Shapes) == 0 {
				continue
			}
			prev := 0
			if p := cases[i].Procs; p > 0 {
				if p > runtime.NumCPU() {
					p = runtime.NumCPU()
				}
				prev = runtime.GOMAXPROCS(p)
			}
			one(i)
			if prev > 0 {
				runtime.GOMAXPROCS(prev)
			}
		}
		for i, err := range errs {
			if err != nil {
				return nil, fmt.Errorf("case %d: %w", i, err)
			}
		}
		return out, nil
	}
}

func (h *c09Hist) signal() {
	select {
	case h.wake <- struct{}{}:
	default:
	}
}

// c09Router hands the calls of the template function to the history / round they belong to.
type c09Router struct {
	mu    sync.Mutex
	hists map[int]*c09Hist
}

func (rt *c09Router) add(h *c09Hist) {
	rt.mu.Lock()
	rt.hists[h.idx] = h
	rt.mu.Unlock()
}

func (rt *c09Router) drop(h *c09Hist) {
	rt.mu.Lock()
	delete(rt.hists, h.idx)
	rt.mu.Unlock()
}

// gate is the template function: report entry, wait for the verdict of the driver.
// id = "h<history>r<render>".
func (rt *c09Router) gate(id interface{}) (interface{}, error) {
	var hi, rid int
	if _, err := fmt.Sscanf(fmt.Sprint(id), "h%dr%d", &hi, &rid); err != nil {
		return nil, fmt.Errorf("gate: bad id %v", id)
	}
	rt.mu.Lock()
	h := rt.hists[hi]
	rt.mu.Unlock()
	if h == nil {
		return nil, fmt.Errorf("gate: unknown id %v", id)
	}
	h.mu.Lock()
	r := h.renders[rid]
	if r == nil {
		h.mu.Unlock()
		return nil, fmt.Errorf("gate: unknown id %v", id)
	}
	r.entered = true
	r.told = false
	r.gcalls++
	h.log = append(h.log, c09Log{enter: true, rid: rid})
	h.mu.Unlock()
	h.signal()
	switch <-r.cmd {
	case "func_error":
		return nil, errors.New("gate: told to fail")
	case "panic":
		panic("gate: told to panic")
	}
	return "x", nil
}

// c09Barrier parks the goroutines of renders that are to call Render at the same
// instant: each reports ready and spins on the flag (yielding the processor only
// when there are not enough processors for all of them to spin).
type c09Barrier struct {
	flag  int32
	ready sync.WaitGroup
	yield bool
}

func (h *c09Hist) start(e renderer, missing bool, partials []string, kind string, k int, bar *c09Barrier) *c09Render {
	r := &c09Render{missing: missing, cmd: make(chan string, 1)}
	if len(partials) > 0 {
		r.missing = false
		for _, p := range partials {
			if p != "g" && p != "m" {
				p = "t"
			}
			r.steps = append(r.steps, p)
		}
		if len(r.steps) > 6 {
			r.steps = r.steps[:6]
		}
	}
	var ctx context.Context
	switch kind {
	case "cancelled":
		ctx, r.cancel = context.WithCancel(context.Background())
		r.end()
	case "expired":
		ctx, r.cancel = context.WithDeadline(context.Background(), time.Now().Add(-time.Second))
		atomic.StoreInt32(&r.over, 1)
	case "at":
		if k < 1 {
			k = 1
		}
		c := &c09Ctx{done: make(chan struct{}), left: k, over: &r.over}
		ctx, r.cancel = c, c.end
	default:
		ctx, r.cancel = context.WithCancel(context.Background())
	}
	h.mu.Lock()
	rid := h.next
	h.next++
	r.rid = rid
	h.renders[rid] = r
	h.mu.Unlock()
	name := "g"
	if r.missing {
		name = "nosuch"
	}
	steps := r.steps
	data := map[string]interface{}{"id": "h" + strconv.Itoa(h.idx) + "r" + strconv.Itoa(rid)}
	go func() {
		if bar != nil {
			bar.ready.Done()
			// spin; when the start does not come (a loaded machine: somebody has not got a
			// processor yet) stop burning the processors the others need
			t0 := time.Now()
			for i := 1; atomic.LoadInt32(&bar.flag) == 0; i++ {
				if bar.yield {
					runtime.Gosched()
				}
				if i%4096 == 0 {
					if d := time.Since(t0); d > 20*time.Millisecond {
						time.Sleep(100 * time.Microsecond)
					} else if d > 2*time.Millisecond {
						runtime.Gosched()
					}
				}
			}
		}
		res := e(ctx, name, data, steps)
		h.mu.Lock()
		r.finished = true
		r.class = res.Class
		h.log = append(h.log, c09Log{rid: rid, class: res.Class})
		h.mu.Unlock()
		h.signal()
	}()
	return r
}

// startTogether starts n renders (live contexts) whose Render calls begin at the same instant.
func (h *c09Hist) startTogether(e renderer, n int, partials []string) (rs []*c09Render, ids []int) {
	bar := &c09Barrier{yield: !h.alone || n >= runtime.GOMAXPROCS(0)}
	bar.ready.Add(n)
	for i := 0; i < n; i++ {
		r := h.start(e, false, partials, "", 0, bar)
		rs = append(rs, r)
		ids = append(ids, r.rid)
	}
	bar.ready.Wait()
	atomic.StoreInt32(&bar.flag, 1)
	return
}

// renderer: Render(name) when partials is empty, otherwise RenderPartials("p", partials)
type renderer func(ctx context.Context, name string, data interface{}, partials []string) renderResult

// more (h.mu held): the partial that is executing is not the last one of its request
func (r *c09Render) more() bool {
	n := 0
	for i, s := range r.steps {
		if s == "g" {
			n++
			if n == r.gcalls {
				return i < len(r.steps)-1
			}
		}
	}
	return false
}

// sets must be called with h.mu held
func (h *c09Hist) sets() (inside, waiting []int) {
	inside, waiting = []int{}, []int{}
	for rid, r := range h.renders {
		switch {
		case r.finished:
		case r.entered:
			inside = append(inside, rid)
		default:
			waiting = append(waiting, rid)
		}
	}
	sort.Ints(inside)
	sort.Ints(waiting)
	return
}

func (h *c09Hist) quiescent() bool {
	inside, waiting := h.sets()
	return len(waiting) == 0 || (h.cap > 0 && len(inside) >= h.cap)
}

// settle waits until pred (evaluated under the lock) holds or the timeout passes,
// then a grace period; it reports whether pred held.
func (h *c09Hist) settle(pred func() bool, timeout, grace time.Duration) bool {
	if h.stalled && (timeout == c09Settle || timeout == c09RSettle) {
		timeout = c09Short
	}
	deadline := time.Now().Add(timeout)
	ok := false
	for {
		h.mu.Lock()
		ok = pred()
		h.mu.Unlock()
		if ok {
			break
		}
		left := time.Until(deadline)
		if left <= 0 {
			break
		}
		t := time.NewTimer(left)
		select {
		case <-h.wake:
		case <-t.C:
		}
		t.Stop()
	}
	if !ok {
		h.stalled = true
	}
	time.Sleep(grace)
	return ok
}

// overNow (h.mu held) reads every over flag once: the renders whose context is over,
// and whether one of them has neither returned nor entered.
func (h *c09Hist) overNow() (over []*c09Render, atGate bool) {
	for _, r := range h.renders {
		if atomic.LoadInt32(&r.over) != 0 {
			over = append(over, r)
			if !r.finished && !r.entered {
				atGate = true
			}
		}
	}
	return
}

// window closes the window: it waits (up to c09Cancel) until no render whose
// context is over is still at the gate, then takes the snapshot; the last test
// and the snapshot are one critical section.
func (h *c09Hist) window(w c09Window, settled bool) c09Window {
	timeout := c09Cancel
	if h.stalled {
		timeout = c09Short
	}
	deadline := time.Now().Add(timeout)
	var over []*c09Render
	for {
		h.mu.Lock()
		var atGate bool
		if over, atGate = h.overNow(); !atGate {
			break
		}
		left := time.Until(deadline)
		if left <= 0 {
			h.stalled = true
			break
		}
		h.mu.Unlock()
		if left > 2*time.Millisecond {
			left = 2 * time.Millisecond // an "at" context that fires does not signal: poll
		}
		t := time.NewTimer(left)
		select {
		case <-h.wake:
		case <-t.C:
		}
		t.Stop()
	}
	defer h.mu.Unlock()
	w.Entered, w.Finished, w.Ended = []int{}, []c09Fin{}, []int{}
	for _, r := range over {
		if !r.overSeen {
			r.overSeen = true
			w.Ended = append(w.Ended, r.rid)
		}
	}
	sort.Ints(w.Ended)
	for _, l := range h.log[h.mark:] {
		if l.enter {
			w.Entered = append(w.Entered, l.rid)
		} else {
			w.Finished = append(w.Finished, c09Fin{Rid: l.rid, Class: l.class})
		}
	}
	h.mark = len(h.log)
	w.Inside, w.Waiting = h.sets()
	w.Moved = h.moved
	if w.Moved == nil {
		w.Moved = []int{}
	}
	h.moved = nil
	w.Settled = settled
	if w.Rids == nil {
		w.Rids = []int{}
	}
	return w
}

func (h *c09Hist) allFinished(rs []*c09Render) func() bool {
	return func() bool {
		for _, r := range rs {
			if !r.finished {
				return false
			}
		}
		return true
	}
}

func (h *c09Hist) tell(r *c09Render, outcome string) {
	h.mu.Lock()
	if r.told || !r.entered {
		h.mu.Unlock()
		return
	}
	r.told = true
	r.moved = false
	if outcome == "ok" && r.more() {
		// back to the gate for the next partial
		r.entered = false
		r.moved = true
		h.moved = append(h.moved, r.rid)
	}
	h.mu.Unlock()
	r.cmd <- outcome
}

// passed: each of the requests that were told has returned, or - told to go on to its
// next partial - is no longer counted as inside (h.mu held)
func (h *c09Hist) passed(rs []*c09Render) func() bool {
	return func() bool {
		for _, r := range rs {
			if !r.finished && !r.moved {
				return false
			}
		}
		return true
	}
}

func runC09(c c09Case) (obs c09Obs, err error) {
	if c.Cap < 0 || c.Cap > 64 {
		return obs, fmt.Errorf("cap out of range")
	}
	dir, err := os.MkdirTemp("", "pv09")
	if err != nil {
		return obs, err
	}
	defer os.RemoveAll(dir)
	ast := `{"type":"Block","nodes":[{"type":"Code","val":"gate(id)","buffer":true,"mustEscape":true,"isInline":true}]}`
	text := `{"type":"Block","nodes":[{"type":"Text","val":"t"}]}`
	if err := writeTree(dir, map[string]string{"template/page/g.ast.json": ast,
		"template/page/p.partial/g.ast.json": ast, "template/page/p.partial/t.ast.json": text}); err != nil {
		return obs, err
	}
	rt := &c09Router{hists: map[int]*c09Hist{}}
	newHist := func(idx int) *c09Hist {
		h := &c09Hist{idx: idx, alone: len(c.Shapes) > 0, cap: c.Cap, renders: map[int]*c09Render{}, wake: make(chan struct{}, 1), next: 1}
		rt.add(h)
		return h
	}
	h := newHist(0)
	extra := map[string]flamingo.TemplateFunc{"gate": tplFunc{rt.gate}}
	n := c.Cap
	if c.ViaInject {
		n = c.Init
	}
	e := newEngine(dir, c.Debug, n, extra)
	if c.ViaInject {
		// the parameter type of Inject is this anonymous struct, tag included
		e.Inject(&struct {
			RateLimit float64 `inject:"config:pug_template.ratelimit"`
		}{RateLimit: float64(c.Cap)})
	}
	if cls, msg := safeLoad(e, ""); cls != clsOK {
		return obs, fmt.Errorf("load failed: %s %s", cls, msg)
	}
	obs.Limit = e.GetRateLimit()
	obs.Procs = runtime.GOMAXPROCS(0)
	obs.Rounds = []c09Round{}
	render := func(ctx context.Context, name string, data interface{}, partials []string) renderResult {
		if len(partials) == 0 {
			return safeRender(e, ctx, name, data)
		}
		names := make([]string, len(partials))
		for i, p := range partials {
			if names[i] = p; p == "m" {
				names[i] = "nosuch"
			}
		}
		return c09Partials(e, ctx, "p", data, names)
	}
	add := func(w c09Window) { obs.Windows = append(obs.Windows, w) }
	byRid := func(ids []int, pick int) *c09Render {
		if len(ids) == 0 {
			return nil
		}
		if pick < 0 {
			pick = -pick
		}
		return h.renders[ids[pick%len(ids)]]
	}

	// ---- the generated history
	for _, a := range c.Actions {
		h.mu.Lock()
		inside, waiting := h.sets()
		var target, target2 *c09Render
		op := a.Op
		switch op {
		case "release":
			target = byRid(inside, a.Pick)
		case "cancel":
			target = byRid(waiting, a.Pick)
		case "race":
			// without a waiter it is a release, without anybody inside a cancel
			target, target2 = byRid(waiting, a.Pick), byRid(inside, a.Pick2)
			if target == nil {
				op, target, target2 = "release", target2, nil
			} else if target2 == nil {
				op = "cancel"
			}
		}
		h.mu.Unlock()
		oc := a.Outcome
		if oc != "func_error" && oc != "panic" {
			oc = "ok"
		}
		switch {
		case op == "start":
			kind := a.Ctx
			if kind != "cancelled" && kind != "expired" && kind != "at" {
				kind = ""
			}
			r := h.start(render, a.Missing, a.Partials, kind, a.K, nil)
			ok := h.settle(h.quiescent, c09Settle, c09Grace)
			add(h.window(c09Window{Phase: "history", Op: "start", Rids: []int{r.rid}, Missing: r.missing, Partials: r.steps, Ctx: kind}, ok))
		case op == "volley":
			n := a.N
			if n < 2 {
				n = 2
			} else if n > 8 {
				n = 8
			}
			rs, ids := h.startTogether(render, n, a.Partials)
			ok := h.settle(h.quiescent, c09Settle, c09Grace)
			add(h.window(c09Window{Phase: "history", Op: "start", Rids: ids, Partials: rs[0].steps}, ok))
		case op == "race":
			d := time.Duration(a.DelayUs) * time.Microsecond
			if d < 0 || d > 500*time.Microsecond {
				d = 0
			}
			pause := func() {
				for t0 := time.Now(); time.Since(t0) < d; {
				}
			}
			switch a.Order {
			case 1:
				h.tell(target2, oc)
				pause()
				target.end()
			case 2:
				target.end()
				pause()
				h.tell(target2, oc)
			default:
				go target.end()
				h.tell(target2, oc)
			}
			left := h.passed([]*c09Render{target2})
			ok := h.settle(func() bool {
				return left() && (target.finished || target.entered) && h.quiescent()
			}, c09Cancel, c09Grace)
			add(h.window(c09Window{Phase: "history", Op: "race", Rids: []int{target.rid, target2.rid}, Outcome: oc}, ok))
		case op == "release" && target != nil:
			h.tell(target, oc)
			done := h.passed([]*c09Render{target})
			ok := h.settle(func() bool { return done() && h.quiescent() }, c09Settle, c09Grace)
			add(h.window(c09Window{Phase: "history", Op: "release", Rids: []int{target.rid}, Outcome: oc}, ok))
		case op == "cancel" && target != nil:
			target.end()
			done := h.allFinished([]*c09Render{target})
			ok := h.settle(func() bool { return done() && h.quiescent() }, c09Cancel, c09Grace)
			w := h.window(c09Window{Phase: "history", Op: "cancel", Rids: []int{target.rid}, Missing: target.missing}, ok)
			h.mu.Lock()
			w.Returned = target.finished
			h.mu.Unlock()
			add(w)
		case op == "probe":
			ok := h.settle(h.quiescent, c09Settle, c09Grace)
			add(h.window(c09Window{Phase: "history", Op: "probe"}, ok))
		default:
			add(h.window(c09Window{Phase: "history", Op: "noop"}, true))
		}
	}
	ok := h.settle(h.quiescent, c09Settle, c09Final)
	add(h.window(c09Window{Phase: "history", Op: "probe"}, ok))

	// ---- drain: let everything out the ordinary way, then give up on what is stuck
	drains := 2
	for _, r := range h.renders {
		drains += 1 + len(r.steps)
	}
	for round := 0; round < drains; round++ {
		h.mu.Lock()
		inside, _ := h.sets()
		var rs []*c09Render
		for _, id := range inside {
			rs = append(rs, h.renders[id])
		}
		h.mu.Unlock()
		if len(rs) == 0 {
			break
		}
		for _, r := range rs {
			h.tell(r, "ok")
		}
		done := h.passed(rs)
		ok := h.settle(func() bool { return done() && h.quiescent() }, c09Settle, c09Grace)
		add(h.window(c09Window{Phase: "drain", Op: "drain", Rids: inside, Outcome: "ok"}, ok))
	}
	h.mu.Lock()
	_, waiting := h.sets()
	var stuck []*c09Render
	for _, id := range waiting {
		stuck = append(stuck, h.renders[id])
	}
	h.mu.Unlock()
	if len(stuck) > 0 {
		for _, r := range stuck {
			r.end()
		}
		done := h.allFinished(stuck)
		ok := h.settle(done, c09Cancel, c09Grace)
		w := h.window(c09Window{Phase: "drain", Op: "drain_cancel", Rids: waiting}, ok)
		w.Returned = ok
		add(w)
	}

	// ---- rounds: callers that arrive together, again and again on the same engine
	var dirty []*c09Hist
	if len(c.Shapes) > 0 && atomic.LoadInt32(&c09Cuts) >= c09MaxCuts {
		obs.RoundsOff = true
	} else if len(c.Shapes) > 0 && !h.stalled && len(stuck) == 0 {
		left := make([]int, len(c.Shapes))
		total := 0
		for i, sh := range c.Shapes {
			if sh.Reps > 0 && sh.Reps <= 5000 {
				left[i] = sh.Reps
				total += sh.Reps
			}
		}
		seen := map[string]int{}
		for n := 0; n < total && !obs.RoundsCut; {
			for i := range c.Shapes {
				if left[i] == 0 || obs.RoundsCut {
					continue
				}
				left[i]--
				rh := newHist(n + 1)
				ws, clean := runC09Round(rh, render, c.Shapes[i])
				key, _ := json.Marshal(struct {
					S int
					W []c09Window
				}{i, ws})
				if j, ok := seen[string(key)]; ok {
					obs.Rounds[j].Count++
				} else {
					seen[string(key)] = len(obs.Rounds)
					obs.Rounds = append(obs.Rounds, c09Round{Shape: i, Count: 1, First: n, Windows: ws})
				}
				n++
				obs.RoundsRun = n
				if clean {
					rt.drop(rh)
				} else {
					dirty = append(dirty, rh)
					obs.RoundsCut = true
					atomic.AddInt32(&c09Cuts, 1)
				}
			}
		}
	}

	// ---- refill probe: limit fresh renders must all get past the gate together
	// (limit disabled: three fresh renders, none may wait)
	k := c.Cap
	if k == 0 {
		k = 3
	}
	var fresh []*c09Render
	var freshIds []int
	for i := 0; i < k; i++ {
		r := h.start(render, false, nil, "", 0, nil)
		fresh = append(fresh, r)
		freshIds = append(freshIds, r.rid)
	}
	allIn := func() bool {
		for _, r := range fresh {
			if !r.entered {
				return false
			}
		}
		return true
	}
	ok = h.settle(allIn, c09Refill, c09Grace)
	add(h.window(c09Window{Phase: "refill", Op: "refill", Rids: freshIds}, ok))
	obs.RefillOK = ok

	// ---- cleanup (not part of the observation)
	for _, x := range append([]*c09Hist{h}, dirty...) {
		obs.Leftover += x.cleanup()
	}
	return obs, nil
}

// c09Partials calls Engine.RenderPartials and maps the ways out to the classes of safeRender.
func c09Partials(e *pugjs.Engine, ctx context.Context, name string, data interface{}, partials []string) (res renderResult) {
	defer func() {
		if r := recover(); r != nil {
			res = renderResult{Class: clsPanic, Err: fmt.Sprint(r)}
		}
	}()
	m, err := e.RenderPartials(ctx, name, data, partials)
	if err != nil {
		return renderResult{Class: classifyErr(err), Err: err.Error()}
	}
	for _, rd := range m {
		_, _ = io.ReadAll(rd)
	}
	return renderResult{Class: clsOK}
}

// cleanup lets everything out that is still there and reports how many goroutines stay blocked.
func (h *c09Hist) cleanup() (leftover int) {
	h.mu.Lock()
	var all []*c09Render
	for _, r := range h.renders {
		if !r.finished {
			all = append(all, r)
		}
	}
	h.mu.Unlock()
	if len(all) == 0 {
		return 0
	}
	for _, r := range all {
		// also for requests still at the gate (the command waits in the buffer); a failure ends
		// a request with several partials at once
		h.mu.Lock()
		pre := !r.told
		r.told = true
		h.mu.Unlock()
		if pre {
			select {
			case r.cmd <- "func_error":
			default:
			}
		}
	}
	h.settle(func() bool {
		// whoever is still waiting gets cancelled as soon as the rest is out
		return h.allFinished(all)() || func() bool { in, _ := h.sets(); return len(in) == 0 }()
	}, c09Settle, 0)
	for _, r := range all {
		r.cancel()
	}
	h.settle(h.allFinished(all), c09Cancel, 0)
	h.mu.Lock()
	for _, r := range all {
		if !r.finished {
			leftover++
		}
	}
	h.mu.Unlock()
	return leftover
}

// runC09Round drives one round on its own history record (render numbers from 1);
// clean = everything went to its end within the bounds and nothing is left behind.
func runC09Round(h *c09Hist, render renderer, sh c09Shape) (ws []c09Window, clean bool) {
	add := func(w c09Window) {
		// rounds that differ only in the order of reports within a window are the same round
		sort.Ints(w.Entered)
		sort.Slice(w.Finished, func(i, j int) bool { return w.Finished[i].Rid < w.Finished[j].Rid })
		ws = append(ws, w)
	}
	oc := sh.Outcome
	if oc != "func_error" && oc != "panic" {
		oc = "ok"
	}
	pre, k := sh.Pre, sh.K
	if pre < 0 || h.cap == 0 {
		pre = 0
	}
	if h.cap > 0 && pre > h.cap-1 {
		pre = h.cap - 1
	}
	if k < 1 {
		k = 1
	} else if k > 16 {
		k = 16
	}
	if pre > 0 {
		rs, ids := h.startTogether(render, pre, nil)
		allIn := func() bool {
			for _, r := range rs {
				if !r.entered {
					return false
				}
			}
			return true
		}
		ok := h.settle(allIn, c09RSettle, 0)
		add(h.window(c09Window{Phase: "round", Op: "start", Rids: ids}, ok))
	}
	// the arrival
	arr, ids := h.startTogether(render, k, sh.Partials)
	ok := h.settle(h.quiescent, c09RSettle, c09RGrace)
	add(h.window(c09Window{Phase: "round", Op: "start", Rids: ids, Partials: arr[0].steps}, ok))
	// contexts of waiting callers end while the renders inside are held
	h.mu.Lock()
	_, waiting := h.sets()
	var targets []*c09Render
	var tids []int
	if n := len(waiting); n > 0 {
		cn := sh.Cancel
		if cn <= 0 || cn > n {
			cn = n
		}
		p := sh.Pick
		if p < 0 {
			p = -p
		}
		for j := 0; j < cn; j++ {
			id := waiting[(p+j)%n]
			targets = append(targets, h.renders[id])
			tids = append(tids, id)
		}
	}
	h.mu.Unlock()
	if len(targets) > 0 {
		for _, r := range targets {
			r.end()
		}
		ok := h.settle(h.allFinished(targets), c09RSettle, 0)
		w := h.window(c09Window{Phase: "round", Op: "cancel", Rids: tids}, ok)
		w.Returned = ok
		add(w)
	}
	// everybody out, the ordinary way
	for round := 0; round < (pre+k)*(1+len(sh.Partials))+2; round++ {
		h.mu.Lock()
		inside, _ := h.sets()
		var rs []*c09Render
		for _, id := range inside {
			rs = append(rs, h.renders[id])
		}
		h.mu.Unlock()
		if len(rs) == 0 {
			break
		}
		for _, r := range rs {
			h.tell(r, oc)
		}
		done := h.passed(rs)
		ok := h.settle(func() bool { return done() && h.quiescent() }, c09RSettle, 0)
		add(h.window(c09Window{Phase: "round", Op: "drain", Rids: inside, Outcome: oc}, ok))
	}
	h.mu.Lock()
	inside, waiting := h.sets()
	var stuck []*c09Render
	for _, id := range waiting {
		stuck = append(stuck, h.renders[id])
	}
	h.mu.Unlock()
	if len(stuck) > 0 {
		for _, r := range stuck {
			r.end()
		}
		ok := h.settle(h.allFinished(stuck), c09RSettle, 0)
		w := h.window(c09Window{Phase: "round", Op: "drain_cancel", Rids: waiting}, ok)
		w.Returned = ok
		add(w)
		h.mu.Lock()
		inside, waiting = h.sets()
		h.mu.Unlock()
	}
	return ws, !h.stalled && len(inside) == 0 && len(waiting) == 0
}
