package main

import (
	"context"
	"encoding/json"
	"errors"
	"fmt"
	"os"
	"sort"
	"strconv"
	"strings"
	"sync"
	"time"

	"flamingo.me/flamingo/v3/framework/flamingo"
)

// C09: the render rate limit.  One case = one engine and one history of driver
// actions.  Renders run in goroutines through safeRender (exported API only);
// a template function gate(id) reports "this render is past the gate" and then
// blocks until the driver tells it which way out to take.  After every action
// the driver SETTLES (waits until the observed state is quiescent, or a
// timeout) and records what it saw.  Nothing here judges anything: the
// expectation "quiescent" only paces the waits.
//
// observed sets, per window:
//   inside  = renders that reported entry (gate called) and whose Render has not returned
//   waiting = renders started, not inside, Render not returned
// quiescent = nobody waiting, or limit > 0 and at least limit renders inside.

const (
	c09Settle  = 200 * time.Millisecond  // per action
	c09Short   = 50 * time.Millisecond   // after a first timeout in the same history
	c09Cancel  = 500 * time.Millisecond  // "promptly" for a cancelled waiter (generous)
	c09Refill  = 1000 * time.Millisecond // final refill probe
	c09Grace   = 2 * time.Millisecond    // after quiescence: catch stragglers (over-admission)
	c09Final   = 20 * time.Millisecond   // grace of the probe that ends the history
	c09Workers = 16
)

type c09Action struct {
	Op      string `json:"op"`      // start | release | cancel | probe
	Missing bool   `json:"missing"` // start: render a template that does not exist
	Pick    int    `json:"pick"`    // release / cancel: index into the sorted inside / waiting set (mod size)
	Outcome string `json:"outcome"` // release: ok | func_error | panic
}

type c09Case struct {
	Cap       int         `json:"cap"`
	ViaInject bool        `json:"via_inject"` // limit set through Engine.Inject (config value) on an engine built with Init
	Init      int         `json:"init"`
	Actions   []c09Action `json:"actions"`
}

type c09Fin struct {
	Rid   int    `json:"rid"`
	Class string `json:"class"`
}

type c09Window struct {
	Phase    string   `json:"phase"` // history | drain | refill
	Op       string   `json:"op"`    // start | release | cancel | probe | noop | drain | drain_cancel | refill
	Rids     []int    `json:"rids"`  // renders the action addressed (started / released / cancelled)
	Missing  bool     `json:"missing"`
	Outcome  string   `json:"outcome,omitempty"`
	Entered  []int    `json:"entered"`  // entry reports that arrived in this window, in order
	Finished []c09Fin `json:"finished"` // Render calls that returned in this window, in order
	Inside   []int    `json:"inside"`
	Waiting  []int    `json:"waiting"`
	Settled  bool     `json:"settled"`  // quiescence was reached before the timeout
	Returned bool     `json:"returned"` // cancel: every cancelled caller returned within the bound
}

type c09Obs struct {
	Limit    int         `json:"limit"` // GetRateLimit()
	Windows  []c09Window `json:"windows"`
	RefillOK bool        `json:"refill_ok"`
	Leftover int         `json:"leftover"` // goroutines still blocked when the case ended (diagnostic)
}

type c09Render struct {
	rid      int
	missing  bool
	cancel   context.CancelFunc
	cmd      chan string
	entered  bool
	finished bool
	told     bool
	class    string
}

type c09Log struct {
	enter bool
	rid   int
	class string
}

type c09Hist struct {
	mu      sync.Mutex
	cap     int
	renders map[int]*c09Render
	log     []c09Log
	mark    int
	wake    chan struct{}
	next    int
	stalled bool
}

func init() {
	runners["C09"] = func(in json.RawMessage) (interface{}, error) {
		var cases []c09Case
		if err := json.Unmarshal(in, &cases); err != nil {
			return nil, err
		}
		out := make([]c09Obs, len(cases))
		errs := make([]error, len(cases))
		sem := make(chan struct{}, c09Workers)
		var wg sync.WaitGroup
		for i := range cases {
			wg.Add(1)
			sem <- struct{}{}
			go func(i int) {
				defer wg.Done()
				defer func() { <-sem }()
				defer func() {
					if r := recover(); r != nil {
						errs[i] = fmt.Errorf("driver panic: %v", r)
					}
				}()
				out[i], errs[i] = runC09(cases[i])
			}(i)
		}
		wg.Wait()
		for i, err := range errs {
			if err != nil {
				return nil, fmt.Errorf("case %d: %w", i, err)
			}
		}
		return out, nil
	}
}

func (h *c09Hist) signal() {
	select {
	case h.wake <- struct{}{}:
	default:
	}
}

// gate is the template function: report entry, wait for the verdict of the driver.
func (h *c09Hist) gate(id interface{}) (interface{}, error) {
	rid, err := strconv.Atoi(strings.TrimPrefix(fmt.Sprint(id), "r"))
	if err != nil {
		return nil, fmt.Errorf("gate: bad id %v", id)
	}
	h.mu.Lock()
	r := h.renders[rid]
	if r == nil {
		h.mu.Unlock()
		return nil, fmt.Errorf("gate: unknown id %v", id)
	}
	r.entered = true
	h.log = append(h.log, c09Log{enter: true, rid: rid})
	h.mu.Unlock()
	h.signal()
	switch <-r.cmd {
	case "func_error":
		return nil, errors.New("gate: told to fail")
	case "panic":
		panic("gate: told to panic")
	}
	return "x", nil
}

func (h *c09Hist) start(e renderer, missing bool) *c09Render {
	ctx, cancel := context.WithCancel(context.Background())
	h.mu.Lock()
	rid := h.next
	h.next++
	r := &c09Render{rid: rid, missing: missing, cancel: cancel, cmd: make(chan string, 1)}
	h.renders[rid] = r
	h.mu.Unlock()
	name := "g"
	if missing {
		name = "nosuch"
	}
	data := map[string]interface{}{"id": "r" + strconv.Itoa(rid)}
	go func() {
		res := e(ctx, name, data)
		h.mu.Lock()
		r.finished = true
		r.class = res.Class
		h.log = append(h.log, c09Log{rid: rid, class: res.Class})
		h.mu.Unlock()
		h.signal()
	}()
	return r
}

type renderer func(ctx context.Context, name string, data interface{}) renderResult

// sets must be called with h.mu held
func (h *c09Hist) sets() (inside, waiting []int) {
	inside, waiting = []int{}, []int{}
	for rid, r := range h.renders {
		switch {
		case r.finished:
		case r.entered:
			inside = append(inside, rid)
		default:
			waiting = append(waiting, rid)
		}
	}
	sort.Ints(inside)
	sort.Ints(waiting)
	return
}

func (h *c09Hist) quiescent() bool {
	inside, waiting := h.sets()
	return len(waiting) == 0 || (h.cap > 0 && len(inside) >= h.cap)
}

// settle waits until pred (evaluated under the lock) holds or the timeout passes,
// then a grace period; it reports whether pred held.
func (h *c09Hist) settle(pred func() bool, timeout, grace time.Duration) bool {
	if h.stalled && timeout == c09Settle {
		timeout = c09Short
	}
	deadline := time.Now().Add(timeout)
	ok := false
	for {
		h.mu.Lock()
		ok = pred()
		h.mu.Unlock()
		if ok {
			break
		}
		left := time.Until(deadline)
		if left <= 0 {
			break
		}
		t := time.NewTimer(left)
		select {
		case <-h.wake:
		case <-t.C:
		}
		t.Stop()
	}
	if !ok {
		h.stalled = true
	}
	time.Sleep(grace)
	return ok
}

func (h *c09Hist) window(w c09Window, settled bool) c09Window {
	h.mu.Lock()
	defer h.mu.Unlock()
	w.Entered, w.Finished = []int{}, []c09Fin{}
	for _, l := range h.log[h.mark:] {
		if l.enter {
			w.Entered = append(w.Entered, l.rid)
		} else {
			w.Finished = append(w.Finished, c09Fin{Rid: l.rid, Class: l.class})
		}
	}
	h.mark = len(h.log)
	w.Inside, w.Waiting = h.sets()
	w.Settled = settled
	if w.Rids == nil {
		w.Rids = []int{}
	}
	return w
}

func (h *c09Hist) allFinished(rs []*c09Render) func() bool {
	return func() bool {
		for _, r := range rs {
			if !r.finished {
				return false
			}
		}
		return true
	}
}

func (h *c09Hist) tell(r *c09Render, outcome string) {
	if !r.told {
		r.told = true
		r.cmd <- outcome
	}
}

func runC09(c c09Case) (obs c09Obs, err error) {
	if c.Cap < 0 || c.Cap > 64 {
		return obs, fmt.Errorf("cap out of range")
	}
	dir, err := os.MkdirTemp("", "pv09")
	if err != nil {
		return obs, err
	}
	defer os.RemoveAll(dir)
	ast := `{"type":"Block","nodes":[{"type":"Code","val":"gate(id)","buffer":true,"mustEscape":true,"isInline":true}]}`
	if err := writeTree(dir, map[string]string{"template/page/g.ast.json": ast}); err != nil {
		return obs, err
	}
	h := &c09Hist{cap: c.Cap, renders: map[int]*c09Render{}, wake: make(chan struct{}, 1), next: 1}
	extra := map[string]flamingo.TemplateFunc{"gate": tplFunc{h.gate}}
	n := c.Cap
	if c.ViaInject {
		n = c.Init
	}
	e := newEngine(dir, false, n, extra)
	if c.ViaInject {
		// the parameter type of Inject is this anonymous struct, tag included
		e.Inject(&struct {
			RateLimit float64 `inject:"config:pug_template.ratelimit"`
		}{RateLimit: float64(c.Cap)})
	}
	if cls, msg := safeLoad(e, ""); cls != clsOK {
		return obs, fmt.Errorf("load failed: %s %s", cls, msg)
	}
	obs.Limit = e.GetRateLimit()
	render := func(ctx context.Context, name string, data interface{}) renderResult {
		return safeRender(e, ctx, name, data)
	}
	add := func(w c09Window) { obs.Windows = append(obs.Windows, w) }
	byRid := func(ids []int, pick int) *c09Render {
		if len(ids) == 0 {
			return nil
		}
		if pick < 0 {
			pick = -pick
		}
		return h.renders[ids[pick%len(ids)]]
	}

	// ---- the generated history
	for _, a := range c.Actions {
		h.mu.Lock()
		inside, waiting := h.sets()
		var target *c09Render
		switch a.Op {
		case "release":
			target = byRid(inside, a.Pick)
		case "cancel":
			target = byRid(waiting, a.Pick)
		}
		h.mu.Unlock()
		switch {
		case a.Op == "start":
			r := h.start(render, a.Missing)
			ok := h.settle(h.quiescent, c09Settle, c09Grace)
			add(h.window(c09Window{Phase: "history", Op: "start", Rids: []int{r.rid}, Missing: a.Missing}, ok))
		case a.Op == "release" && target != nil:
			oc := a.Outcome
			if oc != "func_error" && oc != "panic" {
				oc = "ok"
			}
			h.tell(target, oc)
			done := h.allFinished([]*c09Render{target})
			ok := h.settle(func() bool { return done() && h.quiescent() }, c09Settle, c09Grace)
			add(h.window(c09Window{Phase: "history", Op: "release", Rids: []int{target.rid}, Outcome: oc}, ok))
		case a.Op == "cancel" && target != nil:
			target.cancel()
			done := h.allFinished([]*c09Render{target})
			ok := h.settle(func() bool { return done() && h.quiescent() }, c09Cancel, c09Grace)
			w := h.window(c09Window{Phase: "history", Op: "cancel", Rids: []int{target.rid}, Missing: target.missing}, ok)
			h.mu.Lock()
			w.Returned = target.finished
			h.mu.Unlock()
			add(w)
		case a.Op == "probe":
			ok := h.settle(h.quiescent, c09Settle, c09Grace)
			add(h.window(c09Window{Phase: "history", Op: "probe"}, ok))
		default:
			add(h.window(c09Window{Phase: "history", Op: "noop"}, true))
		}
	}
	ok := h.settle(h.quiescent, c09Settle, c09Final)
	add(h.window(c09Window{Phase: "history", Op: "probe"}, ok))

	// ---- drain: let everything out the ordinary way, then give up on what is stuck
	for round := 0; round < len(h.renders)+2; round++ {
		h.mu.Lock()
		inside, _ := h.sets()
		var rs []*c09Render
		for _, id := range inside {
			rs = append(rs, h.renders[id])
		}
		h.mu.Unlock()
		if len(rs) == 0 {
			break
		}
		for _, r := range rs {
			h.tell(r, "ok")
		}
		done := h.allFinished(rs)
		ok := h.settle(func() bool { return done() && h.quiescent() }, c09Settle, c09Grace)
		add(h.window(c09Window{Phase: "drain", Op: "drain", Rids: inside, Outcome: "ok"}, ok))
	}
	h.mu.Lock()
	_, waiting := h.sets()
	var stuck []*c09Render
	for _, id := range waiting {
		stuck = append(stuck, h.renders[id])
	}
	h.mu.Unlock()
	if len(stuck) > 0 {
		for _, r := range stuck {
			r.cancel()
		}
		done := h.allFinished(stuck)
		ok := h.settle(done, c09Cancel, c09Grace)
		w := h.window(c09Window{Phase: "drain", Op: "drain_cancel", Rids: waiting}, ok)
		w.Returned = ok
		add(w)
	}

	// ---- refill probe: limit fresh renders must all get past the gate together
	// (limit disabled: three fresh renders, none may wait)
	k := c.Cap
	if k == 0 {
		k = 3
	}
	var fresh []*c09Render
	var freshIds []int
	for i := 0; i < k; i++ {
		r := h.start(render, false)
		fresh = append(fresh, r)
		freshIds = append(freshIds, r.rid)
	}
	allIn := func() bool {
		for _, r := range fresh {
			if !r.entered {
				return false
			}
		}
		return true
	}
	ok = h.settle(allIn, c09Refill, c09Grace)
	add(h.window(c09Window{Phase: "refill", Op: "refill", Rids: freshIds}, ok))
	obs.RefillOK = ok

	// ---- cleanup (not part of the observation)
	h.mu.Lock()
	var all []*c09Render
	for _, r := range h.renders {
		if !r.finished {
			all = append(all, r)
		}
	}
	h.mu.Unlock()
	for _, r := range all {
		h.tell(r, "ok")
	}
	h.settle(func() bool {
		// whoever is still waiting gets cancelled as soon as the rest is out
		return h.allFinished(all)() || func() bool { in, _ := h.sets(); return len(in) == 0 }()
	}, c09Settle, 0)
	for _, r := range all {
		r.cancel()
	}
	h.settle(h.allFinished(all), c09Cancel, 0)
	h.mu.Lock()
	for _, r := range all {
		if !r.finished {
			obs.Leftover++
		}
	}
	h.mu.Unlock()
	return obs, nil
}
