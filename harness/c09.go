package main

import (
	"context"
	"encoding/json"
	"errors"
	"fmt"
	"os"
	"sort"
	"strconv"
	"strings"
	"sync"
	"sync/atomic"
	"time"

	"flamingo.me/flamingo/v3/framework/flamingo"
)

// C09: the render rate limit.  One case = one engine and one history of driver
// actions.  Renders run in goroutines through safeRender (exported API only);
// a template function gate(id) reports "this render is past the gate" and then
// blocks until the driver tells it which way out to take.  After every action
// the driver SETTLES (waits until the observed state is quiescent, or a
// timeout) and records what it saw.  Nothing here judges anything: the
// expectation "quiescent" only paces the waits.
//
// observed sets, per window:
//   inside  = renders that reported entry (gate called) and whose Render has not returned
//   waiting = renders started, not inside, Render not returned
// quiescent = nobody waiting, or limit > 0 and at least limit renders inside.
//
// Contexts.  A render is started with one of
//   ""          a live context (context.WithCancel), ended only by a cancel / race action
//   "cancelled" a context that was cancelled before Render is called
//   "expired"   a context whose deadline passed before Render is called
//   "at"        c09Ctx: a context that ends by itself at the K-th use anybody makes of it
//               (Done / Err / Value / Deadline, also through derived contexts), i.e. at a
//               point of Render's own progress: before the select, in it, right after it, ...
// "over" = the context of the render is known to be over.  A window is closed only
// when no render whose context is over is still at the gate (neither returned nor
// inside), or after c09Cancel: that is the observation behind "promptly".
// The race action ends the context of a waiting render WHILE it tells a render
// inside to leave (concurrently, or one a few microseconds after the other).

const (
	c09Settle  = 1000 * time.Millisecond // per action (generous: the machine may be heavily loaded)
	c09Short   = 100 * time.Millisecond  // after a first timeout in the same history
	c09Cancel  = 2000 * time.Millisecond // "promptly" for a caller whose context is over (generous)
	c09Refill  = 3000 * time.Millisecond // final refill probe
	c09Grace   = 2 * time.Millisecond    // after quiescence: catch stragglers (over-admission)
	c09Final   = 20 * time.Millisecond   // grace of the probe that ends the history
	c09Workers = 16
)

type c09Action struct {
	Op      string `json:"op"`                 // start | release | cancel | race | probe
	Missing bool   `json:"missing"`            // start: render a template that does not exist
	Pick    int    `json:"pick"`               // release / cancel / race: index into the sorted inside / waiting set (mod size)
	Outcome string `json:"outcome"`            // release / race: ok | func_error | panic
	Ctx     string `json:"ctx,omitempty"`      // start: "" | cancelled | expired | at
	K       int    `json:"k,omitempty"`        // start, ctx "at": the context ends at its K-th use (K >= 1)
	Pick2   int    `json:"pick2,omitempty"`    // race: index of the render inside that is told to leave
	Order   int    `json:"order,omitempty"`    // race: 0 both at once (two goroutines), 1 release then cancel, 2 cancel then release
	DelayUs int    `json:"delay_us,omitempty"` // race, order 1 / 2: pause between the two (busy wait, <= 500)
}

type c09Case struct {
	Cap       int         `json:"cap"`
	ViaInject bool        `json:"via_inject"` // limit set through Engine.Inject (config value) on an engine built with Init
	Init      int         `json:"init"`
	Actions   []c09Action `json:"actions"`
}

type c09Fin struct {
	Rid   int    `json:"rid"`
	Class string `json:"class"`
}

type c09Window struct {
	Phase    string   `json:"phase"` // history | drain | refill
	Op       string   `json:"op"`    // start | release | cancel | probe | noop | drain | drain_cancel | refill
	Rids     []int    `json:"rids"`  // renders the action addressed (started / released / cancelled)
	Missing  bool     `json:"missing"`
	Outcome  string   `json:"outcome,omitempty"`
	Ctx      string   `json:"ctx,omitempty"` // start: the kind of context
	Entered  []int    `json:"entered"`       // entry reports that arrived in this window, in order
	Ended    []int    `json:"ended"`         // renders whose context was seen to be over for the first time in this window
	Finished []c09Fin `json:"finished"`      // Render calls that returned in this window, in order
	Inside   []int    `json:"inside"`
	Waiting  []int    `json:"waiting"`
	Settled  bool     `json:"settled"`  // quiescence was reached before the timeout
	Returned bool     `json:"returned"` // cancel: every cancelled caller returned within the bound
}

type c09Obs struct {
	Limit    int         `json:"limit"` // GetRateLimit()
	Windows  []c09Window `json:"windows"`
	RefillOK bool        `json:"refill_ok"`
	Leftover int         `json:"leftover"` // goroutines still blocked when the case ended (diagnostic)
}

type c09Render struct {
	rid      int
	missing  bool
	cancel   context.CancelFunc
	cmd      chan string
	entered  bool
	finished bool
	told     bool
	class    string
	over     int32 // atomic: the context is over (set before the cancel is issued / when an "at" context fires)
	overSeen bool  // reported in some window's Ended
}

func (r *c09Render) end() {
	atomic.StoreInt32(&r.over, 1)
	r.cancel()
}

// c09Ctx is a context that ends (context.Canceled) at its K-th use.  It keeps the
// Context contract: Err is non-nil exactly when Done is closed; the use that
// makes it end already sees it ended, as if another goroutine had cancelled it
// just before.  left < 0: never by itself.
type c09Ctx struct {
	mu   sync.Mutex
	done chan struct{}
	err  error
	left int
	over *int32
	wake func()
}

func (c *c09Ctx) use() {
	c.mu.Lock()
	if c.left > 0 {
		c.left--
		if c.left == 0 {
			c.endLocked()
		}
	}
	c.mu.Unlock()
}

func (c *c09Ctx) endLocked() {
	if c.err == nil {
		atomic.StoreInt32(c.over, 1)
		c.err = context.Canceled
		close(c.done)
		c.left = -1
	}
}

func (c *c09Ctx) end() {
	c.mu.Lock()
	c.endLocked()
	c.mu.Unlock()
}

func (c *c09Ctx) Done() <-chan struct{} { c.use(); return c.done }
func (c *c09Ctx) Err() error {
	c.use()
	c.mu.Lock()
	defer c.mu.Unlock()
	return c.err
}
func (c *c09Ctx) Value(interface{}) interface{} { c.use(); return nil }
func (c *c09Ctx) Deadline() (time.Time, bool)   { c.use(); return time.Time{}, false }

type c09Log struct {
	enter bool
	rid   int
	class string
}

type c09Hist struct {
	mu      sync.Mutex
	cap     int
	renders map[int]*c09Render
	log     []c09Log
	mark    int
	wake    chan struct{}
	next    int
	stalled bool
}

func init() {
	runners["C09"] = func(in json.RawMessage) (interface{}, error) {
		var cases []c09Case
		if err := json.Unmarshal(in, &cases); err != nil {
			return nil, err
		}
		out := make([]c09Obs, len(cases))
		errs := make([]error, len(cases))
		sem := make(chan struct{}, c09Workers)
		var wg sync.WaitGroup
		for i := range cases {
			wg.Add(1)
			sem <- struct{}{}
			go func(i int) {
				defer wg.Done()
				defer func() { <-sem }()
				defer func() {
					if r := recover(); r != nil {
						errs[i] = fmt.Errorf("driver panic: %v", r)
					}
				}()
				out[i], errs[i] = runC09(cases[i])
			}(i)
		}
		wg.Wait()
		for i, err := range errs {
			if err != nil {
				return nil, fmt.Errorf("case %d: %w", i, err)
			}
		}
		return out, nil
	}
}

func (h *c09Hist) signal() {
	select {
	case h.wake <- struct{}{}:
	default:
	}
}

// gate is the template function: report entry, wait for the verdict of the driver.
func (h *c09Hist) gate(id interface{}) (interface{}, error) {
	rid, err := strconv.Atoi(strings.TrimPrefix(fmt.Sprint(id), "r"))
	if err != nil {
		return nil, fmt.Errorf("gate: bad id %v", id)
	}
	h.mu.Lock()
	r := h.renders[rid]
	if r == nil {
		h.mu.Unlock()
		return nil, fmt.Errorf("gate: unknown id %v", id)
	}
	r.entered = true
	h.log = append(h.log, c09Log{enter: true, rid: rid})
	h.mu.Unlock()
	h.signal()
	switch <-r.cmd {
	case "func_error":
		return nil, errors.New("gate: told to fail")
	case "panic":
		panic("gate: told to panic")
	}
	return "x", nil
}

func (h *c09Hist) start(e renderer, missing bool, kind string, k int) *c09Render {
	r := &c09Render{missing: missing, cmd: make(chan string, 1)}
	var ctx context.Context
	switch kind {
	case "cancelled":
		ctx, r.cancel = context.WithCancel(context.Background())
		r.end()
	case "expired":
		ctx, r.cancel = context.WithDeadline(context.Background(), time.Now().Add(-time.Second))
		atomic.StoreInt32(&r.over, 1)
	case "at":
		if k < 1 {
			k = 1
		}
		c := &c09Ctx{done: make(chan struct{}), left: k, over: &r.over}
		ctx, r.cancel = c, c.end
	default:
		ctx, r.cancel = context.WithCancel(context.Background())
	}
	h.mu.Lock()
	rid := h.next
	h.next++
	r.rid = rid
	h.renders[rid] = r
	h.mu.Unlock()
	name := "g"
	if missing {
		name = "nosuch"
	}
	data := map[string]interface{}{"id": "r" + strconv.Itoa(rid)}
	go func() {
		res := e(ctx, name, data)
		h.mu.Lock()
		r.finished = true
		r.class = res.Class
		h.log = append(h.log, c09Log{rid: rid, class: res.Class})
		h.mu.Unlock()
		h.signal()
	}()
	return r
}

type renderer func(ctx context.Context, name string, data interface{}) renderResult

// sets must be called with h.mu held
func (h *c09Hist) sets() (inside, waiting []int) {
	inside, waiting = []int{}, []int{}
	for rid, r := range h.renders {
		switch {
		case r.finished:
		case r.entered:
			inside = append(inside, rid)
		default:
			waiting = append(waiting, rid)
		}
	}
	sort.Ints(inside)
	sort.Ints(waiting)
	return
}

func (h *c09Hist) quiescent() bool {
	inside, waiting := h.sets()
	return len(waiting) == 0 || (h.cap > 0 && len(inside) >= h.cap)
}

// settle waits until pred (evaluated under the lock) holds or the timeout passes,
// then a grace period; it reports whether pred held.
func (h *c09Hist) settle(pred func() bool, timeout, grace time.Duration) bool {
	if h.stalled && timeout == c09Settle {
		timeout = c09Short
	}
	deadline := time.Now().Add(timeout)
	ok := false
	for {
		h.mu.Lock()
		ok = pred()
		h.mu.Unlock()
		if ok {
			break
		}
		left := time.Until(deadline)
		if left <= 0 {
			break
		}
		t := time.NewTimer(left)
		select {
		case <-h.wake:
		case <-t.C:
		}
		t.Stop()
	}
	if !ok {
		h.stalled = true
	}
	time.Sleep(grace)
	return ok
}

// overNow (h.mu held) reads every over flag once: the renders whose context is over,
// and whether one of them has neither returned nor entered.
func (h *c09Hist) overNow() (over []*c09Render, atGate bool) {
	for _, r := range h.renders {
		if atomic.LoadInt32(&r.over) != 0 {
			over = append(over, r)
			if !r.finished && !r.entered {
				atGate = true
			}
		}
	}
	return
}

// window closes the window: it waits (up to c09Cancel) until no render whose
// context is over is still at the gate, then takes the snapshot; the last test
// and the snapshot are one critical section.
func (h *c09Hist) window(w c09Window, settled bool) c09Window {
	timeout := c09Cancel
	if h.stalled {
		timeout = c09Short
	}
	deadline := time.Now().Add(timeout)
	var over []*c09Render
	for {
		h.mu.Lock()
		var atGate bool
		if over, atGate = h.overNow(); !atGate {
			break
		}
		left := time.Until(deadline)
		if left <= 0 {
			h.stalled = true
			break
		}
		h.mu.Unlock()
		if left > 2*time.Millisecond {
			left = 2 * time.Millisecond // an "at" context that fires does not signal: poll
		}
		t := time.NewTimer(left)
		select {
		case <-h.wake:
		case <-t.C:
		}
		t.Stop()
	}
	defer h.mu.Unlock()
	w.Entered, w.Finished, w.Ended = []int{}, []c09Fin{}, []int{}
	for _, r := range over {
		if !r.overSeen {
			r.overSeen = true
			w.Ended = append(w.Ended, r.rid)
		}
	}
	sort.Ints(w.Ended)
	for _, l := range h.log[h.mark:] {
		if l.enter {
			w.Entered = append(w.Entered, l.rid)
		} else {
			w.Finished = append(w.Finished, c09Fin{Rid: l.rid, Class: l.class})
		}
	}
	h.mark = len(h.log)
	w.Inside, w.Waiting = h.sets()
	w.Settled = settled
	if w.Rids == nil {
		w.Rids = []int{}
	}
	return w
}

func (h *c09Hist) allFinished(rs []*c09Render) func() bool {
	return func() bool {
		for _, r := range rs {
			if !r.finished {
				return false
			}
		}
		return true
	}
}

func (h *c09Hist) tell(r *c09Render, outcome string) {
	if !r.told {
		r.told = true
		r.cmd <- outcome
	}
}

func runC09(c c09Case) (obs c09Obs, err error) {
	if c.Cap < 0 || c.Cap > 64 {
		return obs, fmt.Errorf("cap out of range")
	}
	dir, err := os.MkdirTemp("", "pv09")
	if err != nil {
		return obs, err
	}
	defer os.RemoveAll(dir)
	ast := `{"type":"Block","nodes":[{"type":"Code","val":"gate(id)","buffer":true,"mustEscape":true,"isInline":true}]}`
	if err := writeTree(dir, map[string]string{"template/page/g.ast.json": ast}); err != nil {
		return obs, err
	}
	h := &c09Hist{cap: c.Cap, renders: map[int]*c09Render{}, wake: make(chan struct{}, 1), next: 1}
	extra := map[string]flamingo.TemplateFunc{"gate": tplFunc{h.gate}}
	n := c.Cap
	if c.ViaInject {
		n = c.Init
	}
	e := newEngine(dir, false, n, extra)
	if c.ViaInject {
		// the parameter type of Inject is this anonymous struct, tag included
		e.Inject(&struct {
			RateLimit float64 `inject:"config:pug_template.ratelimit"`
		}{RateLimit: float64(c.Cap)})
	}
	if cls, msg := safeLoad(e, ""); cls != clsOK {
		return obs, fmt.Errorf("load failed: %s %s", cls, msg)
	}
	obs.Limit = e.GetRateLimit()
	render := func(ctx context.Context, name string, data interface{}) renderResult {
		return safeRender(e, ctx, name, data)
	}
	add := func(w c09Window) { obs.Windows = append(obs.Windows, w) }
	byRid := func(ids []int, pick int) *c09Render {
		if len(ids) == 0 {
			return nil
		}
		if pick < 0 {
			pick = -pick
		}
		return h.renders[ids[pick%len(ids)]]
	}

	// ---- the generated history
	for _, a := range c.Actions {
		h.mu.Lock()
		inside, waiting := h.sets()
		var target, target2 *c09Render
		op := a.Op
		switch op {
		case "release":
			target = byRid(inside, a.Pick)
		case "cancel":
			target = byRid(waiting, a.Pick)
		case "race":
			// without a waiter it is a release, without anybody inside a cancel
			target, target2 = byRid(waiting, a.Pick), byRid(inside, a.Pick2)
			if target == nil {
				op, target, target2 = "release", target2, nil
			} else if target2 == nil {
				op = "cancel"
			}
		}
		h.mu.Unlock()
		oc := a.Outcome
		if oc != "func_error" && oc != "panic" {
			oc = "ok"
		}
		switch {
		case op == "start":
			kind := a.Ctx
			if kind != "cancelled" && kind != "expired" && kind != "at" {
				kind = ""
			}
			r := h.start(render, a.Missing, kind, a.K)
			ok := h.settle(h.quiescent, c09Settle, c09Grace)
			add(h.window(c09Window{Phase: "history", Op: "start", Rids: []int{r.rid}, Missing: a.Missing, Ctx: kind}, ok))
		case op == "race":
			d := time.Duration(a.DelayUs) * time.Microsecond
			if d < 0 || d > 500*time.Microsecond {
				d = 0
			}
			pause := func() {
				for t0 := time.Now(); time.Since(t0) < d; {
				}
			}
			switch a.Order {
			case 1:
				h.tell(target2, oc)
				pause()
				target.end()
			case 2:
				target.end()
				pause()
				h.tell(target2, oc)
			default:
				go target.end()
				h.tell(target2, oc)
			}
			left := h.allFinished([]*c09Render{target2})
			ok := h.settle(func() bool {
				return left() && (target.finished || target.entered) && h.quiescent()
			}, c09Cancel, c09Grace)
			add(h.window(c09Window{Phase: "history", Op: "race", Rids: []int{target.rid, target2.rid}, Outcome: oc}, ok))
		case op == "release" && target != nil:
			h.tell(target, oc)
			done := h.allFinished([]*c09Render{target})
			ok := h.settle(func() bool { return done() && h.quiescent() }, c09Settle, c09Grace)
			add(h.window(c09Window{Phase: "history", Op: "release", Rids: []int{target.rid}, Outcome: oc}, ok))
		case op == "cancel" && target != nil:
			target.end()
			done := h.allFinished([]*c09Render{target})
			ok := h.settle(func() bool { return done() && h.quiescent() }, c09Cancel, c09Grace)
			w := h.window(c09Window{Phase: "history", Op: "cancel", Rids: []int{target.rid}, Missing: target.missing}, ok)
			h.mu.Lock()
			w.Returned = target.finished
			h.mu.Unlock()
			add(w)
		case op == "probe":
			ok := h.settle(h.quiescent, c09Settle, c09Grace)
			add(h.window(c09Window{Phase: "history", Op: "probe"}, ok))
		default:
			add(h.window(c09Window{Phase: "history", Op: "noop"}, true))
		}
	}
	ok := h.settle(h.quiescent, c09Settle, c09Final)
	add(h.window(c09Window{Phase: "history", Op: "probe"}, ok))

	// ---- drain: let everything out the ordinary way, then give up on what is stuck
	for round := 0; round < len(h.renders)+2; round++ {
		h.mu.Lock()
		inside, _ := h.sets()
		var rs []*c09Render
		for _, id := range inside {
			rs = append(rs, h.renders[id])
		}
		h.mu.Unlock()
		if len(rs) == 0 {
			break
		}
		for _, r := range rs {
			h.tell(r, "ok")
		}
		done := h.allFinished(rs)
		ok := h.settle(func() bool { return done() && h.quiescent() }, c09Settle, c09Grace)
		add(h.window(c09Window{Phase: "drain", Op: "drain", Rids: inside, Outcome: "ok"}, ok))
	}
	h.mu.Lock()
	_, waiting := h.sets()
	var stuck []*c09Render
	for _, id := range waiting {
		stuck = append(stuck, h.renders[id])
	}
	h.mu.Unlock()
	if len(stuck) > 0 {
		for _, r := range stuck {
			r.end()
		}
		done := h.allFinished(stuck)
		ok := h.settle(done, c09Cancel, c09Grace)
		w := h.window(c09Window{Phase: "drain", Op: "drain_cancel", Rids: waiting}, ok)
		w.Returned = ok
		add(w)
	}

	// ---- refill probe: limit fresh renders must all get past the gate together
	// (limit disabled: three fresh renders, none may wait)
	k := c.Cap
	if k == 0 {
		k = 3
	}
	var fresh []*c09Render
	var freshIds []int
	for i := 0; i < k; i++ {
		r := h.start(render, false, "", 0)
		fresh = append(fresh, r)
		freshIds = append(freshIds, r.rid)
	}
	allIn := func() bool {
		for _, r := range fresh {
			if !r.entered {
				return false
			}
		}
		return true
	}
	ok = h.settle(allIn, c09Refill, c09Grace)
	add(h.window(c09Window{Phase: "refill", Op: "refill", Rids: freshIds}, ok))
	obs.RefillOK = ok

	// ---- cleanup (not part of the observation)
	h.mu.Lock()
	var all []*c09Render
	for _, r := range h.renders {
		if !r.finished {
			all = append(all, r)
		}
	}
	h.mu.Unlock()
	for _, r := range all {
		h.tell(r, "ok")
	}
	h.settle(func() bool {
		// whoever is still waiting gets cancelled as soon as the rest is out
		return h.allFinished(all)() || func() bool { in, _ := h.sets(); return len(in) == 0 }()
	}, c09Settle, 0)
	for _, r := range all {
		r.cancel()
	}
	h.settle(h.allFinished(all), c09Cancel, 0)
	h.mu.Lock()
	for _, r := range all {
		if !r.finished {
			obs.Leftover++
		}
	}
	h.mu.Unlock()
	return obs, nil
}
