package main

// C11: Go data reachable from templates by lower-camel paths; absent data prints nothing.
//
// One case = one Go data value (described as a typed tree, built here with reflect: dynamically
// shaped structs through reflect.StructOf, a fixed family of hand-written types for unexported
// fields / methods / embedded pointers / named interfaces) and a list of paths. Every path is
// compiled as its own template (`= path` or `!= path`) on one engine and rendered with the value
// as page data. Observation per path: outcome class and output bytes (hex). Error text is
// reported for diagnostics only and never compared.

import (
	"context"
	"encoding/json"
	"fmt"
	"os"
	"reflect"
	"strconv"
	"strings"

	"flamingo.me/flamingo/v3/framework/flamingo"
	"flamingo.me/pugtemplate/pugjs"
)

type c11Node struct {
	Ty json.RawMessage `json:"ty"`
	V  json.RawMessage `json:"v"`
}

type c11Step struct {
	F *string `json:"f,omitempty"` // .name  (hex)
	K *string `json:"k,omitempty"` // ['key'] (hex)
	I *int    `json:"i,omitempty"` // [3]
}

type c11Path struct {
	Steps []c11Step `json:"steps"`
	Raw   bool      `json:"raw"` // != path (unescaped) instead of = path
}

type c11Case struct {
	Data  c11Node   `json:"data"`
	Paths []c11Path `json:"paths"`
}

type c11Obs struct {
	Load  string         `json:"load"`
	Msg   string         `json:"msg,omitempty"`
	Src   []string       `json:"src"` // JS source of each path (diagnostic)
	Code  []string       `json:"code,omitempty"`
	Paths []renderResult `json:"paths"`
}

// ---------------------------------------------------------------- the fixed family of types

// C11Labeler is an interface type with a method: a "named interface" field.
type C11Labeler interface{ Label() string }

// C11Base is embedded (by pointer and by value) below.
type C11Base struct {
	Code int
	Note string
}

// BaseNote has a pointer receiver and tolerates a nil receiver (an embedded nil pointer).
func (b *C11Base) BaseNote() string {
	if b == nil {
		return "nobase"
	}
	return "note:" + b.Note
}

// C11Item has exported and unexported fields, value- and pointer-receiver methods.
type C11Item struct {
	Name   string
	Count  int
	hidden string
	Next   *C11Item
	Any    interface{}
	Lab    C11Labeler
	Tags   []string
	Attrs  map[string]int
	Kids   map[string]*C11Item
}

func (i C11Item) Label() string     { return "L:" + i.Name }
func (i C11Item) Double() int       { return 2 * i.Count }
func (i C11Item) TagList() []string { return i.Tags }
func (i *C11Item) Total() int       { return i.Count + len(i.Tags) }
func (i *C11Item) Follow() *C11Item { return i.Next }
func (i *C11Item) IsBig() bool      { return i.Count > 100 }

// C11Emb embeds a pointer; BaseNote is promoted into the method set of C11Emb and *C11Emb.
type C11Emb struct {
	*C11Base
	Title  string
	secret int
}

func (e C11Emb) Label() string { return "E:" + e.Title }

// C11EmbV embeds a value; BaseNote is promoted into the method set of *C11EmbV only.
type C11EmbV struct {
	C11Base
	Title string
}

var c11Named = map[string]reflect.Type{
	"Item":    reflect.TypeOf(C11Item{}),
	"Base":    reflect.TypeOf(C11Base{}),
	"Emb":     reflect.TypeOf(C11Emb{}),
	"EmbV":    reflect.TypeOf(C11EmbV{}),
	"Labeler": reflect.TypeOf((*C11Labeler)(nil)).Elem(),
}

var c11Basic = map[string]reflect.Type{
	"iface":   reflect.TypeOf((*interface{})(nil)).Elem(),
	"str":     reflect.TypeOf(""),
	"bool":    reflect.TypeOf(true),
	"int":     reflect.TypeOf(int(0)),
	"int8":    reflect.TypeOf(int8(0)),
	"int16":   reflect.TypeOf(int16(0)),
	"int32":   reflect.TypeOf(int32(0)),
	"int64":   reflect.TypeOf(int64(0)),
	"uint":    reflect.TypeOf(uint(0)),
	"uint8":   reflect.TypeOf(uint8(0)),
	"uint16":  reflect.TypeOf(uint16(0)),
	"uint32":  reflect.TypeOf(uint32(0)),
	"uint64":  reflect.TypeOf(uint64(0)),
	"float32": reflect.TypeOf(float32(0)),
	"float64": reflect.TypeOf(float64(0)),
	"func":    reflect.TypeOf(func() string { return "" }),
	"chan":    reflect.TypeOf(make(chan int)),
}

func c11Type(raw json.RawMessage) (reflect.Type, error) {
	var s string
	if json.Unmarshal(raw, &s) == nil {
		if t, ok := c11Basic[s]; ok {
			return t, nil
		}
		if t, ok := c11Named[s]; ok {
			return t, nil
		}
		return nil, fmt.Errorf("unknown type %q", s)
	}
	var m map[string]json.RawMessage
	if err := json.Unmarshal(raw, &m); err != nil {
		return nil, err
	}
	if e, ok := m["slice"]; ok {
		t, err := c11Type(e)
		if err != nil {
			return nil, err
		}
		return reflect.SliceOf(t), nil
	}
	if e, ok := m["map"]; ok {
		t, err := c11Type(e)
		if err != nil {
			return nil, err
		}
		return reflect.MapOf(reflect.TypeOf(""), t), nil
	}
	if e, ok := m["ptr"]; ok {
		t, err := c11Type(e)
		if err != nil {
			return nil, err
		}
		return reflect.PtrTo(t), nil
	}
	if e, ok := m["struct"]; ok {
		var fs [][2]json.RawMessage
		if err := json.Unmarshal(e, &fs); err != nil {
			return nil, err
		}
		fields := make([]reflect.StructField, len(fs))
		for i, f := range fs {
			var name string
			if err := json.Unmarshal(f[0], &name); err != nil {
				return nil, err
			}
			t, err := c11Type(f[1])
			if err != nil {
				return nil, err
			}
			fields[i] = reflect.StructField{Name: name, Type: t}
		}
		return reflect.StructOf(fields), nil
	}
	return nil, fmt.Errorf("bad type descriptor %s", raw)
}

// c11Build returns an addressable-free reflect.Value of exactly the node's type.
func c11Build(n c11Node) (reflect.Value, error) {
	t, err := c11Type(n.Ty)
	if err != nil {
		return reflect.Value{}, err
	}
	isNull := len(n.V) == 0 || string(n.V) == "null"
	res := reflect.New(t).Elem()
	switch t.Kind() {
	case reflect.Interface:
		if isNull {
			return res, nil
		}
		var inner c11Node
		if err := json.Unmarshal(n.V, &inner); err != nil {
			return res, err
		}
		v, err := c11Build(inner)
		if err != nil {
			return res, err
		}
		if v.Kind() == reflect.Interface && v.IsNil() {
			return res, nil
		}
		if !v.Type().AssignableTo(t) {
			return res, fmt.Errorf("%s not assignable to %s", v.Type(), t)
		}
		res.Set(v)
	case reflect.String:
		var s string
		if err := json.Unmarshal(n.V, &s); err != nil {
			return res, err
		}
		res.SetString(unhx(s))
	case reflect.Bool:
		var b bool
		if err := json.Unmarshal(n.V, &b); err != nil {
			return res, err
		}
		res.SetBool(b)
	case reflect.Int, reflect.Int8, reflect.Int16, reflect.Int32, reflect.Int64:
		var x int64
		if err := json.Unmarshal(n.V, &x); err != nil {
			return res, err
		}
		res.SetInt(x)
		if res.Int() != x {
			return res, fmt.Errorf("%d overflows %s", x, t)
		}
	case reflect.Uint, reflect.Uint8, reflect.Uint16, reflect.Uint32, reflect.Uint64:
		var x uint64
		if err := json.Unmarshal(n.V, &x); err != nil {
			return res, err
		}
		res.SetUint(x)
		if res.Uint() != x {
			return res, fmt.Errorf("%d overflows %s", x, t)
		}
	case reflect.Float32, reflect.Float64:
		var x int64 // integral floats only
		if err := json.Unmarshal(n.V, &x); err != nil {
			return res, err
		}
		res.SetFloat(float64(x))
	case reflect.Func:
		if isNull {
			return res, nil
		}
		var s string
		if err := json.Unmarshal(n.V, &s); err != nil {
			return res, err
		}
		r := unhx(s)
		res.Set(reflect.ValueOf(func() string { return r }))
	case reflect.Chan:
		if isNull {
			return res, nil
		}
		res.Set(reflect.ValueOf(make(chan int, 1)))
	case reflect.Slice:
		if isNull {
			return res, nil
		}
		var l []c11Node
		if err := json.Unmarshal(n.V, &l); err != nil {
			return res, err
		}
		sl := reflect.MakeSlice(t, len(l), len(l))
		for i, e := range l {
			v, err := c11Build(e)
			if err != nil {
				return res, err
			}
			if err := c11Set(sl.Index(i), v); err != nil {
				return res, err
			}
		}
		res.Set(sl)
	case reflect.Map:
		if isNull {
			return res, nil
		}
		var l []struct {
			K string  `json:"k"`
			V c11Node `json:"v"`
		}
		if err := json.Unmarshal(n.V, &l); err != nil {
			return res, err
		}
		m := reflect.MakeMapWithSize(t, len(l))
		for _, e := range l {
			v, err := c11Build(e.V)
			if err != nil {
				return res, err
			}
			slot := reflect.New(t.Elem()).Elem()
			if err := c11Set(slot, v); err != nil {
				return res, err
			}
			m.SetMapIndex(reflect.ValueOf(unhx(e.K)), slot)
		}
		res.Set(m)
	case reflect.Ptr:
		if isNull {
			return res, nil
		}
		var inner c11Node
		if err := json.Unmarshal(n.V, &inner); err != nil {
			return res, err
		}
		v, err := c11Build(inner)
		if err != nil {
			return res, err
		}
		p := reflect.New(t.Elem())
		if err := c11Set(p.Elem(), v); err != nil {
			return res, err
		}
		res.Set(p)
	case reflect.Struct:
		if isNull {
			return res, nil
		}
		if t.Name() == "" { // reflect.StructOf: fields by position
			var l []c11Node
			if err := json.Unmarshal(n.V, &l); err != nil {
				return res, err
			}
			if len(l) != t.NumField() {
				return res, fmt.Errorf("struct value has %d fields, type %d", len(l), t.NumField())
			}
			for i, e := range l {
				v, err := c11Build(e)
				if err != nil {
					return res, err
				}
				if err := c11Set(res.Field(i), v); err != nil {
					return res, err
				}
			}
			return res, nil
		}
		// family type: fields by name; unexported ones through the concrete type
		var m map[string]c11Node
		if err := json.Unmarshal(n.V, &m); err != nil {
			return res, err
		}
		for name, e := range m {
			v, err := c11Build(e)
			if err != nil {
				return res, err
			}
			switch {
			case name == "hidden" && t == c11Named["Item"]:
				res.Addr().Interface().(*C11Item).hidden = v.String()
			case name == "secret" && t == c11Named["Emb"]:
				res.Addr().Interface().(*C11Emb).secret = int(v.Int())
			default:
				f := res.FieldByName(name)
				if !f.IsValid() || !f.CanSet() {
					return res, fmt.Errorf("no settable field %s in %s", name, t)
				}
				if err := c11Set(f, v); err != nil {
					return res, err
				}
			}
		}
	default:
		return res, fmt.Errorf("cannot build kind %s", t.Kind())
	}
	return res, nil
}

func c11Set(dst, v reflect.Value) error {
	if !v.Type().AssignableTo(dst.Type()) {
		return fmt.Errorf("%s not assignable to %s", v.Type(), dst.Type())
	}
	dst.Set(v)
	return nil
}

// ---------------------------------------------------------------- templates

func c11JSString(s string) string {
	var b strings.Builder
	b.WriteByte('\'')
	for i := 0; i < len(s); i++ {
		c := s[i]
		switch {
		case c == '\'' || c == '\\':
			b.WriteByte('\\')
			b.WriteByte(c)
		case c < 32 || c == 127:
			fmt.Fprintf(&b, "\\x%02x", c)
		default:
			b.WriteByte(c)
		}
	}
	b.WriteByte('\'')
	return b.String()
}

func c11Source(p c11Path) (string, error) {
	var b strings.Builder
	for i, s := range p.Steps {
		switch {
		case s.F != nil:
			if i > 0 {
				b.WriteByte('.')
			}
			b.WriteString(unhx(*s.F))
		case i == 0:
			return "", fmt.Errorf("a path starts with a name")
		case s.K != nil:
			b.WriteString("[" + c11JSString(unhx(*s.K)) + "]")
		case s.I != nil:
			b.WriteString("[" + strconv.Itoa(*s.I) + "]")
		default:
			return "", fmt.Errorf("empty step")
		}
	}
	return b.String(), nil
}

func c11AST(src string, raw bool) string {
	doc := map[string]interface{}{"type": "Block", "nodes": []interface{}{
		map[string]interface{}{"type": "Code", "val": src, "buffer": true, "mustEscape": !raw, "isInline": true},
	}}
	b, _ := json.Marshal(doc)
	return string(b)
}

var c11LoggerSet bool

func runC11(c c11Case) (obs c11Obs, err error) {
	if !c11LoggerSet {
		// production wiring: a logger is present and debug mode is off (pugjs.NewEngine records both)
		pugjs.NewEngine(&struct {
			Debug  bool            `inject:"config:flamingo.debug.mode"`
			Logger flamingo.Logger `inject:""`
		}{Debug: false, Logger: flamingo.NullLogger{}})
		c11LoggerSet = true
	}
	v, err := c11Build(c.Data)
	if err != nil {
		return obs, err
	}
	var data interface{}
	if v.IsValid() && !(v.Kind() == reflect.Interface && v.IsNil()) {
		data = v.Interface()
	}
	dir, err := os.MkdirTemp("", "pv11")
	if err != nil {
		return obs, err
	}
	defer os.RemoveAll(dir)
	files := map[string]string{}
	for i, p := range c.Paths {
		src, err := c11Source(p)
		if err != nil {
			return obs, err
		}
		obs.Src = append(obs.Src, src)
		files[fmt.Sprintf("template/page/p%d.ast.json", i)] = c11AST(src, p.Raw)
	}
	if err := writeTree(dir, files); err != nil {
		return obs, err
	}
	os.MkdirAll(dir+"/template/page", 0o755)
	e := newEngine(dir, false, 0, nil)
	obs.Load, obs.Msg = safeLoad(e, "")
	obs.Paths = make([]renderResult, len(c.Paths))
	if obs.Load != clsOK {
		for i := range obs.Paths {
			obs.Paths[i] = renderResult{Class: obs.Load}
		}
		return obs, nil
	}
	ctx := context.Background()
	for i := range c.Paths {
		name := fmt.Sprintf("p%d", i)
		obs.Code = append(obs.Code, e.TemplateCode[name])
		r := safeRender(e, ctx, name, data)
		if len(r.Err) > 300 {
			r.Err = r.Err[:300]
		}
		obs.Paths[i] = r
	}
	return obs, nil
}

func init() {
	runners["C11"] = func(in json.RawMessage) (interface{}, error) {
		var cases []c11Case
		if err := json.Unmarshal(in, &cases); err != nil {
			return nil, err
		}
		out := make([]c11Obs, len(cases))
		for i, c := range cases {
			o, err := runC11(c)
			if err != nil {
				return nil, fmt.Errorf("case %d: %w", i, err)
			}
			out[i] = o
		}
		return out, nil
	}
}
