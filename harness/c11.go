package main

// C11: Go data reachable from templates by lower-camel paths; absent data prints nothing.
//
// One case = one Go data value (described as a typed tree, built here with reflect: dynamically
// shaped structs through reflect.StructOf, a fixed family of hand-written types for unexported
// fields / methods / embedded pointers / named interfaces) and a list of paths. Every path is
// compiled as its own template (`= path` or `!= path`) on one engine and rendered with the value
// as page data. Observation per path: outcome class and output bytes (hex). Error text is
// reported for diagnostics only and never compared.
//
// A case may also be a history `{"seq": [{data, paths}, ...]}`: the values are rendered in this order
// in ONE process on ONE engine (all templates loaded up front), so that whatever the conversion of one
// value leaves behind (in the process, in the engine) is there when the next one is converted. The
// values of a history are typically look-alikes: distinct types of one name (c11_twins.go), or
// reflect.StructOf types over the same field names in another order / with other types.
// Struct types may declare members whose names collide after the lower-camel mapping (Title / title): a
// reflect.StructOf descriptor may name unexported fields (lower-case first letter) at any position, and the
// hand-written family of harness/c11_clash (look-alike scope "K", c11_clash.go) has exported/unexported field
// pairs, unexported fields next to getters, embedded types next to outer fields of the same lower-camel name.
// Every case is run in a process of its own (the runner re-executes the binary per case), so what a
// case observes is a function of the case alone and a replay reproduces it.

import (
	"bytes"
	"context"
	"encoding/json"
	"fmt"
	"os"
	"os/exec"
	"reflect"
	"runtime"
	"strconv"
	"strings"
	"sync"
	"unicode"
	"unicode/utf8"
	"unsafe"

	"flamingo.me/flamingo/v3/framework/flamingo"
	"flamingo.me/pugtemplate/pugjs"
)

type c11Node struct {
	Ty json.RawMessage `json:"ty"`
	V  json.RawMessage `json:"v"`
}

type c11Step struct {
	F *string `json:"f,omitempty"` // .name  (hex)
	K *string `json:"k,omitempty"` // ['key'] (hex)
	I *int64  `json:"i,omitempty"` // [3], [-1]: the integer the index denotes (any integer, also below 0)
	W *c11Idx `json:"w,omitempty"` // how the index is written when it is not the literal I
}

// c11Idx is an index that is not written as a literal: a number taken from the page data (`xs[d.pos]`), the
// length of a list of the page data (`xs[xs.length - 1]`), either with a constant added or subtracted
// (`xs[n - 2]`), or a literal in another spelling. The generator computes the integer the expression
// denotes (I, for the judge); here only its source text is built.
type c11Idx struct {
	Num []c11Step `json:"num,omitempty"` // path to a number of the page data
	Len []c11Step `json:"len,omitempty"` // path to a list of the page data: its .length
	Add int64     `json:"add,omitempty"` // constant added (subtracted when negative)
	Lit string    `json:"lit,omitempty"` // "paren": (-1)  "sub": 0 - 1  "float": -1.0
}

type c11Path struct {
	Steps []c11Step `json:"steps"`
	Raw   bool      `json:"raw"` // != path (unescaped) instead of = path
	// Push (hex): the template is not an output of the path but the statement `- path.push('value')`, run for
	// its effect on the list the conversion made for this render; it prints nothing
	Push *string `json:"push,omitempty"`
}

type c11Value struct {
	Data  c11Node   `json:"data"`
	Paths []c11Path `json:"paths"`
}

// c11Case is one value (data, paths) or a history of values (seq).
type c11Case struct {
	c11Value
	Seq []c11Value `json:"seq,omitempty"`
}

type c11Obs struct {
	Load  string         `json:"load"`
	Msg   string         `json:"msg,omitempty"`
	Src   []string       `json:"src"` // JS source of each path (diagnostic)
	Code  []string       `json:"code,omitempty"`
	Paths []renderResult `json:"paths"`
	Type  string         `json:"type,omitempty"` // reflect.Type.String() of the value (diagnostic)
}

// c11CaseObs: the observation of a single value is the c11Obs itself; of a history, one c11Obs per value.
type c11CaseObs struct {
	c11Obs
	Vals []c11Obs `json:"vals,omitempty"`
}

// ---------------------------------------------------------------- the fixed family of types

// C11Labeler is an interface type with a method: a "named interface" field.
type C11Labeler interface{ Label() string }

// C11Base is embedded (by pointer and by value) below.
type C11Base struct {
	Code int
	Note string
}

// BaseNote has a pointer receiver and tolerates a nil receiver (an embedded nil pointer).
func (b *C11Base) BaseNote() string {
	if b == nil {
		return "nobase"
	}
	return "note:" + b.Note
}

// C11Item has exported and unexported fields, value- and pointer-receiver methods.
type C11Item struct {
	Name   string
	Count  int
	hidden string
	Next   *C11Item
	Any    interface{}
	Lab    C11Labeler
	Tags   []string
	Attrs  map[string]int
	Kids   map[string]*C11Item
}

func (i C11Item) Label() string     { return "L:" + i.Name }
func (i C11Item) Double() int       { return 2 * i.Count }
func (i C11Item) TagList() []string { return i.Tags }
func (i *C11Item) Total() int       { return i.Count + len(i.Tags) }
func (i *C11Item) Follow() *C11Item { return i.Next }
func (i *C11Item) IsBig() bool      { return i.Count > 100 }

// C11Emb embeds a pointer; BaseNote is promoted into the method set of C11Emb and *C11Emb.
type C11Emb struct {
	*C11Base
	Title  string
	secret int
}

func (e C11Emb) Label() string { return "E:" + e.Title }

// C11EmbV embeds a value; BaseNote is promoted into the method set of *C11EmbV only.
type C11EmbV struct {
	C11Base
	Title string
}

var c11Named = map[string]reflect.Type{
	"Item":    reflect.TypeOf(C11Item{}),
	"Base":    reflect.TypeOf(C11Base{}),
	"Emb":     reflect.TypeOf(C11Emb{}),
	"EmbV":    reflect.TypeOf(C11EmbV{}),
	"Labeler": reflect.TypeOf((*C11Labeler)(nil)).Elem(),
}

var c11Basic = map[string]reflect.Type{
	"iface":   reflect.TypeOf((*interface{})(nil)).Elem(),
	"str":     reflect.TypeOf(""),
	"bool":    reflect.TypeOf(true),
	"int":     reflect.TypeOf(int(0)),
	"int8":    reflect.TypeOf(int8(0)),
	"int16":   reflect.TypeOf(int16(0)),
	"int32":   reflect.TypeOf(int32(0)),
	"int64":   reflect.TypeOf(int64(0)),
	"uint":    reflect.TypeOf(uint(0)),
	"uint8":   reflect.TypeOf(uint8(0)),
	"uint16":  reflect.TypeOf(uint16(0)),
	"uint32":  reflect.TypeOf(uint32(0)),
	"uint64":  reflect.TypeOf(uint64(0)),
	"float32": reflect.TypeOf(float32(0)),
	"float64": reflect.TypeOf(float64(0)),
	"func":    reflect.TypeOf(func() string { return "" }),
	"chan":    reflect.TypeOf(make(chan int)),
}

func c11Type(raw json.RawMessage) (reflect.Type, error) {
	var s string
	if json.Unmarshal(raw, &s) == nil {
		if t, ok := c11Basic[s]; ok {
			return t, nil
		}
		if t, ok := c11Named[s]; ok {
			return t, nil
		}
		return nil, fmt.Errorf("unknown type %q", s)
	}
	var m map[string]json.RawMessage
	if err := json.Unmarshal(raw, &m); err != nil {
		return nil, err
	}
	if e, ok := m["twin"]; ok {
		return c11TwinType(e, m)
	}
	if e, ok := m["slice"]; ok {
		t, err := c11Type(e)
		if err != nil {
			return nil, err
		}
		return reflect.SliceOf(t), nil
	}
	if e, ok := m["map"]; ok {
		t, err := c11Type(e)
		if err != nil {
			return nil, err
		}
		return reflect.MapOf(reflect.TypeOf(""), t), nil
	}
	if e, ok := m["ptr"]; ok {
		t, err := c11Type(e)
		if err != nil {
			return nil, err
		}
		return reflect.PtrTo(t), nil
	}
	if e, ok := m["struct"]; ok {
		var fs [][2]json.RawMessage
		if err := json.Unmarshal(e, &fs); err != nil {
			return nil, err
		}
		fields := make([]reflect.StructField, len(fs))
		for i, f := range fs {
			var name string
			if err := json.Unmarshal(f[0], &name); err != nil {
				return nil, err
			}
			t, err := c11Type(f[1])
			if err != nil {
				return nil, err
			}
			fields[i] = reflect.StructField{Name: name, Type: t}
			if first, _ := utf8.DecodeRuneInString(name); name != "" && !unicode.IsUpper(first) {
				// an unexported field (reflect.StructOf takes one when it names its package): it cannot be
				// read through reflect's Interface(), its value is set through its address (c11SetField).
				// Go's rule: a name is exported when its first LETTER is upper-case, ASCII or not (Ärger, Ωmega)
				fields[i].PkgPath = "main"
			}
		}
		return reflect.StructOf(fields), nil
	}
	return nil, fmt.Errorf("bad type descriptor %s", raw)
}

// c11TwinType resolves {"twin": name, "var": scope} in c11Twins. When the descriptor also carries the
// generator's description of the type ("struct": [[field, type]...] or "under": type), the description is
// compared with what reflect reports: a mismatch is a harness error.
func c11TwinType(nameRaw json.RawMessage, m map[string]json.RawMessage) (reflect.Type, error) {
	var name, scope string
	if err := json.Unmarshal(nameRaw, &name); err != nil {
		return nil, err
	}
	if err := json.Unmarshal(m["var"], &scope); err != nil {
		return nil, err
	}
	t, ok := c11Twins[scope][name]
	if !ok {
		return nil, fmt.Errorf("unknown look-alike type %s/%s", scope, name)
	}
	if t.Name() != name {
		return nil, fmt.Errorf("look-alike %s/%s is called %s", scope, name, t.Name())
	}
	if e, ok := m["struct"]; ok {
		var fs [][2]json.RawMessage
		if err := json.Unmarshal(e, &fs); err != nil {
			return nil, err
		}
		if t.Kind() != reflect.Struct || t.NumField() != len(fs) {
			return nil, fmt.Errorf("look-alike %s/%s: described with %d fields, is %s", scope, name, len(fs), t)
		}
		for i, f := range fs {
			var fn string
			if err := json.Unmarshal(f[0], &fn); err != nil {
				return nil, err
			}
			ft, err := c11Type(f[1])
			if err != nil {
				return nil, err
			}
			if t.Field(i).Name != fn || t.Field(i).Type != ft {
				return nil, fmt.Errorf("look-alike %s/%s field %d: described as %s %s, is %s %s", scope, name, i, fn, ft, t.Field(i).Name, t.Field(i).Type)
			}
		}
	}
	if _, ok := m["vm"]; ok { // embedded fields and method sets, when the description has them
		var emb, vm, pm []string
		for key, dst := range map[string]*[]string{"emb": &emb, "vm": &vm, "pm": &pm} {
			if raw, ok := m[key]; ok {
				if err := json.Unmarshal(raw, dst); err != nil {
					return nil, err
				}
			}
		}
		if err := c11CheckShape(t, emb, vm, pm); err != nil {
			return nil, fmt.Errorf("look-alike %s/%s: %w", scope, name, err)
		}
	}
	if e, ok := m["under"]; ok {
		u, err := c11Type(e)
		if err != nil {
			return nil, err
		}
		if u.Kind() != t.Kind() || !u.ConvertibleTo(t) || !t.ConvertibleTo(u) {
			return nil, fmt.Errorf("look-alike %s/%s: described as %s, is %s (%s)", scope, name, u, t, t.Kind())
		}
		switch t.Kind() {
		case reflect.Slice, reflect.Map:
			if t.Elem() != u.Elem() {
				return nil, fmt.Errorf("look-alike %s/%s: element %s described, is %s", scope, name, u.Elem(), t.Elem())
			}
		}
	}
	return t, nil
}

// c11SetField sets field i of the addressable struct value s, exported or not.
func c11SetField(s reflect.Value, i int, v reflect.Value) error {
	f := s.Field(i)
	if !v.Type().AssignableTo(f.Type()) {
		return fmt.Errorf("%s not assignable to %s", v.Type(), f.Type())
	}
	if !f.CanSet() {
		f = reflect.NewAt(f.Type(), unsafe.Pointer(f.UnsafeAddr())).Elem()
	}
	f.Set(v)
	return nil
}

// c11Build returns an addressable-free reflect.Value of exactly the node's type.
func c11Build(n c11Node) (reflect.Value, error) {
	t, err := c11Type(n.Ty)
	if err != nil {
		return reflect.Value{}, err
	}
	isNull := len(n.V) == 0 || string(n.V) == "null"
	res := reflect.New(t).Elem()
	switch t.Kind() {
	case reflect.Interface:
		if isNull {
			return res, nil
		}
		var inner c11Node
		if err := json.Unmarshal(n.V, &inner); err != nil {
			return res, err
		}
		v, err := c11Build(inner)
		if err != nil {
			return res, err
		}
		if v.Kind() == reflect.Interface && v.IsNil() {
			return res, nil
		}
		if !v.Type().AssignableTo(t) {
			return res, fmt.Errorf("%s not assignable to %s", v.Type(), t)
		}
		res.Set(v)
	case reflect.String:
		var s string
		if err := json.Unmarshal(n.V, &s); err != nil {
			return res, err
		}
		res.SetString(unhx(s))
	case reflect.Bool:
		var b bool
		if err := json.Unmarshal(n.V, &b); err != nil {
			return res, err
		}
		res.SetBool(b)
	case reflect.Int, reflect.Int8, reflect.Int16, reflect.Int32, reflect.Int64:
		var x int64
		if err := json.Unmarshal(n.V, &x); err != nil {
			return res, err
		}
		res.SetInt(x)
		if res.Int() != x {
			return res, fmt.Errorf("%d overflows %s", x, t)
		}
	case reflect.Uint, reflect.Uint8, reflect.Uint16, reflect.Uint32, reflect.Uint64:
		var x uint64
		if err := json.Unmarshal(n.V, &x); err != nil {
			return res, err
		}
		res.SetUint(x)
		if res.Uint() != x {
			return res, fmt.Errorf("%d overflows %s", x, t)
		}
	case reflect.Float32, reflect.Float64:
		var x int64 // integral floats only
		if err := json.Unmarshal(n.V, &x); err != nil {
			return res, err
		}
		res.SetFloat(float64(x))
	case reflect.Func:
		if isNull {
			return res, nil
		}
		var s string
		if err := json.Unmarshal(n.V, &s); err != nil {
			return res, err
		}
		r := unhx(s)
		res.Set(reflect.ValueOf(func() string { return r }))
	case reflect.Chan:
		if isNull {
			return res, nil
		}
		res.Set(reflect.ValueOf(make(chan int, 1)))
	case reflect.Slice:
		if isNull {
			return res, nil
		}
		var l []c11Node
		if err := json.Unmarshal(n.V, &l); err != nil {
			return res, err
		}
		sl := reflect.MakeSlice(t, len(l), len(l))
		for i, e := range l {
			v, err := c11Build(e)
			if err != nil {
				return res, err
			}
			if err := c11Set(sl.Index(i), v); err != nil {
				return res, err
			}
		}
		res.Set(sl)
	case reflect.Map:
		if isNull {
			return res, nil
		}
		var l []struct {
			K string  `json:"k"`
			V c11Node `json:"v"`
		}
		if err := json.Unmarshal(n.V, &l); err != nil {
			return res, err
		}
		m := reflect.MakeMapWithSize(t, len(l))
		for _, e := range l {
			v, err := c11Build(e.V)
			if err != nil {
				return res, err
			}
			slot := reflect.New(t.Elem()).Elem()
			if err := c11Set(slot, v); err != nil {
				return res, err
			}
			m.SetMapIndex(reflect.ValueOf(unhx(e.K)), slot)
		}
		res.Set(m)
	case reflect.Ptr:
		if isNull {
			return res, nil
		}
		var inner c11Node
		if err := json.Unmarshal(n.V, &inner); err != nil {
			return res, err
		}
		v, err := c11Build(inner)
		if err != nil {
			return res, err
		}
		p := reflect.New(t.Elem())
		if err := c11Set(p.Elem(), v); err != nil {
			return res, err
		}
		res.Set(p)
	case reflect.Struct:
		if isNull {
			return res, nil
		}
		family := false
		for _, ft := range c11Named {
			family = family || ft == t
		}
		if !family { // reflect.StructOf and look-alike types: fields by position
			var l []c11Node
			if err := json.Unmarshal(n.V, &l); err != nil {
				return res, err
			}
			if len(l) != t.NumField() {
				return res, fmt.Errorf("struct value has %d fields, type %d", len(l), t.NumField())
			}
			for i, e := range l {
				v, err := c11Build(e)
				if err != nil {
					return res, err
				}
				if err := c11SetField(res, i, v); err != nil {
					return res, err
				}
			}
			return res, nil
		}
		// family type: fields by name; unexported ones through the concrete type
		var m map[string]c11Node
		if err := json.Unmarshal(n.V, &m); err != nil {
			return res, err
		}
		for name, e := range m {
			v, err := c11Build(e)
			if err != nil {
				return res, err
			}
			switch {
			case name == "hidden" && t == c11Named["Item"]:
				res.Addr().Interface().(*C11Item).hidden = v.String()
			case name == "secret" && t == c11Named["Emb"]:
				res.Addr().Interface().(*C11Emb).secret = int(v.Int())
			default:
				f := res.FieldByName(name)
				if !f.IsValid() || !f.CanSet() {
					return res, fmt.Errorf("no settable field %s in %s", name, t)
				}
				if err := c11Set(f, v); err != nil {
					return res, err
				}
			}
		}
	default:
		return res, fmt.Errorf("cannot build kind %s", t.Kind())
	}
	return res, nil
}

func c11Set(dst, v reflect.Value) error {
	if !v.Type().AssignableTo(dst.Type()) {
		return fmt.Errorf("%s not assignable to %s", v.Type(), dst.Type())
	}
	dst.Set(v)
	return nil
}

// ---------------------------------------------------------------- templates

func c11JSString(s string) string {
	var b strings.Builder
	b.WriteByte('\'')
	for i := 0; i < len(s); i++ {
		c := s[i]
		switch {
		case c == '\'' || c == '\\':
			b.WriteByte('\\')
			b.WriteByte(c)
		case c < 32 || c == 127:
			fmt.Fprintf(&b, "\\x%02x", c)
		default:
			b.WriteByte(c)
		}
	}
	b.WriteByte('\'')
	return b.String()
}

func c11IdxSource(s c11Step) (string, error) {
	w := s.W
	var base string
	var err error
	switch {
	case len(w.Num) > 0:
		base, err = c11Steps(w.Num)
	case len(w.Len) > 0:
		base, err = c11Steps(w.Len)
		base += ".length"
	case s.I == nil:
		return "", fmt.Errorf("written index without its value")
	case w.Lit == "paren":
		return "(" + strconv.FormatInt(*s.I, 10) + ")", nil
	case w.Lit == "sub":
		if *s.I < 0 {
			return "0 - " + strconv.FormatInt(-*s.I, 10), nil
		}
		return strconv.FormatInt(*s.I+1, 10) + " - 1", nil
	case w.Lit == "float":
		return strconv.FormatInt(*s.I, 10) + ".0", nil
	default:
		return "", fmt.Errorf("empty index expression")
	}
	if err != nil {
		return "", err
	}
	switch {
	case w.Add > 0:
		base += " + " + strconv.FormatInt(w.Add, 10)
	case w.Add < 0:
		base += " - " + strconv.FormatInt(-w.Add, 10)
	}
	return base, nil
}

func c11Source(p c11Path) (string, error) { return c11Steps(p.Steps) }

func c11Steps(steps []c11Step) (string, error) {
	var b strings.Builder
	for i, s := range steps {
		switch {
		case s.F != nil:
			if i > 0 {
				b.WriteByte('.')
			}
			b.WriteString(unhx(*s.F))
		case i == 0:
			return "", fmt.Errorf("a path starts with a name")
		case s.K != nil:
			b.WriteString("[" + c11JSString(unhx(*s.K)) + "]")
		case s.W != nil:
			src, err := c11IdxSource(s)
			if err != nil {
				return "", err
			}
			b.WriteString("[" + src + "]")
		case s.I != nil:
			b.WriteString("[" + strconv.FormatInt(*s.I, 10) + "]")
		default:
			return "", fmt.Errorf("empty step")
		}
	}
	return b.String(), nil
}

func c11AST(src string, raw bool, buffer bool) string {
	doc := map[string]interface{}{"type": "Block", "nodes": []interface{}{
		map[string]interface{}{"type": "Code", "val": src, "buffer": buffer, "mustEscape": buffer && !raw, "isInline": buffer},
	}}
	b, _ := json.Marshal(doc)
	return string(b)
}

var c11LoggerSet bool

// runC11 renders the values of a case in order, in this process, on one engine.
func runC11(c c11Case) (res c11CaseObs, err error) {
	if !c11LoggerSet {
		// production wiring: a logger is present and debug mode is off (pugjs.NewEngine records both)
		pugjs.NewEngine(&struct {
			Debug  bool            `inject:"config:flamingo.debug.mode"`
			Logger flamingo.Logger `inject:""`
		}{Debug: false, Logger: flamingo.NullLogger{}})
		c11LoggerSet = true
	}
	vals := c.Seq
	single := len(vals) == 0
	if single {
		vals = []c11Value{c.c11Value}
	}
	datas := make([]interface{}, len(vals))
	out := make([]c11Obs, len(vals))
	dir, err := os.MkdirTemp("", "pv11")
	if err != nil {
		return res, err
	}
	defer os.RemoveAll(dir)
	files := map[string]string{}
	for k, val := range vals {
		v, err := c11Build(val.Data)
		if err != nil {
			return res, fmt.Errorf("value %d: %w", k, err)
		}
		if v.IsValid() && !(v.Kind() == reflect.Interface && v.IsNil()) {
			datas[k] = v.Interface()
			out[k].Type = reflect.TypeOf(datas[k]).String()
		}
		for i, p := range val.Paths {
			src, err := c11Source(p)
			if err != nil {
				return res, err
			}
			if p.Push != nil {
				src += ".push(" + c11JSString(unhx(*p.Push)) + ")"
			}
			out[k].Src = append(out[k].Src, src)
			files[fmt.Sprintf("template/page/v%dp%d.ast.json", k, i)] = c11AST(src, p.Raw, p.Push == nil)
		}
	}
	if err := writeTree(dir, files); err != nil {
		return res, err
	}
	os.MkdirAll(dir+"/template/page", 0o755)
	e := newEngine(dir, false, 0, nil)
	load, msg := safeLoad(e, "")
	ctx := context.Background()
	for k, val := range vals {
		out[k].Load, out[k].Msg = load, msg
		out[k].Paths = make([]renderResult, len(val.Paths))
		for i := range val.Paths {
			if load != clsOK {
				out[k].Paths[i] = renderResult{Class: load}
				continue
			}
			name := fmt.Sprintf("v%dp%d", k, i)
			out[k].Code = append(out[k].Code, e.TemplateCode[name])
			r := safeRender(e, ctx, name, datas[k])
			if len(r.Err) > 300 {
				r.Err = r.Err[:300]
			}
			out[k].Paths[i] = r
		}
	}
	if single {
		res.c11Obs = out[0]
	} else {
		res.Vals = out
	}
	return res, nil
}

// c11Crashed is the observation of a case whose process died (a crash that recover cannot stop).
func c11Crashed(c c11Case, msg string) (res c11CaseObs) {
	mk := func(v c11Value) c11Obs {
		o := c11Obs{Load: "crash", Msg: msg, Paths: make([]renderResult, len(v.Paths))}
		for i := range o.Paths {
			o.Paths[i] = renderResult{Class: "crash"}
		}
		return o
	}
	if len(c.Seq) == 0 {
		res.c11Obs = mk(c.c11Value)
		return res
	}
	for _, v := range c.Seq {
		res.Vals = append(res.Vals, mk(v))
	}
	return res
}

// c11Isolated runs one case in a fresh process of this binary.
func c11Isolated(self string, c c11Case) (c11CaseObs, error) {
	in, err := json.Marshal([]c11Case{c})
	if err != nil {
		return c11CaseObs{}, err
	}
	cmd := exec.Command(self, "C11")
	cmd.Env = append(os.Environ(), "PV_C11_CHILD=1")
	cmd.Stdin = bytes.NewReader(in)
	var stdout, stderr bytes.Buffer
	cmd.Stdout, cmd.Stderr = &stdout, &stderr
	if err := cmd.Run(); err != nil {
		msg := stderr.String()
		if strings.Contains(msg, "harness error:") || strings.Contains(msg, "bad input:") {
			return c11CaseObs{}, fmt.Errorf("%s", strings.TrimSpace(msg))
		}
		if len(msg) > 300 {
			msg = msg[:300]
		}
		return c11Crashed(c, err.Error()+": "+msg), nil
	}
	var out []c11CaseObs
	if err := json.Unmarshal(stdout.Bytes(), &out); err != nil || len(out) != 1 {
		return c11CaseObs{}, fmt.Errorf("child output unreadable: %v", err)
	}
	return out[0], nil
}

func init() {
	runners["C11"] = func(in json.RawMessage) (interface{}, error) {
		var cases []c11Case
		if err := json.Unmarshal(in, &cases); err != nil {
			return nil, err
		}
		out := make([]c11CaseObs, len(cases))
		if os.Getenv("PV_C11_CHILD") != "" {
			for i, c := range cases {
				o, err := runC11(c)
				if err != nil {
					return nil, fmt.Errorf("case %d: %w", i, err)
				}
				out[i] = o
			}
			return out, nil
		}
		// one process per case: no case sees what another one left behind
		self, err := os.Executable()
		if err != nil {
			return nil, err
		}
		workers := runtime.NumCPU()
		if workers > 12 {
			workers = 12
		}
		var wg sync.WaitGroup
		var mu sync.Mutex
		var firstErr error
		next := 0
		for w := 0; w < workers; w++ {
			wg.Add(1)
			go func() {
				defer wg.Done()
				for {
					mu.Lock()
					i := next
					next++
					stop := firstErr != nil
					mu.Unlock()
					if stop || i >= len(cases) {
						return
					}
					o, err := c11Isolated(self, cases[i])
					if err != nil {
						mu.Lock()
						if firstErr == nil {
							firstErr = fmt.Errorf("case %d: %w", i, err)
						}
						mu.Unlock()
						return
					}
					out[i] = o
				}
			}()
		}
		wg.Wait()
		if firstErr != nil {
			return nil, firstErr
		}
		return out, nil
	}
}
