package main

import (
	"encoding/json"
	"runtime/debug"
)

// C03: the TC runner (one template tree, rendered with several data values on fresh engines, one after the other
// in this process) with a small goroutine stack limit: a render that recurses without end (what a broken frame
// or block discipline of mixin calls produces) ends the process at once instead of after filling 1 GB of stack.
// The generator runs every case in a process of its own and observes a dead process as class "crash".
func init() {
	runners["C03"] = func(in json.RawMessage) (interface{}, error) {
		debug.SetMaxStack(64 << 20)
		return runners["TC"](in)
	}
}
