package main

import (
	"context"
	"encoding/json"
	"fmt"
	"io"
	"os"
	"path/filepath"
	"runtime/debug"
	"sort"
	"strings"
)

// C03: the TC runner (one template tree, rendered with several data values on fresh engines, one after the other
// in this process) with a small goroutine stack limit: a render that recurses without end (what a broken frame
// or block discipline of mixin calls produces) ends the process at once instead of after filling 1 GB of stack.
// The generator runs every case in a process of its own and observes a dead process as class "crash".
//
// A case may carry SIBLINGS ("sibs"): other template files (in the rendered template's directory, below it,
// above it, in other directories) that the same full load compiles.  They are never rendered.  Such a case
// is loaded and rendered in TWO directory layouts: one in which the rendered template's entry is listed before
// every sibling's entry by the Readdir(-1) call compileDir makes, and one in which it is listed after all of
// them; the results are reported one layout after the other (layout 0: all data values, layout 1: all data
// values), so the observation has 2 x len(datas) results.  What the page renders must not depend on which
// other files were loaded with it, nor on the order in which the loader came across them.
type c03Case struct {
	tcCase
	Sibs  map[string]string `json:"sibs"`  // hex name -> hex AST json
	Again bool              `json:"again"` // render every data value twice on the SAME engine (c03RunAgain)
}

// where the rendered template stood in the listings of one layout
type c03Listing struct {
	Entries    int  `json:"entries"` // sibling entries compared with the rendered template's entry
	TBeforeAll bool `json:"t_before_all"`
	TAfterAll  bool `json:"t_after_all"`
}

type c03Obs struct {
	tcObs
	Layouts []c03Listing `json:"layouts,omitempty"`
	Dropped int          `json:"dropped,omitempty"` // siblings that do not load when they are alone: left out
}

// c03LoadsAlone: does a file of this content, the only one of its engine, load?
func c03LoadsAlone(content string) bool {
	dir, err := os.MkdirTemp("", "pvC03s")
	if err != nil {
		return false
	}
	defer os.RemoveAll(dir)
	if err := writeTree(dir, map[string]string{"template/page/x.ast.json": content}); err != nil {
		return false
	}
	cls, _ := safeLoad(newEngine(dir, false, 0, nil), "")
	return cls == clsOK
}

func c03ReadNames(dir string) ([]string, error) {
	f, err := os.Open(dir)
	if err != nil {
		return nil, err
	}
	defer f.Close()
	infos, err := f.Readdir(-1) // the call compileDir makes
	if err != nil {
		return nil, err
	}
	names := make([]string, len(infos))
	for i, fi := range infos {
		names[i] = fi.Name()
	}
	return names, nil
}

func c03Index(names []string, n string) int {
	for i, x := range names {
		if x == n {
			return i
		}
	}
	return -1
}

// entry of the template name `parts` in the directory at depth i of its path
func c03Entry(parts []string, i int) string {
	if i == len(parts)-1 {
		return parts[i] + ".ast.json"
	}
	return parts[i]
}

// c03WriteLayout writes the rendered template tname and the siblings below dir/template/page so that tname's
// entry is listed before (tFirst) or after every sibling's entry in the directory they share.  The listing order
// is the file system's (hash of the names on ext4, creation order on tmpfs, ...): the files are created in the
// order that does it on creation-ordered file systems, then every sibling entry that is still on the wrong side
// is renamed (a sibling is never rendered: its name means nothing) until the read-back listing is as wanted.
func c03WriteLayout(dir string, tname, tcontent string, sibs map[string]string, tFirst bool) (c03Listing, error) {
	var ls c03Listing
	page := filepath.Join(dir, "template", "page")
	write := func(name, content string) error {
		return writeTree(dir, map[string]string{"template/page/" + name + ".ast.json": content})
	}
	snames := make([]string, 0, len(sibs))
	for n := range sibs {
		snames = append(snames, n)
	}
	sort.Strings(snames)
	if err := os.MkdirAll(page, 0o755); err != nil {
		return ls, err
	}
	if !tFirst { // creation-ordered listings show the newest entry first
		if err := write(tname, tcontent); err != nil {
			return ls, err
		}
	}
	for _, n := range snames {
		if err := write(n, sibs[n]); err != nil {
			return ls, err
		}
	}
	if tFirst {
		if err := write(tname, tcontent); err != nil {
			return ls, err
		}
	}
	// the entries to compare: for every sibling the first path component in which it differs from the
	// rendered template, in their common parent directory
	tparts := strings.Split(tname, "/")
	type ent struct {
		parent, name string
		depth        int
	}
	seen := map[ent]bool{}
	var ents []ent
	for _, n := range snames {
		sparts := strings.Split(n, "/")
		i := 0
		for i < len(sparts)-1 && i < len(tparts)-1 && sparts[i] == tparts[i] {
			i++
		}
		te, se := c03Entry(tparts, i), c03Entry(sparts, i)
		if te == se {
			return ls, fmt.Errorf("sibling %q collides with the rendered template", n)
		}
		e := ent{filepath.Join(append([]string{page}, sparts[:i]...)...), se, i}
		if !seen[e] {
			seen[e] = true
			ents = append(ents, e)
		}
	}
	ls.Entries = len(ents)
	ls.TBeforeAll, ls.TAfterAll = tFirst, !tFirst
	for _, e := range ents {
		te := c03Entry(tparts, e.depth)
		cur := e.name
		good := false
		for try := 0; try < 32; try++ {
			l, err := c03ReadNames(e.parent)
			if err != nil {
				return ls, err
			}
			ti, si := c03Index(l, te), c03Index(l, cur)
			if ti < 0 || si < 0 {
				return ls, fmt.Errorf("layout: entry %q or %q is not listed in %s", te, cur, e.parent)
			}
			if (ti < si) == tFirst {
				good = true
				break
			}
			var next string
			if strings.HasSuffix(e.name, ".ast.json") {
				next = fmt.Sprintf("%s_%d.ast.json", strings.TrimSuffix(e.name, ".ast.json"), try)
			} else {
				next = fmt.Sprintf("%s_%d", e.name, try)
			}
			if err := os.Rename(filepath.Join(e.parent, cur), filepath.Join(e.parent, next)); err != nil {
				return ls, err
			}
			cur = next
		}
		if !good {
			ls.TBeforeAll, ls.TAfterAll = false, false
		}
	}
	return ls, nil
}

// c03RunLayouts: production mode, full load, every data value on a fresh engine, in both layouts.  The readers
// are read only after all renders have been made (as in TC).
func c03RunLayouts(c c03Case) (o c03Obs, err error) {
	name := unhx(c.Render)
	tcontent, ok := "", false
	sibs := map[string]string{}
	for p, a := range c.Files {
		if unhx(p) == name {
			tcontent, ok = unhx(a), true
		} else {
			sibs[unhx(p)] = unhx(a)
		}
	}
	if !ok {
		return o, fmt.Errorf("rendered template %q is not among the files", name)
	}
	for p, a := range c.Sibs {
		sibs[unhx(p)] = unhx(a)
	}
	for n, content := range sibs {
		if !c03LoadsAlone(content) {
			delete(sibs, n)
			o.Dropped++
		}
	}
	m := &o.Prod
	var dirs []string
	defer func() {
		for _, d := range dirs {
			os.RemoveAll(d)
		}
	}()
	var pending []io.Reader
	defer func() {
		for i, rd := range pending {
			if rd != nil && i < len(m.Res) && m.Res[i].Class == clsOK {
				b, _ := io.ReadAll(rd)
				m.Res[i].Out = hx(string(b))
			}
		}
	}()
	for _, tFirst := range []bool{true, false} {
		dir, err := os.MkdirTemp("", "pvC03")
		if err != nil {
			return o, err
		}
		dirs = append(dirs, dir)
		ls, err := c03WriteLayout(dir, name, tcontent, sibs, tFirst)
		if err != nil {
			return o, err
		}
		o.Layouts = append(o.Layouts, ls)
		for _, raw := range c.Datas {
			data, err := buildData(raw)
			if err != nil {
				return o, err
			}
			e := newEngine(dir, false, 0, nil)
			m.Load, m.LoadMsg = safeLoad(e, "")
			if m.Load != clsOK {
				return o, nil
			}
			if tFirst {
				m.Code = hx(e.TemplateCode[name])
			}
			res, rd := renderKeep(e, context.Background(), name, data)
			m.Res = append(m.Res, res)
			pending = append(pending, rd)
		}
	}
	return o, nil
}

// c03RunAgain: production mode, full load; every data value gets a fresh engine and is rendered TWICE on it, one
// render after the other (results d1, d1', d2, d2').  The second render executes the same compiled template - the
// same call sites - again: whatever the first render left behind in the engine, in the parsed templates or at
// package level is there when the second runs.  What a call shows must not depend on it.
func c03RunAgain(c tcCase) (m tcMode, err error) {
	dir, err := os.MkdirTemp("", "pvC03a")
	if err != nil {
		return m, err
	}
	defer os.RemoveAll(dir)
	files := map[string]string{}
	for p, a := range c.Files {
		files["template/page/"+unhx(p)+".ast.json"] = unhx(a)
	}
	if err := writeTree(dir, files); err != nil {
		return m, err
	}
	name := unhx(c.Render)
	var pending []io.Reader
	defer func() {
		for i, rd := range pending {
			if rd != nil && i < len(m.Res) && m.Res[i].Class == clsOK {
				b, _ := io.ReadAll(rd)
				m.Res[i].Out = hx(string(b))
			}
		}
	}()
	for _, raw := range c.Datas {
		e := newEngine(dir, false, 0, nil)
		m.Load, m.LoadMsg = safeLoad(e, "")
		if m.Load != clsOK {
			return m, nil
		}
		m.Code = hx(e.TemplateCode[name])
		for rep := 0; rep < 2; rep++ {
			data, err := buildData(raw)
			if err != nil {
				return m, err
			}
			res, rd := renderKeep(e, context.Background(), name, data)
			m.Res = append(m.Res, res)
			pending = append(pending, rd)
		}
	}
	return m, nil
}

func init() {
	runners["C03"] = func(in json.RawMessage) (interface{}, error) {
		debug.SetMaxStack(64 << 20)
		var cases []c03Case
		if err := json.Unmarshal(in, &cases); err != nil {
			return nil, err
		}
		out := make([]c03Obs, len(cases))
		for i, c := range cases {
			if len(c.Sibs) > 0 {
				o, err := c03RunLayouts(c)
				if err != nil {
					return nil, fmt.Errorf("case %d: %w", i, err)
				}
				out[i] = o
				continue
			}
			var p tcMode
			var err error
			if c.Again {
				p, err = c03RunAgain(c.tcCase)
			} else {
				p, err = runTCMode(c.tcCase, false)
			}
			if err != nil {
				return nil, fmt.Errorf("case %d: %w", i, err)
			}
			out[i].Prod = p
			if c.Debug {
				d, err := runTCMode(c.tcCase, true)
				if err != nil {
					return nil, fmt.Errorf("case %d (debug): %w", i, err)
				}
				out[i].Debug = &d
			}
		}
		return out, nil
	}
}
