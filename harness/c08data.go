package main

import (
	"encoding/json"
	"fmt"
	"reflect"
	"strconv"
	"strings"
	"sync"
	"sync/atomic"

	"flamingo.me/pugtemplate/pugjs"
)

// C08 data values that are Go STRUCTS (the data of a real application: products, users, ...),
// next to the maps and slices of harness/tmpl.go buildData.
//
// The engine turns a struct into the members of a pugjs.Map by reflection the first time a
// template reads a member of it.  Whatever the engine (or a library below it) remembers per Go
// type is first written when a value of that type is first seen, so "a type the engine has never
// seen" is a state of its own, and C08 wants it reached INSIDE the concurrent phase:
//
//   {"t":"sof","v":{...}}    a value of a reflect.StructOf type.  The type has the listed fields,
//                            `pad` further string fields P0.. (their place among the listed ones
//                            is `pad_at`) and one more field whose NAME contains the type epoch of
//                            the round (c08TypeEnv.epoch, a process-wide counter), so that every
//                            round and every "alone" phase has struct types that did not exist
//                            before.  All goroutines of a round share the round's types.
//   {"t":"named","v":{...}}  a value of one instance of the generic named type c08Named[T] (with
//                            methods, also behind a pointer); `idx` + the round picks the instance,
//                            so in a fresh process every round meets a named type for the first time.
//
// What a template prints never depends on the epoch field or on which instance was picked.
//
// OBJECTS OF THE ENGINE'S OWN MODEL THAT THE CALLER SHARES BETWEEN RENDERS (a cache of converted
// values put into the data of every request):
//
//   {"t":"shared","v":{"id":..,"val":..}}  the ONE result of pugjs.Convert(val) that this case's caller holds
//                            under that id: built when first asked for, then handed to every render of the
//                            case (alone or in a storm, whatever the job) whose data names the id.  Every
//                            render still gets its own OUTER data value; what is shared is the converted
//                            object inside it.
//   {"t":"ptr","v":..}       a pointer to the described value (to a map, to a struct, to a pointer, to an
//                            object of the engine's model)
//   {"t":"objs","v":[..]}    []pugjs.Object, {"t":"omap","v":[[k,v]..]} map[string]pugjs.Object (elements that
//                            are not objects yet are converted)
//
// Templates push to, sort and assign into what they find in their data; a render must see only its own
// writes, and what the caller holds must be afterwards what it was (the renders alone after the storm get
// the same shared objects and must answer as before it).

// c08Shared: the converted objects the caller of the current case holds (reset per case).
var c08Shared = struct {
	sync.Mutex
	m map[string]pugjs.Object
}{m: map[string]pugjs.Object{}}

func c08ResetShared() {
	c08Shared.Lock()
	c08Shared.m = map[string]pugjs.Object{}
	c08Shared.Unlock()
}

func c08AsObject(v interface{}) pugjs.Object {
	if o, ok := v.(pugjs.Object); ok {
		return o
	}
	return pugjs.Convert(v)
}

type c08TypeEnv struct {
	epoch uint64 // names the extra field of the StructOf types
	shift int    // added to the instance index of named types
}

var c08Epoch uint64

func c08NewEnv(shift int) *c08TypeEnv {
	return &c08TypeEnv{epoch: atomic.AddUint64(&c08Epoch, 1), shift: shift}
}

type c08SofSpec struct {
	Fields [][2]json.RawMessage `json:"fields"` // hex Go field name (exported), typed value
	Pad    int                  `json:"pad"`
	PadAt  int                  `json:"pad_at"`
	Fam    int                  `json:"fam"`
	Ptr    bool                 `json:"ptr"`
}

type c08NamedSpec struct {
	Idx   int             `json:"idx"`
	Ptr   bool            `json:"ptr"`
	Name  string          `json:"name"` // hex
	Qty   int             `json:"qty"`
	Tags  []string        `json:"tags"` // hex
	URL   string          `json:"url"`  // hex
	PID   string          `json:"pid"`  // hex
	Inner json.RawMessage `json:"inner"`
}

// c08Named is a family of named struct types with methods: every instantiation is a Go type of
// its own (own reflect.Type, own method set).
type c08Named[T any] struct {
	Name      string
	Qty       int
	Tags      []string
	URL       string
	ProductID string
	Inner     interface{}
}

func (n c08Named[T]) Label() string { return n.Name + "#" + strconv.Itoa(n.Qty) }
func (n c08Named[T]) Double() int   { return 2 * n.Qty }
func (n c08Named[T]) HasTag(t string) bool {
	for _, x := range n.Tags {
		if x == t {
			return true
		}
	}
	return false
}
func (n c08Named[T]) TagLine() string { return strings.Join(n.Tags, "+") }

func c08Mk[T any](name string, qty int, tags []string, url, pid string, inner interface{}, ptr bool) interface{} {
	v := c08Named[T]{Name: name, Qty: qty, Tags: tags, URL: url, ProductID: pid, Inner: inner}
	if ptr {
		return &v
	}
	return v
}

var c08Family = []func(string, int, []string, string, string, interface{}, bool) interface{}{
	c08Mk[[0]byte], c08Mk[[1]byte], c08Mk[[2]byte], c08Mk[[3]byte], c08Mk[[4]byte], c08Mk[[5]byte],
	c08Mk[[6]byte], c08Mk[[7]byte], c08Mk[[8]byte], c08Mk[[9]byte], c08Mk[[10]byte], c08Mk[[11]byte],
	c08Mk[[12]byte], c08Mk[[13]byte], c08Mk[[14]byte], c08Mk[[15]byte], c08Mk[[16]byte], c08Mk[[17]byte],
	c08Mk[[18]byte], c08Mk[[19]byte], c08Mk[[20]byte], c08Mk[[21]byte], c08Mk[[22]byte], c08Mk[[23]byte],
	c08Mk[[24]byte], c08Mk[[25]byte], c08Mk[[26]byte], c08Mk[[27]byte], c08Mk[[28]byte], c08Mk[[29]byte],
	c08Mk[[30]byte], c08Mk[[31]byte], c08Mk[[32]byte], c08Mk[[33]byte], c08Mk[[34]byte], c08Mk[[35]byte],
	c08Mk[[36]byte], c08Mk[[37]byte], c08Mk[[38]byte], c08Mk[[39]byte], c08Mk[[40]byte], c08Mk[[41]byte],
	c08Mk[[42]byte], c08Mk[[43]byte], c08Mk[[44]byte], c08Mk[[45]byte], c08Mk[[46]byte], c08Mk[[47]byte],
}

var (
	c08tString = reflect.TypeOf("")
	c08tInt    = reflect.TypeOf(0)
	c08tFloat  = reflect.TypeOf(0.0)
	c08tBool   = reflect.TypeOf(false)
	c08tAny    = reflect.TypeOf((*interface{})(nil)).Elem()
)

// c08Build is buildData (harness/tmpl.go) plus the struct tags; env names the round's types.
func c08Build(raw json.RawMessage, env *c08TypeEnv) (interface{}, error) {
	var tv tval
	if err := json.Unmarshal(raw, &tv); err != nil {
		return nil, err
	}
	switch tv.T {
	case "arr":
		var l []json.RawMessage
		if err := json.Unmarshal(tv.V, &l); err != nil {
			return nil, err
		}
		res := make([]interface{}, len(l))
		for i, x := range l {
			v, err := c08Build(x, env)
			if err != nil {
				return nil, err
			}
			res[i] = v
		}
		return res, nil
	case "map":
		var l [][2]json.RawMessage
		if err := json.Unmarshal(tv.V, &l); err != nil {
			return nil, err
		}
		res := make(map[string]interface{}, len(l))
		for _, kv := range l {
			var k string
			if err := json.Unmarshal(kv[0], &k); err != nil {
				return nil, err
			}
			v, err := c08Build(kv[1], env)
			if err != nil {
				return nil, err
			}
			res[unhx(k)] = v
		}
		return res, nil
	case "shared":
		var sp struct {
			ID  string          `json:"id"`
			Val json.RawMessage `json:"val"`
		}
		if err := json.Unmarshal(tv.V, &sp); err != nil {
			return nil, err
		}
		c08Shared.Lock()
		o, ok := c08Shared.m[sp.ID]
		c08Shared.Unlock()
		if ok {
			return o, nil
		}
		v, err := c08Build(sp.Val, env)
		if err != nil {
			return nil, err
		}
		c08Shared.Lock()
		defer c08Shared.Unlock()
		if o, ok := c08Shared.m[sp.ID]; ok { // somebody else was first: there is ONE object per id
			return o, nil
		}
		o = pugjs.Convert(v)
		c08Shared.m[sp.ID] = o
		return o, nil
	case "ptr":
		v, err := c08Build(tv.V, env)
		if err != nil || v == nil {
			return nil, err
		}
		p := reflect.New(reflect.TypeOf(v))
		p.Elem().Set(reflect.ValueOf(v))
		return p.Interface(), nil
	case "objs":
		var l []json.RawMessage
		if err := json.Unmarshal(tv.V, &l); err != nil {
			return nil, err
		}
		res := make([]pugjs.Object, len(l))
		for i, x := range l {
			v, err := c08Build(x, env)
			if err != nil {
				return nil, err
			}
			res[i] = c08AsObject(v)
		}
		return res, nil
	case "omap":
		var l [][2]json.RawMessage
		if err := json.Unmarshal(tv.V, &l); err != nil {
			return nil, err
		}
		res := make(map[string]pugjs.Object, len(l))
		for _, kv := range l {
			var k string
			if err := json.Unmarshal(kv[0], &k); err != nil {
				return nil, err
			}
			v, err := c08Build(kv[1], env)
			if err != nil {
				return nil, err
			}
			res[unhx(k)] = c08AsObject(v)
		}
		return res, nil
	case "sof":
		var sp c08SofSpec
		if err := json.Unmarshal(tv.V, &sp); err != nil {
			return nil, err
		}
		return c08BuildSof(sp, env)
	case "named":
		var sp c08NamedSpec
		if err := json.Unmarshal(tv.V, &sp); err != nil {
			return nil, err
		}
		var inner interface{}
		if len(sp.Inner) > 0 && string(sp.Inner) != "null" {
			v, err := c08Build(sp.Inner, env)
			if err != nil {
				return nil, err
			}
			inner = v
		}
		tags := make([]string, len(sp.Tags))
		for i, t := range sp.Tags {
			tags[i] = unhx(t)
		}
		k := (sp.Idx + env.shift) % len(c08Family)
		if k < 0 {
			k += len(c08Family)
		}
		return c08Family[k](unhx(sp.Name), sp.Qty, tags, unhx(sp.URL), unhx(sp.PID), inner, sp.Ptr), nil
	}
	return buildData(raw)
}

func c08BuildSof(sp c08SofSpec, env *c08TypeEnv) (interface{}, error) {
	if sp.Pad < 0 || sp.Pad > 2000 {
		return nil, fmt.Errorf("sof: pad %d", sp.Pad)
	}
	type fv struct {
		name string
		typ  reflect.Type
		val  interface{}
	}
	var listed []fv
	for _, f := range sp.Fields {
		var hn string
		if err := json.Unmarshal(f[0], &hn); err != nil {
			return nil, err
		}
		v, err := c08Build(f[1], env)
		if err != nil {
			return nil, err
		}
		t := c08tAny
		switch v.(type) {
		case string:
			t = c08tString
		case int:
			t = c08tInt
		case float64:
			t = c08tFloat
		case bool:
			t = c08tBool
		}
		listed = append(listed, fv{unhx(hn), t, v})
	}
	at := sp.PadAt
	if at < 0 {
		at = 0
	}
	if at > len(listed) {
		at = len(listed)
	}
	all := make([]fv, 0, len(listed)+sp.Pad+1)
	all = append(all, listed[:at]...)
	for i := 0; i < sp.Pad; i++ {
		all = append(all, fv{"P" + strconv.Itoa(i), c08tString, "p" + strconv.Itoa(i)})
	}
	all = append(all, listed[at:]...)
	all = append(all, fv{fmt.Sprintf("Zz%dF%d", env.epoch, sp.Fam), c08tString, ""})
	fields := make([]reflect.StructField, len(all))
	for i, f := range all {
		fields[i] = reflect.StructField{Name: f.name, Type: f.typ}
	}
	var typ reflect.Type
	var perr interface{}
	func() {
		defer func() { perr = recover() }()
		typ = reflect.StructOf(fields)
	}()
	if perr != nil {
		return nil, fmt.Errorf("sof: %v", perr)
	}
	p := reflect.New(typ)
	rec := p.Elem()
	for i, f := range all {
		if f.val == nil {
			continue
		}
		rec.Field(i).Set(reflect.ValueOf(f.val))
	}
	if sp.Ptr {
		return p.Interface(), nil
	}
	return rec.Interface(), nil
}
