package main

import (
	"context"
	"encoding/json"
	"fmt"
	"os"
	"strings"

	"flamingo.me/pugtemplate/otto/ast"
	ottoparser "flamingo.me/pugtemplate/otto/parser"
)

// typed data: {"t":"nil|bool|int|float|str|arr|map","v":...}
type tval struct {
	T string          `json:"t"`
	V json.RawMessage `json:"v"`
}

func buildData(raw json.RawMessage) (interface{}, error) {
	var tv tval
	if err := json.Unmarshal(raw, &tv); err != nil {
		return nil, err
	}
	switch tv.T {
	case "nil":
		return nil, nil
	case "bool":
		var b bool
		err := json.Unmarshal(tv.V, &b)
		return b, err
	case "int":
		var n int64
		err := json.Unmarshal(tv.V, &n)
		return int(n), err
	case "float":
		var f float64
		err := json.Unmarshal(tv.V, &f)
		return f, err
	case "str":
		var s string
		err := json.Unmarshal(tv.V, &s)
		return unhx(s), err
	case "arr":
		var l []json.RawMessage
		if err := json.Unmarshal(tv.V, &l); err != nil {
			return nil, err
		}
		res := make([]interface{}, len(l))
		for i, x := range l {
			v, err := buildData(x)
			if err != nil {
				return nil, err
			}
			res[i] = v
		}
		return res, nil
	case "map":
		var l [][2]json.RawMessage
		if err := json.Unmarshal(tv.V, &l); err != nil {
			return nil, err
		}
		res := make(map[string]interface{}, len(l))
		for _, kv := range l {
			var k string
			if err := json.Unmarshal(kv[0], &k); err != nil {
				return nil, err
			}
			v, err := buildData(kv[1])
			if err != nil {
				return nil, err
			}
			res[unhx(k)] = v
		}
		return res, nil
	}
	return nil, fmt.Errorf("bad data tag %q", tv.T)
}

type tCase struct {
	Files  map[string]string `json:"files"` // hex name -> hex AST json
	Render string            `json:"render"`
	Data   json.RawMessage   `json:"data"`
	Debug  bool              `json:"debug"`
	Renders int              `json:"renders"` // how many times to render on the same engine (default 1)
}

type tObs struct {
	Load string       `json:"load"` // ok | load_error | load_panic
	Code string       `json:"code"` // hex of Engine.TemplateCode[name]
	Res  renderResult `json:"res"`
	More []renderResult `json:"more,omitempty"`
	LoadMsg string    `json:"load_msg,omitempty"`
}

func runTCase(c tCase) (obs tObs, err error) {
	dir, err := os.MkdirTemp("", "pvT")
	if err != nil {
		return obs, err
	}
	defer os.RemoveAll(dir)
	files := map[string]string{}
	for p, a := range c.Files {
		files["template/page/"+unhx(p)+".ast.json"] = unhx(a)
	}
	if err := writeTree(dir, files); err != nil {
		return obs, err
	}
	data, err := buildData(c.Data)
	if err != nil {
		return obs, err
	}
	e := newEngine(dir, c.Debug, 0, nil)
	name := unhx(c.Render)
	if c.Debug {
		obs.Load, obs.LoadMsg = safeLoad(e, name)
	} else {
		obs.Load, obs.LoadMsg = safeLoad(e, "")
	}
	if obs.Load != clsOK {
		return obs, nil
	}
	obs.Code = hx(e.TemplateCode[name])
	obs.Res = safeRender(e, context.Background(), name, data)
	for i := 1; i < c.Renders; i++ {
		obs.More = append(obs.More, safeRender(e, context.Background(), name, data))
	}
	return obs, nil
}

func init() {
	runners["T"] = func(in json.RawMessage) (interface{}, error) {
		var cases []tCase
		if err := json.Unmarshal(in, &cases); err != nil {
			return nil, err
		}
		out := make([]tObs, len(cases))
		for i, c := range cases {
			o, err := runTCase(c)
			if err != nil {
				return nil, fmt.Errorf("case %d: %w", i, err)
			}
			out[i] = o
		}
		return out, nil
	}
	// JS: list of hex sources -> canonical S-expression of the otto AST of `return <src>` (as FuncToStatements parses it)
	runners["JS"] = func(in json.RawMessage) (interface{}, error) {
		var srcs []string
		if err := json.Unmarshal(in, &srcs); err != nil {
			return nil, err
		}
		out := make([]string, len(srcs))
		for i, s := range srcs {
			out[i] = parseDump(unhx(s))
		}
		return out, nil
	}
}

func parseDump(src string) (res string) {
	defer func() {
		if r := recover(); r != nil {
			res = "PANIC"
		}
	}()
	p, err := ottoparser.ParseFunction("", "return "+src)
	if err != nil {
		return "ERR"
	}
	list := p.Body.(*ast.BlockStatement).List
	if len(list) != 1 {
		return "MULTI"
	}
	ret, ok := list[0].(*ast.ReturnStatement)
	if !ok {
		return "NORET"
	}
	return sexp(ret.Argument)
}

func sexps(l []ast.Expression) string {
	parts := make([]string, len(l))
	for i, x := range l {
		parts[i] = sexp(x)
	}
	return strings.Join(parts, " ")
}

func sexp(e ast.Expression) string {
	switch x := e.(type) {
	case nil:
		return "(nil)"
	case *ast.Identifier:
		return "(id " + x.Name + ")"
	case *ast.NumberLiteral:
		switch v := x.Value.(type) {
		case int64:
			return fmt.Sprintf("(num %d)", v)
		default:
			return fmt.Sprintf("(numf %v)", v)
		}
	case *ast.StringLiteral:
		return "(str " + hx(x.Value) + ")"
	case *ast.BooleanLiteral:
		return "(bool " + x.Literal + ")"
	case *ast.NullLiteral:
		return "(null)"
	case *ast.ArrayLiteral:
		return "(arr " + sexps(x.Value) + ")"
	case *ast.ObjectLiteral:
		parts := make([]string, len(x.Value))
		for i, p := range x.Value {
			parts[i] = "(" + p.Key + " " + sexp(p.Value) + ")"
		}
		return "(obj " + strings.Join(parts, " ") + ")"
	case *ast.DotExpression:
		return "(dot " + sexp(x.Left) + " " + x.Identifier.Name + ")"
	case *ast.BracketExpression:
		return "(idx " + sexp(x.Left) + " " + sexp(x.Member) + ")"
	case *ast.CallExpression:
		return "(call " + sexp(x.Callee) + " " + sexps(x.ArgumentList) + ")"
	case *ast.NewExpression:
		return "(new " + sexp(x.Callee) + " " + sexps(x.ArgumentList) + ")"
	case *ast.UnaryExpression:
		return "(un " + x.Operator.String() + " " + sexp(x.Operand) + ")"
	case *ast.BinaryExpression:
		return "(bin " + x.Operator.String() + " " + sexp(x.Left) + " " + sexp(x.Right) + ")"
	case *ast.ConditionalExpression:
		return "(cond " + sexp(x.Test) + " " + sexp(x.Consequent) + " " + sexp(x.Alternate) + ")"
	case *ast.AssignExpression:
		return "(assign " + sexp(x.Left) + " " + sexp(x.Right) + ")"
	case *ast.SequenceExpression:
		return "(seq " + sexps(x.Sequence) + ")"
	case *ast.VariableExpression:
		if x.Initializer == nil {
			return "(var " + x.Name + " -)"
		}
		return "(var " + x.Name + " " + sexp(x.Initializer) + ")"
	case *ast.FunctionLiteral:
		return "(function)"
	case *ast.RegExpLiteral:
		return "(regexp)"
	case *ast.ThisExpression:
		return "(this)"
	}
	return fmt.Sprintf("(other %T)", e)
}
