package main

import (
	"bufio"
	"bytes"
	"encoding/json"
	"errors"
	"fmt"
	"io"
	"net"
	"net/http"
	"net/http/httptest"
	"runtime"
	"strconv"
	"strings"
	"sync"
	"time"

	"flamingo.me/pugtemplate/controllers"
	"flamingo.me/pugtemplate/pugjs"
)

// C16: histories of AddProcess / process end / Finish / readiness probes on a
// real pugjs.Startup, probed through controllers.Ready.ServeHTTP.
//
// Startup processes are goroutines blocked on a channel the driver owns; the
// driver ends exactly one at a time and goes on only when that goroutine has
// left errgroup's wrapper (the goroutine that ran the process, identified by
// its id, is no longer in the runtime's goroutine dump), so that the completion
// order errgroup sees is the scripted one. If that cannot be established
// within c16Wait the case is reported as not settled (and is not judged).
//
// HOW a probe asks is part of the case (c16Event's request fields): method,
// query string, arbitrary request headers, a body, HTTP/1.0 or 1.1, and the
// way it reaches the handler:
//   via "rec"    the handler is called with an httptest.ResponseRecorder;
//   via "raw"    the request text is written to a TCP connection to a real
//                http.Server (httptest.NewServer around an http.ServeMux with
//                the route "/pugjs/ready", which is how flamingo's
//                systemendpoint mounts the handler); connections are kept in
//                numbered slots and reused for later probes of the history
//                (keep-alive) unless the request or the answer closes them;
//   via "client" the same server asked by a net/http Client (own Transport,
//                keep-alive pool) - what an orchestrator's prober does.
// The status reported is the one the CLIENT reads from the status line. The
// readiness answer has to be a function of the startup state only, so the
// judge is not told how the probe asked.
//
// A probe made while something is still running or before Finish is a single
// request (after a short yield so that a wrongly early close(done) becomes
// visible): its status is reported exactly. A probe made when every started
// process has ended and Finish was called polls for a 200 up to c16Wait
// (goroutine scheduling) and is reported as awaited.
type c16Event struct {
	Op  string `json:"op"`  // add | end | finish | probe
	P   int    `json:"p"`   // add, end: process id
	Err int    `json:"err"` // end: 0 = returns nil, n > 0 = returns an error carrying id n

	// probe: how it asks (all optional: the zero value is a plain GET through a recorder)
	Via   string      `json:"via"`   // "" | rec | raw | client
	M     string      `json:"m"`     // method, "" = GET
	Q     string      `json:"q"`     // raw query string (without '?')
	H     [][2]string `json:"h"`     // request headers in order, names as written
	Body  string      `json:"body"`  // request body (Content-Length is added)
	Proto string      `json:"proto"` // raw: "1.0" | "1.1" ("" = 1.1)
	Conn  int         `json:"conn"`  // raw: connection slot
	Close bool        `json:"close"` // raw, client: ask the server to close the connection afterwards
}

type c16Case struct {
	Events []c16Event `json:"events"`
}

type c16Probe struct {
	Code    int  `json:"code"` // 0 = the handler panicked
	Awaited bool `json:"awaited"`
}

type c16Obs struct {
	Class        string     `json:"class"`  // ok | panic (AddProcess/Finish panicked) | bad_history (outside the event grammar)
	Probes       []c16Probe `json:"probes"` // one per probe event, in order
	Done         int        `json:"done"`   // number of events performed
	Final        c16Probe   `json:"final"`  // the driver's own last probe
	Delivered    []int      `json:"delivered"`
	Settled      bool       `json:"settled"`
	ListenerDone bool       `json:"listener_done"`
}

const c16Wait = 2 * time.Second

type c16Err struct{ id int }

func (e c16Err) Error() string { return "startup process failed" }

type c16Proc struct {
	release  chan error
	returned chan struct{}
	running  bool
	gid      []byte // "goroutine N [" of the goroutine running the process (set by it before it blocks)
}

type c16Conn struct {
	c  net.Conn
	br *bufio.Reader
}

type c16Driver struct {
	s        *pugjs.Startup
	ready    *controllers.Ready
	procs    map[int]*c16Proc
	running  int
	finished bool
	wait     time.Duration // shrinks after the first timeout: a case pays the bound once
	settled  bool

	mu        sync.Mutex
	delivered []int
	ldone     chan struct{}

	srv    *httptest.Server // started with the first probe that needs it
	netmu  sync.Mutex       // one server probe at a time (a probe given up on may still hold a connection)
	conns  map[int]*c16Conn
	client *http.Client
}

func init() {
	runners["C16"] = func(in json.RawMessage) (interface{}, error) {
		var cases []c16Case
		if err := json.Unmarshal(in, &cases); err != nil {
			return nil, err
		}
		out := make([]c16Obs, len(cases))
		for i, c := range cases {
			out[i] = runC16(c)
		}
		return out, nil
	}
}

// goroutine identity: "goroutine N [" as printed by runtime.Stack
func c16Self() []byte {
	var buf [64]byte
	n := runtime.Stack(buf[:], false)
	i := bytes.IndexByte(buf[:n], '[')
	if i < 0 {
		return nil
	}
	return append([]byte{}, buf[:i+1]...)
}

var c16Dump = make([]byte, 1<<20)

// c16Alive: is the goroutine with that header still in the runtime's dump of all goroutines?
func c16Alive(gid []byte) bool {
	if gid == nil {
		return false
	}
	for {
		n := runtime.Stack(c16Dump, true)
		if n < len(c16Dump) {
			d := c16Dump[:n]
			return bytes.HasPrefix(d, gid) || bytes.Contains(d, append([]byte("\n"), gid...))
		}
		c16Dump = make([]byte, 2*len(c16Dump))
	}
}

func (d *c16Driver) server() *httptest.Server {
	if d.srv == nil {
		mux := http.NewServeMux() // as flamingo's systemendpoint mounts domain.Handler routes
		mux.Handle("/pugjs/ready", d.ready)
		d.srv = httptest.NewUnstartedServer(mux)
		d.srv.Config.ErrorLog = nil
		d.srv.Start()
		d.conns = map[int]*c16Conn{}
		d.client = &http.Client{
			Transport:     &http.Transport{MaxIdleConnsPerHost: 4},
			CheckRedirect: func(*http.Request, []*http.Request) error { return http.ErrUseLastResponse },
			Timeout:       c16Wait,
		}
	}
	return d.srv
}

func (d *c16Driver) closeServer() {
	d.netmu.Lock()
	defer d.netmu.Unlock()
	if d.srv == nil {
		return
	}
	for k, c := range d.conns {
		_ = c.c.Close()
		delete(d.conns, k)
	}
	if tr, ok := d.client.Transport.(*http.Transport); ok {
		tr.CloseIdleConnections()
	}
	d.srv.Close()
	d.srv = nil
}

func c16Target(ev c16Event) string {
	if ev.Q != "" {
		return "/pugjs/ready?" + ev.Q
	}
	return "/pugjs/ready"
}

func c16Method(ev c16Event) string {
	if ev.M == "" {
		return http.MethodGet
	}
	return ev.M
}

// the request as text on a (possibly reused) TCP connection; the status is
// the one of the status line the client reads back
func (d *c16Driver) probeRaw(ev c16Event) (int, error) {
	d.netmu.Lock()
	defer d.netmu.Unlock()
	srv := d.server()
	cc := d.conns[ev.Conn]
	if cc == nil {
		c, err := net.DialTimeout("tcp", srv.Listener.Addr().String(), c16Wait)
		if err != nil {
			return 0, err
		}
		cc = &c16Conn{c: c, br: bufio.NewReader(c)}
		d.conns[ev.Conn] = cc
	}
	drop := func() {
		_ = cc.c.Close()
		delete(d.conns, ev.Conn)
	}
	proto := "1.1"
	if ev.Proto == "1.0" {
		proto = "1.0"
	}
	var b strings.Builder
	b.WriteString(c16Method(ev) + " " + c16Target(ev) + " HTTP/" + proto + "\r\n")
	b.WriteString("Host: " + srv.Listener.Addr().String() + "\r\n")
	for _, h := range ev.H {
		b.WriteString(h[0] + ": " + h[1] + "\r\n")
	}
	if ev.Close {
		b.WriteString("Connection: close\r\n")
	}
	if ev.Body != "" {
		b.WriteString("Content-Length: " + strconv.Itoa(len(ev.Body)) + "\r\n")
	}
	b.WriteString("\r\n")
	b.WriteString(ev.Body)
	_ = cc.c.SetDeadline(time.Now().Add(c16Wait))
	if _, err := io.WriteString(cc.c, b.String()); err != nil {
		drop()
		return 0, err
	}
	resp, err := http.ReadResponse(cc.br, &http.Request{Method: c16Method(ev)})
	if err != nil {
		drop()
		return 0, err
	}
	_, err = io.Copy(io.Discard, resp.Body)
	_ = resp.Body.Close()
	if err != nil || resp.Close || ev.Close || proto == "1.0" {
		drop()
	}
	return resp.StatusCode, nil
}

func (d *c16Driver) probeClient(ev c16Event) (int, error) {
	d.netmu.Lock()
	defer d.netmu.Unlock()
	srv := d.server()
	var body io.Reader
	if ev.Body != "" {
		body = strings.NewReader(ev.Body)
	}
	req, err := http.NewRequest(c16Method(ev), srv.URL+c16Target(ev), body)
	if err != nil {
		return 0, err
	}
	for _, h := range ev.H {
		req.Header.Add(h[0], h[1])
	}
	req.Close = ev.Close
	resp, err := d.client.Do(req)
	if err != nil {
		return 0, err
	}
	_, _ = io.Copy(io.Discard, resp.Body)
	_ = resp.Body.Close()
	return resp.StatusCode, nil
}

func (d *c16Driver) probeRec(ev c16Event) int {
	var body io.Reader
	if ev.Body != "" {
		body = strings.NewReader(ev.Body)
	}
	req := httptest.NewRequest(c16Method(ev), c16Target(ev), body)
	for _, h := range ev.H {
		req.Header.Add(h[0], h[1])
	}
	rec := httptest.NewRecorder()
	d.ready.ServeHTTP(rec, req)
	return rec.Code
}

// probeOnce asks once, in a goroutine of its own so that a handler that blocks
// or panics is an observation (code 0), not a hang of the harness. A transport
// error on a server probe (nothing the handler can cause on its own) is
// retried once on a fresh connection.
func (d *c16Driver) probeOnce(ev c16Event) int {
	ch := make(chan int, 1)
	go func() {
		code := 0
		defer func() {
			_ = recover()
			ch <- code
		}()
		switch ev.Via {
		case "raw":
			c, err := d.probeRaw(ev)
			if err != nil {
				c, _ = d.probeRaw(ev)
			}
			code = c
		case "client":
			c, err := d.probeClient(ev)
			if err != nil {
				c, _ = d.probeClient(ev)
			}
			code = c
		default:
			code = d.probeRec(ev)
		}
	}()
	select {
	case code := <-ch:
		return code
	case <-time.After(3 * d.wait):
		d.timedOut()
		return 0
	}
}

func (d *c16Driver) timedOut() {
	d.wait = 20 * time.Millisecond
}

func (d *c16Driver) probe(ev c16Event) c16Probe {
	if !(d.finished && d.running == 0) {
		runtime.Gosched()
		time.Sleep(100 * time.Microsecond)
		return c16Probe{Code: d.probeOnce(ev)}
	}
	start := time.Now()
	code := d.probeOnce(ev)
	for n := 0; code != http.StatusOK && time.Since(start) < d.wait; n++ {
		if n < 50 {
			runtime.Gosched()
		} else {
			time.Sleep(200 * time.Microsecond)
		}
		code = d.probeOnce(ev)
	}
	if code != http.StatusOK {
		d.timedOut()
	}
	return c16Probe{Code: code, Awaited: true}
}

func (d *c16Driver) add(p int) (err error) {
	defer func() {
		if r := recover(); r != nil {
			err = fmt.Errorf("panic")
		}
	}()
	pr := &c16Proc{release: make(chan error), returned: make(chan struct{}), running: true}
	d.procs[p] = pr
	d.running++
	d.s.AddProcess(func() error {
		pr.gid = c16Self()
		r := <-pr.release
		close(pr.returned)
		return r
	})
	return nil
}

// end lets process p return r and waits until its goroutine is gone.
func (d *c16Driver) end(p int, r error) {
	pr := d.procs[p]
	ok := false
	select {
	case pr.release <- r:
		select {
		case <-pr.returned:
			ok = true
		case <-time.After(d.wait):
		}
	case <-time.After(d.wait):
	}
	pr.running = false
	d.running--
	if ok {
		ok = false
		start := time.Now()
		for n := 0; ; n++ {
			if !c16Alive(pr.gid) {
				ok = true
				break
			}
			if time.Since(start) > d.wait {
				break
			}
			if n < 100 {
				runtime.Gosched()
			} else {
				time.Sleep(20 * time.Microsecond)
			}
		}
	}
	if !ok {
		d.settled = false
		d.timedOut()
	}
}

// finish calls Finish and attaches the listener the way EventSubscriber.Notify
// does, except that it records what it receives (all of it) instead of panicking.
func (d *c16Driver) finish() (err error) {
	defer func() {
		if r := recover(); r != nil {
			err = fmt.Errorf("panic")
		}
	}()
	errs := d.s.Finish()
	d.finished = true
	d.ldone = make(chan struct{})
	ldone := d.ldone
	go func() {
		defer close(ldone)
		for e := range errs {
			id := 0 // an error that is none of the scripted ones
			var ce c16Err
			if errors.As(e, &ce) {
				id = ce.id
			}
			d.mu.Lock()
			d.delivered = append(d.delivered, id)
			d.mu.Unlock()
		}
	}()
	return nil
}

func (d *c16Driver) waitListener() bool {
	if d.ldone == nil {
		return false
	}
	select {
	case <-d.ldone:
		return true
	case <-time.After(d.wait):
		d.timedOut()
		return false
	}
}

// goroutines alive when no case is running (raised when a case leaks blocked ones)
var c16Base = -1

func runC16(c c16Case) (obs c16Obs) {
	if c16Base < 0 {
		c16Base = runtime.NumGoroutine()
	}
	d := &c16Driver{procs: map[int]*c16Proc{}, wait: c16Wait, settled: true}
	d.s = new(pugjs.Startup).Inject()
	d.ready = new(controllers.Ready).Inject(d.s)
	obs.Class = "ok"
	obs.Probes = []c16Probe{}
	obs.Delivered = []int{}

loop:
	for _, ev := range c.Events {
		switch ev.Op {
		case "add":
			if _, dup := d.procs[ev.P]; dup || d.finished {
				obs.Class = "bad_history"
				break loop
			}
			if d.add(ev.P) != nil {
				obs.Class = "panic"
				break loop
			}
		case "end":
			pr, known := d.procs[ev.P]
			if !known || !pr.running {
				obs.Class = "bad_history"
				break loop
			}
			var r error
			if ev.Err != 0 {
				r = c16Err{id: ev.Err}
			}
			d.end(ev.P, r)
		case "finish":
			if d.finished {
				obs.Class = "bad_history"
				break loop
			}
			if d.finish() != nil {
				obs.Class = "panic"
				break loop
			}
		case "probe":
			obs.Probes = append(obs.Probes, d.probe(ev))
		default:
			obs.Class = "bad_history"
			break loop
		}
		obs.Done++
	}

	if obs.Class == "ok" {
		obs.Final = d.probe(c16Event{Op: "probe"})
		if d.finished && d.running == 0 {
			obs.ListenerDone = d.waitListener()
		}
	}
	d.mu.Lock()
	obs.Delivered = append(obs.Delivered, d.delivered...)
	d.mu.Unlock()
	obs.Settled = d.settled

	// clean up: let everything run to its end so that no goroutine of this case
	// is left to exit during the next one
	func() {
		defer func() { _ = recover() }()
		for p, pr := range d.procs {
			if pr.running {
				d.end(p, nil)
			}
		}
		if !d.finished {
			_ = d.finish()
		}
		d.waitListener()
		closed := make(chan struct{})
		go func() {
			defer close(closed)
			d.closeServer()
		}()
		select {
		case <-closed:
		case <-time.After(time.Second):
		}
		limit := d.wait
		if limit > 200*time.Millisecond {
			limit = 200 * time.Millisecond
		}
		start := time.Now()
		for runtime.NumGoroutine() > c16Base {
			if time.Since(start) > limit {
				c16Base = runtime.NumGoroutine() // blocked for good: part of the baseline from now on
				break
			}
			time.Sleep(20 * time.Microsecond)
		}
	}()
	return obs
}
