package main

import (
	"encoding/json"
	"errors"
	"fmt"
	"net/http"
	"net/http/httptest"
	"runtime"
	"sync"
	"time"

	"flamingo.me/pugtemplate/controllers"
	"flamingo.me/pugtemplate/pugjs"
)

// C16: histories of AddProcess / process end / Finish / readiness probes on a
// real pugjs.Startup, probed through controllers.Ready.ServeHTTP.
//
// Startup processes are goroutines blocked on a channel the driver owns; the
// driver ends exactly one at a time and goes on only when that goroutine has
// left errgroup's wrapper (goroutine count dropped), so that the completion
// order errgroup sees is the scripted one. If that cannot be established
// within c16Wait the case is reported as not settled (and is not judged).
//
// A probe made while something is still running or before Finish is a single
// request (after a short yield so that a wrongly early close(done) becomes
// visible): its status is reported exactly. A probe made when every started
// process has ended and Finish was called polls for a 200 up to c16Wait
// (goroutine scheduling) and is reported as awaited.
type c16Event struct {
	Op  string `json:"op"`  // add | end | finish | probe
	P   int    `json:"p"`   // add, end: process id
	Err int    `json:"err"` // end: 0 = returns nil, n > 0 = returns an error carrying id n
}

type c16Case struct {
	Events []c16Event `json:"events"`
}

type c16Probe struct {
	Code    int  `json:"code"` // 0 = the handler panicked
	Awaited bool `json:"awaited"`
}

type c16Obs struct {
	Class        string     `json:"class"`  // ok | panic (AddProcess/Finish panicked) | bad_history (outside the event grammar)
	Probes       []c16Probe `json:"probes"` // one per probe event, in order
	Done         int        `json:"done"`   // number of events performed
	Final        c16Probe   `json:"final"`  // the driver's own last probe
	Delivered    []int      `json:"delivered"`
	Settled      bool       `json:"settled"`
	ListenerDone bool       `json:"listener_done"`
}

const c16Wait = 2 * time.Second

type c16Err struct{ id int }

func (e c16Err) Error() string { return "startup process failed" }

type c16Proc struct {
	release  chan error
	returned chan struct{}
	running  bool
}

type c16Driver struct {
	s        *pugjs.Startup
	ready    *controllers.Ready
	procs    map[int]*c16Proc
	running  int
	finished bool
	wait     time.Duration // shrinks after the first timeout: a case pays the bound once
	settled  bool

	mu        sync.Mutex
	delivered []int
	ldone     chan struct{}
}

func init() {
	runners["C16"] = func(in json.RawMessage) (interface{}, error) {
		var cases []c16Case
		if err := json.Unmarshal(in, &cases); err != nil {
			return nil, err
		}
		out := make([]c16Obs, len(cases))
		for i, c := range cases {
			out[i] = runC16(c)
		}
		return out, nil
	}
}

// probeOnce runs the handler in its own goroutine so that a handler that
// blocks or panics is an observation (code 0), not a hang of the harness, and
// returns only when that goroutine is gone again (the goroutine count is what
// end() relies on).
func (d *c16Driver) probeOnce() int {
	pre := runtime.NumGoroutine()
	ch := make(chan int, 1)
	go func() {
		code := 0
		defer func() {
			_ = recover()
			ch <- code
		}()
		rec := httptest.NewRecorder()
		d.ready.ServeHTTP(rec, httptest.NewRequest(http.MethodGet, "/pugjs/ready", nil))
		code = rec.Code
	}()
	select {
	case code := <-ch:
		start := time.Now()
		for n := 0; runtime.NumGoroutine() > pre; n++ {
			if time.Since(start) > d.wait {
				d.settled = false
				d.timedOut()
				break
			}
			if n < 100 {
				runtime.Gosched()
			} else {
				time.Sleep(20 * time.Microsecond)
			}
		}
		return code
	case <-time.After(d.wait):
		d.timedOut()
		return 0
	}
}

func (d *c16Driver) timedOut() {
	d.wait = 20 * time.Millisecond
}

func (d *c16Driver) probe() c16Probe {
	if !(d.finished && d.running == 0) {
		runtime.Gosched()
		time.Sleep(100 * time.Microsecond)
		return c16Probe{Code: d.probeOnce()}
	}
	start := time.Now()
	code := d.probeOnce()
	for n := 0; code != http.StatusOK && time.Since(start) < d.wait; n++ {
		if n < 50 {
			runtime.Gosched()
		} else {
			time.Sleep(200 * time.Microsecond)
		}
		code = d.probeOnce()
	}
	if code != http.StatusOK {
		d.timedOut()
	}
	return c16Probe{Code: code, Awaited: true}
}

func (d *c16Driver) add(p int) (err error) {
	defer func() {
		if r := recover(); r != nil {
			err = fmt.Errorf("panic")
		}
	}()
	pr := &c16Proc{release: make(chan error), returned: make(chan struct{}), running: true}
	d.procs[p] = pr
	d.running++
	d.s.AddProcess(func() error {
		r := <-pr.release
		close(pr.returned)
		return r
	})
	return nil
}

// end lets process p return r and waits until its goroutine is gone.
func (d *c16Driver) end(p int, r error) {
	pr := d.procs[p]
	before := runtime.NumGoroutine()
	ok := false
	select {
	case pr.release <- r:
		select {
		case <-pr.returned:
			ok = true
		case <-time.After(d.wait):
		}
	case <-time.After(d.wait):
	}
	pr.running = false
	d.running--
	if ok {
		ok = false
		start := time.Now()
		for n := 0; ; n++ {
			if runtime.NumGoroutine() < before {
				ok = true
				break
			}
			if time.Since(start) > d.wait {
				break
			}
			if n < 100 {
				runtime.Gosched()
			} else {
				time.Sleep(20 * time.Microsecond)
			}
		}
	}
	if !ok {
		d.settled = false
		d.timedOut()
	}
}

// finish calls Finish and attaches the listener the way EventSubscriber.Notify
// does, except that it records what it receives (all of it) instead of panicking.
func (d *c16Driver) finish() (err error) {
	defer func() {
		if r := recover(); r != nil {
			err = fmt.Errorf("panic")
		}
	}()
	errs := d.s.Finish()
	d.finished = true
	d.ldone = make(chan struct{})
	ldone := d.ldone
	go func() {
		defer close(ldone)
		for e := range errs {
			id := 0 // an error that is none of the scripted ones
			var ce c16Err
			if errors.As(e, &ce) {
				id = ce.id
			}
			d.mu.Lock()
			d.delivered = append(d.delivered, id)
			d.mu.Unlock()
		}
	}()
	return nil
}

func (d *c16Driver) waitListener() bool {
	if d.ldone == nil {
		return false
	}
	select {
	case <-d.ldone:
		return true
	case <-time.After(d.wait):
		d.timedOut()
		return false
	}
}

// goroutines alive when no case is running (raised when a case leaks blocked ones)
var c16Base = -1

func runC16(c c16Case) (obs c16Obs) {
	if c16Base < 0 {
		c16Base = runtime.NumGoroutine()
	}
	d := &c16Driver{procs: map[int]*c16Proc{}, wait: c16Wait, settled: true}
	d.s = new(pugjs.Startup).Inject()
	d.ready = new(controllers.Ready).Inject(d.s)
	obs.Class = "ok"
	obs.Probes = []c16Probe{}
	obs.Delivered = []int{}

loop:
	for _, ev := range c.Events {
		switch ev.Op {
		case "add":
			if _, dup := d.procs[ev.P]; dup || d.finished {
				obs.Class = "bad_history"
				break loop
			}
			if d.add(ev.P) != nil {
				obs.Class = "panic"
				break loop
			}
		case "end":
			pr, known := d.procs[ev.P]
			if !known || !pr.running {
				obs.Class = "bad_history"
				break loop
			}
			var r error
			if ev.Err != 0 {
				r = c16Err{id: ev.Err}
			}
			d.end(ev.P, r)
		case "finish":
			if d.finished {
				obs.Class = "bad_history"
				break loop
			}
			if d.finish() != nil {
				obs.Class = "panic"
				break loop
			}
		case "probe":
			obs.Probes = append(obs.Probes, d.probe())
		default:
			obs.Class = "bad_history"
			break loop
		}
		obs.Done++
	}

	if obs.Class == "ok" {
		obs.Final = d.probe()
		if d.finished && d.running == 0 {
			obs.ListenerDone = d.waitListener()
		}
	}
	d.mu.Lock()
	obs.Delivered = append(obs.Delivered, d.delivered...)
	d.mu.Unlock()
	obs.Settled = d.settled

	// clean up: let everything run to its end so that no goroutine of this case
	// is left to exit during the next one
	func() {
		defer func() { _ = recover() }()
		for p, pr := range d.procs {
			if pr.running {
				d.end(p, nil)
			}
		}
		if !d.finished {
			_ = d.finish()
		}
		d.waitListener()
		limit := d.wait
		if limit > 200*time.Millisecond {
			limit = 200 * time.Millisecond
		}
		start := time.Now()
		for runtime.NumGoroutine() > c16Base {
			if time.Since(start) > limit {
				c16Base = runtime.NumGoroutine() // blocked for good: part of the baseline from now on
				break
			}
			time.Sleep(20 * time.Microsecond)
		}
	}()
	return obs
}
