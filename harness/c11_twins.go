package main

// C11: look-alike types. Distinct Go types that cannot be told apart by their name
// (reflect.Type.String() is "main.Product" for every function-local type called Product, and
// "shop.Product" for the types of the two packages harness/c11_one and harness/c11_two, which
// are both called shop). The generator (gen/c11.py, TWINS) carries its own description of every
// type listed here; c11Type compares that description with what reflect reports, so a wrong
// description is a harness error and not a verdict.

import (
	"reflect"

	shop1 "verif/harness/c11_one"
	shop2 "verif/harness/c11_two"
)

func c11ScopeA() map[string]reflect.Type {
	type Product struct {
		Sku   string
		Price int
	}
	type Cart struct {
		Items []Product
		Owner *Product
		Note  string
	}
	type Entry struct {
		Name  string
		Value interface{}
		Next  *Entry
	}
	type Tags []string
	type Attrs map[string]int
	type Label string
	return map[string]reflect.Type{
		"Product": reflect.TypeOf(Product{}), "Cart": reflect.TypeOf(Cart{}), "Entry": reflect.TypeOf(Entry{}),
		"Tags": reflect.TypeOf(Tags(nil)), "Attrs": reflect.TypeOf(Attrs(nil)), "Label": reflect.TypeOf(Label("")),
	}
}

// other names, fewer fields, other order, other element types
func c11ScopeB() map[string]reflect.Type {
	type Product struct {
		Title string
		Qty   int
	}
	type Cart struct {
		Note  string
		Items []Product
	}
	type Entry struct {
		Value interface{}
		Name  string
	}
	type Tags []int
	type Attrs map[string]string
	type Label int
	return map[string]reflect.Type{
		"Product": reflect.TypeOf(Product{}), "Cart": reflect.TypeOf(Cart{}), "Entry": reflect.TypeOf(Entry{}),
		"Tags": reflect.TypeOf(Tags(nil)), "Attrs": reflect.TypeOf(Attrs(nil)), "Label": reflect.TypeOf(Label(0)),
	}
}

// the names of A at other positions and with other types, one field more
func c11ScopeC() map[string]reflect.Type {
	type Product struct {
		Price int
		Sku   string
		Title string
	}
	type Cart struct {
		Owner Product
		Items map[string]Product
		Note  int
	}
	type Entry struct {
		Name  int
		Value string
		Next  *Entry
	}
	type Tags []Product
	type Attrs map[string]*Product
	type Label bool
	return map[string]reflect.Type{
		"Product": reflect.TypeOf(Product{}), "Cart": reflect.TypeOf(Cart{}), "Entry": reflect.TypeOf(Entry{}),
		"Tags": reflect.TypeOf(Tags(nil)), "Attrs": reflect.TypeOf(Attrs(nil)), "Label": reflect.TypeOf(Label(false)),
	}
}

// the shapes of A once more (a distinct type of identical shape), and unexported fields where A has exported ones
func c11ScopeD() map[string]reflect.Type {
	type Product struct {
		Sku   string
		Price int
	}
	type Cart struct {
		Items []Product
		owner *Product
		Note  string
		Total int
	}
	type Entry struct {
		name  string
		Value interface{}
		Name  string
	}
	type Tags []string
	type Attrs map[string]interface{}
	type Label string
	return map[string]reflect.Type{
		"Product": reflect.TypeOf(Product{}), "Cart": reflect.TypeOf(Cart{}), "Entry": reflect.TypeOf(Entry{}),
		"Tags": reflect.TypeOf(Tags(nil)), "Attrs": reflect.TypeOf(Attrs(nil)), "Label": reflect.TypeOf(Label("")),
	}
}

// c11Twins: scope or package -> type name -> type
var c11Twins = map[string]map[string]reflect.Type{
	"A": c11ScopeA(), "B": c11ScopeB(), "C": c11ScopeC(), "D": c11ScopeD(),
	"one": {"Product": reflect.TypeOf(shop1.Product{}), "Cart": reflect.TypeOf(shop1.Cart{})},
	"two": {"Product": reflect.TypeOf(shop2.Product{}), "Cart": reflect.TypeOf(shop2.Cart{})},
}
