# C04 — escaped output never lets data-supplied markup through.
#
# Every case is ONE template rendered twice by the real engine: with a hostile string h at the data positions and with a
# harmless marker m at the same positions (when h is a map KEY, the marker is the key there).  Oracle on Go's own two
# outputs: out_h = replace_all m (escape h) out_m.  Three streams:
#   A  carriers  — one expression shape (concatenation, conditional, default, template literal, array, slice/join, nested)
#                  around a hostile position, inside tags / if / each;
#   B  routes    — every way data reaches an escaping construct: map KEYS through the key variable of `each v, k in obj`,
#                  elements by index and by loop (arrays, maps, arrays of maps, nested maps), mixin parameters, the
#                  `attributes` of a mixin call, the block of a mixin call, variables declared from data, the text of a
#                  caught exception (try / catch around JSON.parse of data);
#   C  state     — escaped code inside / after everything that sets compile-time state: unescaped and unbuffered code,
#                  multi-statement code, mixin definitions and call blocks ending in unescaped code, interpolated tags
#                  (`#{tg}` + block, nested, before / after / around code nodes).
#   D  partners  — the compiler decides PER EXPRESSION SHAPE whether the escaper is appended, so the hostile string meets
#                  every operator and every literal kind as its PARTNER in every carrier position: logical defaults and
#                  guards with a number / boolean / null / string / array / object literal, a comparison, arithmetic, a
#                  negation or harmless data of every kind on the other side (`x || 0`, `x || false`, `x || null`,
#                  `n > 0 && x`, `true && x`, `x != null && x`, `!x || x`), sums with such partners on either side, such
#                  expressions under `+`, `?:`, array literals, call arguments, mixin arguments and attributes, `= e` and
#                  `#{e}`.  Streams A-C draw their carriers from the same menu (with a smaller share of partners).
#                  Which operand is printed is decided by the data (n, z, e, nl, p are harmless and equal in both renders).
# Interpolated tags and try/catch have no constructor in the pug model: such cases are OPAQUE — sent to the engine as raw
# AST JSON, passed to the judge as stand-ins for the domain test, judged by the oracle alone.
import json
import tgen
import tmpl
from core import CoreProp, ser, de, shrink_nodes, FUNCS, obsm_coq
from common import cq_bytes, cq_bool, cq_list, hx, unhx

MARK = b"MARKq7Zx"
MARK1 = b"Q"        # marker of the caught route (one byte of the data reaches the error text)
H_BASE = [b"<b>", b"</div>", b'"', b"'", b"&", b"&amp;", b"<script>alert(1)</script>", b'" onload="x', b"a<b>c&d\"e'f",
          b"{{", b"}}", b"{{.}}", b"{{- x -}}", b"`", b"\\", b"&#34;", b"<!--", b"]]>", b"\xc3\xa9<", b"<<>>",
          b"'><img src=x>", b"{{/* c */}}", b"${x}", b"x<y", b"<a href='j'>", b"&lt;", b"</script>", b"-->", b"<%", b"a b<c d>"]
H_CAUGHT = [b"<", b">", b"&", b'"']     # encoding/json quotes these verbatim in `invalid character 'c' after top-level value`
ITAG_NAMES = [b"div", b"span", b"p", b"section", b"b"]


def hostile(rng):
    k = rng.random()
    if k < 0.6:
        return rng.choice(H_BASE)
    if k < 0.85:
        return rng.choice(H_BASE) + rng.choice([b"x", b"1", b"z9"]) + rng.choice(H_BASE)
    alphabet = b"<>\"'&{}ab1 -/=;#"
    s = bytes(rng.choice(alphabet) for _ in range(rng.choice([1, 2, 3, 5, 8, 13])))
    return b"<" + s.strip() + b">"


# ---- the two node kinds the pug model has no constructor for -------------------------------------------------------
# ('itag', expr, inline, [node])                         pug `#{expr} ...`  (AST type InterpolatedTag)
# ('trycode', [stmt], evar, [stmt], must_escape, inline) a code node `try { ... } catch (evar) { ... }`

def try_src(n):
    return (b"try { " + b"; ".join(tmpl.stmt_src(s) for s in n[1]) + b" } catch (" + n[2] + b") { "
            + b"; ".join(tmpl.stmt_src(s) for s in n[3]) + b" }")


def pj(n):
    """pug AST JSON of a node (tmpl.pug_json + the opaque kinds, at any depth)"""
    k = n[0]
    blk = lambda l: {"type": "Block", "nodes": [pj(x) for x in l]}
    if k == 'itag':
        return {"type": "InterpolatedTag", "expr": tmpl.s_(tmpl.js_src(n[1])), "isInline": n[2], "selfClosing": False,
                "attrs": [], "attributeBlocks": [], "block": blk(n[3])}
    if k == 'trycode':
        return {"type": "Code", "val": tmpl.s_(try_src(n)), "buffer": False, "mustEscape": n[4], "isInline": n[5]}
    d = tmpl.pug_json(n[:5] + ([],) if k == 'tag' else n[:2] + ([], None) if k == 'cond' else
                      n[:4] + ([],) if k in ('each', 'call') else n[:3] + ([],) if k == 'mixin' else
                      (k, []) if k == 'block' else n)
    if k == 'tag':
        d["block"] = blk(n[5])
    elif k == 'cond':
        d["consequent"] = blk(n[2])
        d["alternate"] = None if n[3] is None else pj(n[3])
    elif k == 'each':
        d["block"] = blk(n[4])
    elif k == 'call':
        d["block"] = blk(n[4]) if n[4] else None
    elif k == 'mixin':
        d["block"] = blk(n[3])
    elif k == 'block':
        d = blk(n[1])
    return d


def pc(n):
    """Gallina term of a node; the opaque kinds as the stand-ins described in Run/Judge_C04.v"""
    k = n[0]
    L = lambda l: cq_list([pc(x) for x in l])
    if k == 'itag':
        return (b'(PTag (B "#{") ' + cq_bool(n[2]) + b' [{| pa_name := B "expr"; pa_val := ' + tmpl.js_coq(n[1])
                + b'; pa_esc := false |}] [] ' + L(n[3]) + b')')
    if k == 'trycode':
        blk = lambda st: b'(SBlock ' + cq_list([tmpl.stmt_coq(s) for s in st]) + b')'
        return (b'(PCode [SIf (JId (B "#try")) ' + blk(n[1]) + b' (Some ' + blk(n[3]) + b')] ' + cq_bool(n[4]) + b' '
                + cq_bool(n[5]) + b')')
    if k == 'tag':
        return (b'(PTag ' + cq_bytes(n[1]) + b' ' + cq_bool(n[2]) + b' ' + cq_list([tmpl.attr_coq(a) for a in n[3]]) + b' '
                + cq_list([cq_bytes(a) for a in n[4]]) + b' ' + L(n[5]) + b')')
    if k == 'cond':
        return (b'(PCond ' + tmpl.js_coq(n[1]) + b' ' + L(n[2]) + b' '
                + (b'None' if n[3] is None else b'(Some ' + pc(n[3]) + b')') + b')')
    if k == 'each':
        return (b'(PEach ' + cq_bytes(n[1]) + b' ' + (b'None' if n[2] is None else b'(Some ' + cq_bytes(n[2]) + b')') + b' '
                + tmpl.js_coq(n[3]) + b' ' + L(n[4]) + b')')
    if k == 'mixin':
        return b'(PMixinDef ' + cq_bytes(n[1]) + b' ' + cq_list([cq_bytes(p) for p in n[2]]) + b' ' + L(n[3]) + b')'
    if k == 'call':
        return (b'(PMixinCall ' + cq_bytes(n[1]) + b' ' + cq_list([tmpl.js_coq(a) for a in n[2]]) + b' '
                + cq_list([tmpl.attr_coq(a) for a in n[3]]) + b' ' + L(n[4]) + b')')
    if k == 'block':
        return b'(PBlock ' + L(n[1]) + b')'
    return tmpl.pug_coq(n)


def kids(n):
    k = n[0]
    if k == 'tag':
        return n[5]
    if k == 'cond':
        return n[2] + ([n[3]] if n[3] is not None else [])
    if k in ('each', 'call'):
        return n[4]
    if k in ('mixin', 'itag'):
        return n[3]
    if k == 'block':
        return n[1]
    return []


def walk(nodes):
    for n in nodes:
        yield n
        for x in walk(kids(n)):
            yield x


def is_opaque(nodes):
    return any(n[0] in ('itag', 'trycode') for n in walk(nodes))


def file_text(nodes):
    return json.dumps({"type": "Block", "nodes": [pj(n) for n in nodes]}, ensure_ascii=False).encode('utf-8', 'surrogateescape')


G_BASES = [('id', b"h"), ('dot', ('id', b"ho"), b"k"), ('idx', ('id', b"ha"), ('num', 0)), ('id', b"h")]
G_DEEP = [('dot', ('dot', ('id', b"hn"), b"a"), b"b"), ('dot', ('idx', ('id', b"hl"), ('num', 0)), b"k"),
          ('idx', ('dot', ('id', b"hn"), b"l"), ('num', 0))]


# partners: every literal kind and the harmless data of every kind (n integer, z = 0, e = "", nl = null, p boolean, s string)
PLAIN_LEAVES = [('num', 0), ('num', 0), ('num', 1), ('num', 7), ('num', -1), ('bool', True), ('bool', False), ('bool', False),
                ('null',), ('null',), ('str', b""), ('str', b"x"), ('str', b"a b"), ('arr', []), ('arr', [('num', 1)]),
                ('obj', []), ('numf', b"0.5"), ('id', b"n"), ('id', b"n"), ('id', b"z"), ('id', b"e"), ('id', b"nl"),
                ('id', b"p"), ('id', b"s")]


def no_leading_obj(e):
    """an expression statement cannot start with `{` (that is a block): the left-most operand, when it is an object
    literal, is replaced by an array literal"""
    k = e[0]
    if k == 'obj':
        return ('arr', [])
    if k == 'bin':
        return (k, e[1], no_leading_obj(e[2]), e[3])
    if k in ('cond', 'dot', 'idx', 'call'):
        return (k, no_leading_obj(e[1])) + e[2:]
    return e


def hostile_expr(e):
    return any(v.startswith(b"h") or v == b"attributes" for v in tgen.expr_vars(e))


def partner_kind(e):
    """what the partner of the hostile operand is: the literal kind, the harmless data name, or the operator class"""
    k = e[0]
    if k == 'num':
        return 'number'
    if k == 'numf':
        return 'fraction'
    if k in ('bool', 'null', 'str', 'arr', 'obj', 'tpl'):
        return {'bool': 'boolean', 'null': 'null', 'str': 'string', 'arr': 'array', 'obj': 'object', 'tpl': 'template'}[k]
    if k == 'id':
        return 'data:' + e[1].decode()
    if k == 'un':
        return 'negation' if e[1] == '!' else 'unary'
    if k == 'bin':
        return ('logical' if e[1] in ('||', '&&') else 'arithmetic' if e[1] in ('+', '-', '*', '/', '%') else 'comparison')
    return k


def partner_pairs(e, acc, top=True):
    """every place in e where an operator that yields / joins its operands has ONE hostile-carrying operand and one
    harmless partner: acc['<op> <partner kind>'] += 1 ('top:' prefix when it is the printed expression itself)"""
    if not isinstance(e, tuple):
        return
    k = e[0]
    pairs = []
    if k == 'bin' and e[1] in ('||', '&&', '+'):
        pairs = [(e[1], e[2], e[3]), (e[1], e[3], e[2])]
    elif k == 'cond':
        pairs = [('?:', e[2], e[3]), ('?:', e[3], e[2]), ('?:test', e[2], e[1]), ('?:test', e[3], e[1])]
    elif k == 'arr' and len(e[1]) == 2:
        pairs = [('[,]', e[1][0], e[1][1]), ('[,]', e[1][1], e[1][0])]
    for op, a, b in pairs:
        if hostile_expr(a) and not hostile_expr(b):
            key = ('top: ' if top else '') + op + ' ' + partner_kind(b)
            acc[key] = acc.get(key, 0) + 1
    for x in e[1:]:
        if isinstance(x, tuple):
            partner_pairs(x, acc, False)
        elif isinstance(x, list):
            for y in x:
                partner_pairs(y, acc, False)


def sub_exprs(e):
    if isinstance(e, tuple):
        yield e
        for x in e[1:]:
            if isinstance(x, tuple):
                for y in sub_exprs(x):
                    yield y
            elif isinstance(x, list):
                for z in x:
                    for y in sub_exprs(z):
                        yield y


def printed_exprs(nodes):
    """the expressions an escaped construct prints or hands on: escaped code, mixin arguments and attributes"""
    for n in walk(nodes):
        if n[0] == 'code' and n[2]:
            for st in n[1]:
                if st[0] == 'expr':
                    yield st[1]
                elif st[0] == 'vars':
                    for d in st[1]:
                        if d[2] is not None:
                            yield d[2]
        elif n[0] == 'call':
            for a in n[2]:
                yield a
            for a in n[3]:
                yield a[1]
        elif n[0] == 'trycode':
            for st in n[1] + n[3]:
                if st[0] == 'expr':
                    yield st[1]


LITERAL_PARTNERS = ('number', 'boolean', 'null', 'fraction', 'comparison', 'negation', 'arithmetic')


def tpl_safe(e):
    if isinstance(e, tuple):
        if e == ('str', b""):
            return ('str', b"q")
        if e and e[0] == 'obj':
            return ('arr', [])
        return tuple(tpl_safe(x) for x in e)
    if isinstance(e, list):
        return [tpl_safe(x) for x in e]
    return e


class Gen:
    """streams B and C: node lists over a scope (the hostile-carrying expressions visible at this point)"""

    def __init__(self, prop, rng, caught, style=None):
        self.p, self.rng, self.caught, self.n, self.style = prop, rng, caught, 0, style
        self.defs = []          # mixin definitions made so far: (name, params)

    def fresh(self, prefix):
        self.n += 1
        return prefix + str(self.n).encode()

    def carrier(self, bases, depth):
        if self.style == 'partners':
            depth = max(depth, 1)
        return self.p.carrier(self.style, self.rng, depth, bases)

    def esc_code(self, bases):
        r = self.rng
        return ('code', [('expr', self.carrier(bases, r.choice([0, 0, 1, 1, 2])))], True, r.random() < 0.7)

    def raw_code(self):
        """code that sets compile-time state and prints harmless things only: unescaped, unbuffered, multi-statement"""
        r = self.rng
        k = r.random()
        if k < 0.3:
            return ('code', [('expr', ('id', r.choice([b"s", b"w"])))], False, r.random() < 0.7)
        if k < 0.42:
            return ('code', [('expr', ('bin', '+', ('id', b"w"), r.choice([('id', b"s"), ('str', b"</i>")])))], False, True)
        if k < 0.52:
            return ('code', [('expr', ('str', r.choice([b"<i>", b"lit", b"a&b"])))], False, True)
        if k < 0.72:
            return ('code', [('vars', [('var', self.fresh(b"n"), r.choice([('num', 1), ('str', b"v"), ('id', b"s")]))])], False, False)
        if k < 0.86:
            a, b = self.fresh(b"n"), self.fresh(b"n")
            return ('code', [('vars', [('var', a, ('num', 1))]), ('vars', [('var', b, ('id', b"s"))])] +
                    ([('expr', ('id', b))] if r.random() < 0.5 else []), False, False)
        x = self.fresh(b"n")
        return ('code', [('vars', [('var', x, ('num', 2))]), ('expr', ('assign', ('id', x), ('bin', '+', ('id', x), ('num', 1)))),
                         ('expr', ('id', x))], False, r.random() < 0.5)

    def declared(self, bases):
        """a variable declared from data, printed later: `- var hx = e` + `= hx`, or both in one escaped code node"""
        r = self.rng
        x = self.fresh(b"hx")
        e = self.carrier(bases, r.choice([0, 0, 1]))
        if r.random() < 0.5:
            return [('code', [('vars', [('var', x, e)])], False, False), ('code', [('expr', ('id', x))], True, True)]
        extra = [('expr', ('bin', '+', ('str', b"+"), ('id', x)))] if r.random() < 0.4 else []
        return [('code', [('vars', [('var', x, e)]), ('expr', ('id', x))] + extra, True, r.random() < 0.5)]

    def trycode(self, bases):
        r = self.rng
        ev = self.fresh(b"he")
        body = []
        if not self.caught or r.random() < 0.5:
            body.append(('expr', self.carrier(bases, r.choice([0, 1]))))
        if self.caught:
            body.append(('expr', ('call', ('dot', ('id', b"JSON"), b"parse"), [('id', b"hj")])))
        catch = [('expr', r.choice([('id', ev), ('bin', '+', ('str', b"E:"), ('id', ev))]))]
        return ('trycode', body, ev, catch, True, r.random() < 0.5)

    def each(self, bases, depth, mix):
        r = self.rng
        k = r.random()
        v = self.fresh(b"hv")
        if k < 0.45:
            key = self.fresh(b"hk")
            inner = [('id', key), ('id', key), ('id', v)]
            obj = ('id', b"hm")
        elif k < 0.6:
            key = self.fresh(b"hi") if r.random() < 0.5 else None
            inner, obj = [('id', v)], ('id', b"ha")
        elif k < 0.75:
            key, inner, obj = None, [('dot', ('id', v), b"k")], ('id', b"hl")
        elif k < 0.87:
            key = self.fresh(b"hk")
            inner, obj = [('id', v)], r.choice([('id', b"ho"), ('dot', ('id', b"hn"), b"a")])
        else:
            key, inner, obj = None, [('id', v)], ('dot', ('id', b"hn"), b"l")
        body = self.nodes(inner + ([r.choice(bases)] if r.random() < 0.3 else []), depth - 1, mix)
        if not any(n[0] == 'code' and n[2] for n in body):
            body.append(('code', [('expr', r.choice(inner))], True, True))
        return ('each', v, key, obj, body)

    def mixin(self, depth, mix):
        """a definition (appended to self.defs) whose body prints its parameters, `attributes` members and the block"""
        r = self.rng
        name = self.fresh(b"mx")
        params = [self.fresh(b"hp") for _ in range(r.choice([0, 1, 1, 2]))]
        inner = [('id', p) for p in params] + [('dot', ('id', b"attributes"), r.choice([b"t", b"cls"]))] * r.choice([1, 2])
        body = self.nodes(inner, min(depth, 1), mix)
        body.append(('code', [('expr', r.choice(inner))], True, True))
        if r.random() < 0.6:
            body.insert(r.randrange(len(body) + 1), ('mixinblock',))
        if r.random() < 0.35:
            body.append(self.raw_code())            # the definition ends in state-setting code
        self.defs.append((name, params))
        return ('mixin', name, params, body)

    def call(self, bases, depth, mix):
        r = self.rng
        name, params = r.choice(self.defs)
        lit = lambda: ('str', r.choice([b"x", b"lit", b"a b"]))
        args = [self.carrier(bases, r.choice([0, 0, 1])) if r.random() < 0.75 else lit() for _ in params]
        attrs = []
        for a in r.sample([b"t", b"cls"], r.choice([0, 1, 1, 2])):
            attrs.append((a, self.carrier(bases, r.choice([0, 0, 1])) if r.random() < 0.8 else lit(), True))
        blk = self.nodes(bases, depth - 1, mix) if depth > 0 and r.random() < 0.6 else []
        return ('call', name, args, attrs, blk)

    def nodes(self, bases, depth, mix):
        r = self.rng
        out = []
        for _ in range(r.choice([1, 2, 2, 3])):
            k = r.random()
            if depth <= 0:
                k = k * mix['flat']
            if k < mix['esc']:
                out.append(self.esc_code(bases))
            elif k < mix['raw']:
                out.append(self.raw_code())
            elif k < mix['decl']:
                out.extend(self.declared(bases))
            elif k < mix['text']:
                out.append(('text', r.choice([b"t", b"a b", b"x:", b"<i>", b"&"])))
            elif k < mix['try']:
                out.append(self.trycode(bases))
            elif k < mix['tag']:
                out.append(('tag', r.choice(tgen.TAGS), r.random() < 0.5, [], [], self.nodes(bases, depth - 1, mix)))
            elif k < mix['itag']:
                out.append(('itag', ('id', b"tg"), r.random() < 0.5, self.nodes(bases, depth - 1, mix)))
            elif k < mix['cond']:
                c = r.choice([('id', b"p"), ('bool', True), ('un', '!', ('id', b"p"))])
                alt = ('block', self.nodes(bases, depth - 1, mix)) if r.random() < 0.5 else None
                out.append(('cond', c, self.nodes(bases, depth - 1, mix), alt))
            elif k < mix['each']:
                out.append(self.each(bases, depth, mix))
            elif self.defs:
                out.append(self.call(bases, depth, mix))
            else:
                out.append(self.esc_code(bases))
        return out


#        cumulative shares of the node kinds; 'flat' scales the draw at depth 0 so that only leaf kinds are chosen
MIX_B = {'esc': 0.30, 'raw': 0.33, 'decl': 0.41, 'text': 0.47, 'try': 0.48, 'tag': 0.59, 'itag': 0.61, 'cond': 0.68, 'each': 0.88,
         'flat': 0.48}
MIX_C = {'esc': 0.28, 'raw': 0.48, 'decl': 0.54, 'text': 0.58, 'try': 0.59, 'tag': 0.69, 'itag': 0.85, 'cond': 0.91, 'each': 0.95,
         'flat': 0.59}


class C04(CoreProp):
    id = "C04"
    judge_module = "Run.Judge_C04"
    prop_module = "Props.C04"
    prop_file = "Props/C04.v"
    coq_targets = ["Props/C04.vo", "Run/Judge_C04.vo", "Props/Tables.vo"]
    sizes = {"quick": 700, "thorough": 14000}
    design_ref = "DESIGN.md section 6/C04"
    keep_datas = True
    rule = ("ONE template rendered twice by the real engine (fresh engine each): with a hostile string h (all five special "
            "characters, template delimiters, back-ticks, multi-byte) at every h-named data position — h, ho.k, ha[0], hn.a.b, "
            "hn.l[0], hl[0].k and as the KEY of the map hm — and with a fresh harmless marker m at the same positions (as the key "
            "too); oracle on Go's own outputs: out_h = replace_all m (escape h) out_m. Four streams. A (27%) carriers: tags, text, "
            "if, each around escaped code (`= e`, `#{e}`) whose expression is a string-transparent shape (variable, member, index, "
            "concatenation, conditional, logical default / guard, slice(0) / join results, template literal, array literal, nested), "
            "30% with the same expression text unescaped in a never-taken branch. B (27%) routes: `each v, k in hm` printing the KEY "
            "variable (`= k`, carriers around k) and the value, loops with index over arrays, over arrays of maps, over maps and "
            "nested members, variables declared from data (`- var hx = e` then `= hx`; `var hx = e; hx` in one escaped node), mixins "
            "whose bodies print their parameters, members of `attributes` and the block, called with carrier arguments, attributes "
            "and blocks, try/catch code printing a member in the try part. C (23%) compile-time state: the same escaped code "
            "inside / after unescaped code (`!= s`), unbuffered declarations, multi-statement code, mixin definitions ending in "
            "unescaped code, and interpolated tags `#{tg}` (16% of C's node draws; nested, around and between code nodes). "
            "D (23%) partners — the compiler decides per expression SHAPE whether the escaper is appended, so the carrier meets "
            "every operator and every literal kind as its partner: `c || P`, `P || c`, `P && c`, `c && P`, `c + P`, `P + c`, "
            "`P ? c : P`, `[c, P]` where c carries the hostile string and the partner P is harmless: a number, fraction, boolean, "
            "null, string, array or object literal, harmless data of every kind (n integer, z = 0, e = '', nl = null, p boolean, "
            "s string), a comparison (< > <= >= == === != !== of data and literals, joined by || / &&), arithmetic (+ - * %), a "
            "negation, a logical or conditional expression of such; the carrier as its own test (`c ? c : P`, `c != null && c`, "
            "`c == nl ? P : c`, `!c || c`, `!!c && c`); a partner as call argument (`c.slice(z || 0)`, `c.slice(0 && P)`); each of "
            "these again under `+ P`, `P ? _ : 's'`, `[_]`, `|| P`, `&& P` (30%), as printed expression of `= e` and `#{e}`, "
            "in tags / if / each (half of D: stream A's node generator) and as argument / attribute of mixin calls, around loop "
            "keys and values, declared variables (other half: stream B's). Which operand is printed is decided by the data; the "
            "oracle is the same substitution identity. Streams A-C draw 22% of their carrier levels from the same menu; evidence "
            "counter distribution.operator_x_partner_pairs lists operator x partner kind ('top:' = the printed expression itself). "
            "8% of B and C cases are CAUGHT-route cases: h is one of < > & \" , m is one byte, and a try/catch code node prints the "
            "text of the exception JSON.parse throws on the data `1`+h. Templates with an interpolated tag or try/catch (no "
            "constructor in the pug model) are OPAQUE: raw AST JSON to the engine, stand-ins to the judge's domain test, verdict by "
            "the oracle alone (unmodelled when it holds). A generated case outside dom04 is an alarm of its own. "
            "non-trivial = h contains a special character and the template is more than one bare-variable code node")
    trusted = [
        "M = Pug/Compile.v (renderExpression wrap/rawmode arms, rawmode threaded through the node list), Tmpl/Runtime.v, Tmpl/Exec.v: "
        "hand-written model, compared with the engine on both renders of every non-opaque case",
        "the oracle needs no model: it relates two outputs of the implementation by replace_all/escape evaluated inside Coq",
        "interpolated tags and try/catch code have no constructor in Pug/Ast.v / Js/Ast.v: such templates reach the engine as raw AST "
        "JSON (gen/c04.py pj) and the judge as stand-ins for the domain test only (Run/Judge_C04.v shape04 with k_opaque); no model "
        "prediction is compared there",
        "the pug front end is not available offline: ASTs are generated (mustEscape / buffer / isInline flags set by the generator; "
        "try/catch code is sent with mustEscape = true)",
        "caught route: encoding/json's syntax error `invalid character 'c' after top-level value` quotes the bytes < > & \" verbatim",
        "which shapes are string-transparent is the judge's executable predicate transp (Run/Judge_C04.v), part of dom04 and so "
        "checked on every case: harmless expressions (no h-name, any operator); + || && ?: ! over transparent operands; == / != "
        "with null; members, literal indices, template / array literals, slice(<denotes 0>) and join(<literal>). It relies on two "
        "facts about the engine that no theorem states: the truth value of a non-empty string does not depend on its content, and "
        "`number + string` reads the string with strconv.ParseFloat (0 for a non-numeral)",
    ]
    assumptions = [
        "the hostile string and the marker are non-empty and have no white space at their edges (template literals trim theirs)",
        "the hostile string and the marker each hold a byte that occurs in no Go numeral (dom04 not_numeral): `7 + h` prints the "
        "same number in both renders; the data names z and nl are bound to 0 and null (dom04 z_zero, nl_nil)",
        "the marker is special-free, does not occur in the emitted template text nor in the harmless data",
        "naming rule of the domain (checked by dom04 on every case): only h-named top-level data, loop variables, mixin parameters, "
        "declared variables and `attributes` carry the hostile string; unescaped / unbuffered code prints expressions without such "
        "names only; all other data is equal in both renders",
        "map keys: other keys of the map hm are chosen so that h and m take the same place in the engine's sorted iteration order",
        "the tag name of an interpolated tag is harmless data (equal in both renders)",
    ]
    not_yet_proved = [
        "the PARTNER class is proved for the compiler model only: C04_value_escaped / C04_operator_escaped (Proofs/C04ShapeProofs.v) "
        "say that every value expression — every binary operator with any operands, number / boolean / null literals and "
        "comparisons included — is lowered to one action ending in the escaper; that the real renderExpression does the same for "
        "each operator x partner kind is checked per case (streams A-D), not proved",
        "C04_marker beyond the proved fragment. PROVED as theorems for all programs, data and bytes of h (Props/C04.v "
        "C04_tfree_eval_independent, C04_fragment_marker_spec, C04_fragment_marker, C04_fragment_marker_subst_spec, "
        "C04_fragment_marker_subst, C04_marker_subst_segments; Proofs/C04MarkerProofs.v): on the control fragment of Pug/Lower.v "
        "(text, attribute-less tags, escaped buffered code, var / assignment / ++, if / else, while) over the scalar expression "
        "fragment goodS and top-level scalar data, where the hostile names T (any set of data variables, and the variables "
        "declared or assigned from them) occur only in transparent positions (safe_list T: no test mentions T; a T-variable is "
        "printed by `= e` and stored into T-variables only, e built from T-variables, T-free expressions, `+`, and `c ? a : b` "
        "with a T-free test), the rendering of S and, through C02_program_scalar, of the executor model M is ONE h-independent "
        "list of segments with escape h in the holes, and equals replace_all m (escape h) (rendering with m) for a special-free "
        "marker whose first byte does not occur in the rendering with the empty string (that m merely does not occur in the "
        "literal chunks is refuted: marker_overlap_refuted). The M statements carry C02_program_scalar's `or OFuel` disjunct (no "
        "fuel-sufficiency theorem for exec_fuel) and hold when S raises no listed-deviation flag (number + string). STILL checked on "
        "the implementation's outputs by the oracle only: the other transparent contexts (member / index access, || and && "
        "defaults — which are NOT transparent for the empty string —, slice / join results, template literals, array literals), "
        "`#{}` interpolation, each (values and KEYS), mixin parameters / attributes / blocks, tag attributes, nested (non-scalar) "
        "data; the tie between Pug/Lower.v lower_nodes and compile + parse_program (judged per case); the threading of the "
        "compiler's raw-mode flag through node lists (code nodes, mixin definitions, interpolated tags) and the boxing of every "
        "value that reaches the escaper (map keys, caught exceptions)",
        "no theorem mentions interpolated tags or try/catch: the pug / JS model has no constructor for them (opaque cases)",
    ]

    # ---------------------------------------------------------------- expressions
    def plain(self, rng, depth=1):
        """a PARTNER: a harmless expression (no h-name) of any literal kind, over any operator and the harmless data
        n (an integer), z (0), e (""), nl (null), p (a boolean), s (a string)"""
        k = rng.random()
        if depth <= 0 or k < 0.5:
            return rng.choice(PLAIN_LEAVES)
        sub = lambda: self.plain(rng, depth - 1)
        num = lambda: rng.choice([('id', b"n"), ('id', b"n"), ('id', b"z"), ('num', rng.choice([0, 1, 2, 5]))])
        if k < 0.72:
            op = rng.choice(['<', '>', '<=', '>=', '==', '===', '!=', '!=='])
            if rng.random() < 0.25:
                return ('bin', op, ('id', b"s"), ('str', rng.choice([b"ok", b"s1", b"zz"])))
            c = ('bin', op, num(), ('num', rng.choice([0, 1, 3, 4, 5])))
            if rng.random() < 0.2:
                c = ('bin', rng.choice(['||', '&&']), c, ('bin', rng.choice(['<', '>']), ('id', b"n"), ('num', rng.choice([0, 4]))))
            return c
        if k < 0.82:
            return ('bin', rng.choice(['+', '-', '*', '%']), num(), ('num', rng.choice([1, 2, 3])))
        if k < 0.9:
            return ('un', '!', rng.choice([('id', b"p"), ('id', b"n"), ('id', b"e"), ('id', b"s"), sub()]))
        if k < 0.97:
            return ('bin', rng.choice(['||', '&&']), sub(), sub())
        return ('cond', ('id', b"p"), sub(), sub())

    def partnered(self, rng, sub, depth):
        """the hostile-carrying expression `sub()` next to a partner, under an operator that yields one of its operands
        (|| && ?:), their concatenation (+), or a collection of them"""
        P = lambda: self.plain(rng, rng.choice([0, 0, 1, 1, 2]))

        def Pn():
            # the literal `null` as an operand of + or as a test is compiled to nothing (the action then fails alike in
            # both renders, or the template does not load): mostly the data null instead
            e = P()
            return ('id', b"nl") if e == ('null',) and rng.random() < 0.8 else e
        nul = lambda: ('null',) if rng.random() < 0.15 else ('id', b"nl")
        k = rng.random()
        if k < 0.2:
            return ('bin', '||', sub(), P())
        if k < 0.3:
            return ('bin', '||', P(), sub())
        if k < 0.48:
            return ('bin', '&&', P(), sub())
        if k < 0.56:
            return ('bin', '&&', sub(), P())
        if k < 0.63:
            return ('bin', '+', sub(), Pn())
        if k < 0.7:
            return ('bin', '+', Pn(), sub())
        if k < 0.78:
            return ('cond', Pn(), sub(), P()) if rng.random() < 0.5 else ('cond', Pn(), P(), sub())
        if k < 0.84:
            # the carrier is its own test: `x ? x : 0`, `x != null && x`, `x == null ? 0 : x`, `!x || x`, `!!x && x`
            x = sub()
            form = rng.choice(['self', 'nn', 'eqn', 'not', 'notnot'])
            if form == 'self':
                return ('cond', x, x, P())
            if form == 'nn':
                c = ('bin', rng.choice(['!=', '!==']), x, nul())
                return ('bin', '&&', c if rng.random() < 0.7 else (c[0], c[1], c[3], c[2]), x)
            if form == 'eqn':
                return ('cond', ('bin', rng.choice(['==', '===']), x, nul()), P(), x)
            if form == 'not':
                return ('bin', '||', ('un', '!', x), x)
            return ('bin', '&&', ('un', '!', ('un', '!', x)), x)
        if k < 0.92:
            items = [sub(), P()]
            rng.shuffle(items)
            return ('arr', items)
        # a partner as a call argument: slice from a position that denotes 0
        zero = rng.choice([('id', b"z"), ('bin', '||', ('id', b"z"), ('num', 0)), ('bin', '&&', ('num', 0), P()),
                           ('bin', '||', ('num', 0), ('id', b"z"))])
        return ('call', ('dot', rng.choice(G_BASES[:3]), b"slice"), [zero])

    def carrier(self, g, rng, depth, bases=None):
        """a transparent expression carrying one of the hostile positions; g == 'partners': stream D, where the top of
        the expression is a partnered form (other streams: 22% at every level)"""
        return no_leading_obj(self._carrier(g, rng, depth, bases))

    def _carrier(self, g, rng, depth, bases=None):
        bases = bases or G_BASES
        base = rng.choice(bases)
        if depth <= 0:
            return base
        k = rng.random()
        sub = lambda: self._carrier(None if g == 'partners' and rng.random() < 0.5 else g, rng, depth - 1, bases)
        lit = lambda: ('str', rng.choice([b"x", b"-", b" ", b"pre:", b"a b", b"", b"."]) or b"q")
        if g == 'partners' or k < 0.22:
            e = self.partnered(rng, sub, depth)
            if g == 'partners' and rng.random() < 0.3:
                # ... under a further operator: (x || 0) + 1, p ? (x || 0) : 'none', [n > 0 && x]
                w = rng.random()
                P = self.plain(rng, rng.choice([0, 1]))
                if P == ('null',):
                    P = ('id', b"nl")
                e = (('bin', '+', e, P) if w < 0.3 else ('bin', '+', P, e) if w < 0.5 else
                     ('cond', self.plain(rng, 1) if w < 0.66 else ('id', b"nl"), e, lit()) if w < 0.7 else ('arr', [e]) if w < 0.85 else
                     ('bin', rng.choice(['||', '&&']), e, P))
            return e
        k = (k - 0.22) / 0.78
        if k < 0.18:
            return ('bin', '+', lit(), sub())
        if k < 0.32:
            return ('bin', '+', sub(), rng.choice([lit(), sub(), ('num', 7)]))
        if k < 0.44:
            c = rng.choice([('id', b"p"), ('bool', True), ('bool', False), ('un', '!', ('id', b"p"))])
            return ('cond', c, sub(), lit()) if rng.random() < 0.5 else ('cond', c, lit(), sub())
        if k < 0.52:
            return ('bin', '||', sub(), lit())
        if k < 0.58:
            return ('bin', '&&', rng.choice(bases), sub())
        if k < 0.68:
            # (inside `${}`: no empty string literal — the engine's clean-up of `""` in the interpolated text deletes it —
            # and no object literal — its `}` ends the interpolation)
            return ('tpl', [rng.choice([b"", b"a", b"t "]), tpl_safe(sub()), rng.choice([b"", b"z", b" u"])])
        if k < 0.76:
            return ('arr', [sub()] + ([lit()] if rng.random() < 0.4 else []))
        if k < 0.84:
            # not on a loop's key variable: that one is a native Go string without methods
            recv = [b for b in bases if not (b[0] == 'id' and b[1].startswith(b"hk"))] or G_BASES
            return ('call', ('dot', rng.choice(recv), b"slice"), [('num', 0)])
        if k < 0.9:
            return ('call', ('dot', ('id', b"ha"), b"join"), [('str', rng.choice([b",", b"", b"-"]))])
        return base

    # ---------------------------------------------------------------- stream A
    def nodes(self, g, rng, depth):
        out = []
        for _ in range(rng.choice([1, 1, 2, 3])):
            k = rng.random()
            if k < 0.45 or depth <= 0:
                d = rng.choice([0, 1, 1, 2, 3])
                out.append(('code', [('expr', self.carrier(g, rng, max(d, 1) if g == 'partners' else d))], True, rng.random() < 0.7))
            elif k < 0.6:
                out.append(('text', rng.choice([b"t", b"a b", b"x:", b"<i>", b"&"])))
            elif k < 0.78:
                out.append(('tag', rng.choice(tgen.TAGS), rng.random() < 0.5, [], [], self.nodes(g, rng, depth - 1)))
            elif k < 0.9:
                c = rng.choice([('id', b"p"), ('bool', True), ('un', '!', ('id', b"p"))])
                alt = ('block', self.nodes(g, rng, depth - 1)) if rng.random() < 0.5 else None
                out.append(('cond', c, self.nodes(g, rng, depth - 1), alt))
            else:
                out.append(('each', b"h", None, ('id', b"ha"), self.nodes(g, rng, depth - 1)))
        return out

    def gen_carriers(self, rng, g=None):
        nodes = self.nodes(g, rng, rng.choice([0, 1, 2, 3]))
        if rng.random() < 0.3:
            # the SAME expression text also occurs unescaped (`!= e`) in a branch that is never taken, before or
            # after the escaped use: how one code node is compiled must not depend on another one with equal text
            codes = [n for n in nodes if n[0] == 'code']
            if codes:
                twin = ('cond', ('id', b"never"), [('code', codes[0][1], False, codes[0][3])], None)
                nodes.insert(0 if rng.random() < 0.7 else len(nodes), twin)
        return nodes

    # ---------------------------------------------------------------- streams B and C
    def gen_routes(self, rng, caught, mix, style=None):
        g = Gen(self, rng, caught, style)
        bases = G_BASES + G_DEEP
        depth = rng.choice([1, 2, 2, 3])
        defs = []
        if rng.random() < (0.45 if mix is MIX_B else 0.35):
            for _ in range(rng.choice([1, 1, 2])):
                defs.append(g.mixin(depth, mix))
        nodes = g.nodes(bases, depth, mix)
        if g.defs:
            for _ in range(rng.choice([1, 1, 2])):
                call = g.call(bases, depth, mix)
                pos = rng.randrange(len(nodes) + 1)
                if rng.random() < 0.3:
                    call = ('tag', rng.choice(tgen.TAGS), False, [], [], [call])
                nodes.insert(pos, call)
        nodes = defs + nodes
        if mix is MIX_B and not any(n[0] == 'each' for n in walk(nodes)):
            nodes.append(g.each(bases, 1, mix))
        if mix is MIX_C:
            # the file ends in escaped code: whatever state the constructs before it left behind
            nodes.append(g.esc_code(bases))
        if caught and not any(n[0] == 'trycode' for n in walk(nodes)):
            nodes.insert(rng.randrange(len(nodes) + 1), g.trycode(bases))
        return nodes

    def generate(self, rng, n, tier):
        cases = []
        for i in range(n):
            s = rng.random()
            caught = 0.27 <= s < 0.77 and rng.random() < 0.08
            h = rng.choice(H_CAUGHT) if caught else hostile(rng)
            if not h.strip() or h != h.strip():
                h = b"<" + h.strip() + b">"
            m = MARK1 if caught else MARK
            if s < 0.27:
                nodes = self.gen_carriers(rng)
            elif s < 0.77:
                nodes = self.gen_routes(rng, caught, MIX_B if s < 0.54 else MIX_C)
            elif s < 0.89:
                nodes = self.gen_carriers(rng, 'partners')
            else:
                nodes = self.gen_routes(rng, False, MIX_B, 'partners')
            other = rng.choice([b"x", b"ok", b"<keep>"])
            pflag = rng.random() < 0.5
            more = rng.random() < 0.3
            hm_same = rng.random() < 0.4              # the value under the hostile key is hostile too
            extra = rng.sample([b"!a", b"!b", b"~z", b"k2"], rng.choice([0, 0, 1, 2]))
            # the other keys of hm must leave h and m at the same place of the sorted key order
            extra = [e for e in extra if (e < h) == (e < m) and e != h]
            safe = rng.choice([b"s1", b"ok", b"<u>", b"a&b"])
            tg = rng.choice(ITAG_NAMES)
            nval = rng.choice([0, 1, 3, 4, 5, 12, -2])

            def data(v):
                hm = {v: v if hm_same else other}
                for e in extra:
                    hm[e] = other
                return {b"h": v, b"ho": {b"k": v, b"z": other}, b"ha": [v] + ([other] if more else []), b"hm": hm,
                        b"hn": {b"a": {b"b": v}, b"l": [v]}, b"hl": [{b"k": v}] + ([{b"k": other}] if more else []),
                        b"hj": b"1" + v, b"p": pflag, b"never": False, b"s": safe, b"w": b"<i>", b"tg": tg,
                        b"n": nval, b"z": 0, b"e": b"", b"nl": None}
            stream = "A" if s < 0.27 else "B" if s < 0.54 else "C" if s < 0.77 else "D"
            cases.append({"nodes": ser(nodes), "datas": [ser(data(h)), ser(data(m))], "h": h.hex(), "m": m.hex(), "stream": stream})
        return cases

    # ---------------------------------------------------------------- harness / judge formats
    def harness_case(self, case):
        nodes, datas = de(case["nodes"]), [de(d) for d in case["datas"]]
        return {"files": {hx("t"): hx(file_text(nodes))}, "render": hx("t"), "datas": [tmpl.data_go(d) for d in datas],
                "debug": False}

    def emit(self, case, obs):
        nodes, datas = de(case["nodes"]), [de(d) for d in case["datas"]]
        base = (b"{| c_nodes := " + cq_list([pc(n) for n in nodes])
                + b"; c_datas := " + cq_list([tmpl.data_coq(d) for d in datas])
                + b"; c_funcs := " + cq_list([cq_bytes(f) for f in FUNCS])
                + b"; c_prod := " + obsm_coq(obs["prod"], len(datas)) + b"; c_debug := None |}")
        return (b"{| k_case := " + base + b"; k_h := " + cq_bytes(bytes.fromhex(case["h"])) + b"; k_m := "
                + cq_bytes(bytes.fromhex(case["m"])) + b"; k_opaque := " + cq_bool(is_opaque(nodes)) + b" |}")

    def model_expr(self):
        return ("(dom04 c, oracle04 c, k_opaque c, if k_opaque c then 3 else agree04 c, "
                "if k_opaque c then None else match model_toks false (k_case c) with Some ts => Some (string_of_list_ascii (show_toks ts)) | None => None end, "
                "if k_opaque c then [] else "
                "map (fun d => match model_out false (k_case c) d with OOk o => (0, string_of_list_ascii o) | OPanic => (1, EmptyString) "
                "| OUnmod => (3, EmptyString) | OFuel => (4, EmptyString) end) (c_datas (k_case c)))")

    def shrink(self, case):
        nodes = de(case["nodes"])
        out = [dict(case, nodes=ser(c)) for c in shrink_nodes(nodes)]

        def inside(ns):
            """shrink inside the kinds core.shrink_nodes does not descend into"""
            for i, n in enumerate(ns):
                if n[0] == 'itag':
                    yield ns[:i] + n[3] + ns[i + 1:]
                    for b in shrink_nodes(n[3]):
                        yield ns[:i] + [n[:3] + (b,)] + ns[i + 1:]
                    for b in inside(n[3]):
                        yield ns[:i] + [n[:3] + (b,)] + ns[i + 1:]
                elif n[0] == 'tag':
                    for b in inside(n[5]):
                        yield ns[:i] + [n[:5] + (b,)] + ns[i + 1:]
                elif n[0] in ('each', 'call'):
                    for b in inside(n[4]):
                        yield ns[:i] + [n[:4] + (b,)] + ns[i + 1:]
                elif n[0] == 'trycode' and len(n[1]) > 1:
                    for j in range(len(n[1])):
                        yield ns[:i] + [(n[0], n[1][:j] + n[1][j + 1:]) + n[2:]] + ns[i + 1:]
        out += [dict(case, nodes=ser(c)) for c in inside(nodes)]
        return out

    # ---------------------------------------------------------------- evidence
    def nontrivial(self, case, obs):
        h = bytes.fromhex(case["h"])
        nodes = de(case["nodes"])
        bare = all(n[0] != 'code' or n[1][0][1][0] == 'id' for n in nodes) and len(nodes) == 1
        return any(c in h for c in b"<>\"'&") and not bare

    def sample(self, case, obs):
        nodes = de(case["nodes"])
        return {"pug_ast": json.loads(file_text(nodes).decode("utf-8", "replace")),
                "data": [tmpl.data_plain(de(d)) for d in case["datas"]][:2],
                "emitted_template": unhx(obs["prod"].get("code", "")).decode("utf-8", "replace")[:600],
                "go_output": [unhx(r.get("out", "")).decode("utf-8", "replace")[:300] if r.get("class") == "ok" else r.get("class")
                              for r in (obs["prod"].get("res") or [])][:2],
                "hostile": bytes.fromhex(case["h"]).decode("utf-8", "replace"),
                "opaque": is_opaque(nodes)}

    def distribution(self, cases, obss):
        kinds, classes = {}, {}
        feat = {"opaque_cases": 0, "with_interpolated_tag": 0, "escaped_code_inside_interpolated_tag": 0, "with_try_catch": 0,
                "caught_route_cases": 0, "prints_map_key_variable": 0, "each_with_key": 0, "with_mixin_call": 0,
                "mixin_call_with_attributes": 0, "prints_attributes_member": 0, "with_unescaped_or_unbuffered_code": 0,
                "with_multi_statement_code": 0, "escaped_code_after_state_setting_code": 0, "never_taken_twin": 0,
                "both_renders_ok": 0, "hostile_string_reaches_output": 0,
                "partner_stream_cases": 0, "logical_default_or_guard_with_non_string_partner": 0,
                "the_same_as_printed_expression": 0, "the_same_under_plus_conditional_array_or_call": 0,
                "carrier_is_its_own_test": 0, "slice_from_computed_zero": 0}
        pairs = {}
        for c, o in zip(cases, obss):
            nodes = de(c["nodes"])
            h = bytes.fromhex(c["h"])
            alln = list(walk(nodes))
            for n in alln:
                kinds[n[0]] = kinds.get(n[0], 0) + 1
            res = o["prod"].get("res") or [{"class": "load:" + o["prod"].get("load", "?")}]
            for r in res:
                classes[r.get("class")] = classes.get(r.get("class"), 0) + 1
            if len(res) == 2 and all(r.get("class") == "ok" for r in res):
                feat["both_renders_ok"] += 1
                esc = h.replace(b"&", b"&amp;").replace(b"<", b"&lt;").replace(b">", b"&gt;").replace(b'"', b"&#34;").replace(b"'", b"&#39;")
                feat["hostile_string_reaches_output"] += esc in unhx(res[0].get("out", ""))
            feat["opaque_cases"] += is_opaque(nodes)
            itags = [n for n in alln if n[0] == 'itag']
            feat["with_interpolated_tag"] += bool(itags)
            feat["escaped_code_inside_interpolated_tag"] += any(x[0] == 'code' and x[2] for t in itags for x in walk(t[3]))
            feat["with_try_catch"] += any(n[0] == 'trycode' for n in alln)
            feat["caught_route_cases"] += c["m"] == MARK1.hex()
            keyed = [n for n in alln if n[0] == 'each' and n[2] is not None]
            feat["each_with_key"] += bool(keyed)
            feat["prints_map_key_variable"] += any(n[3] == ('id', b"hm") and any(
                x[0] == 'code' and x[2] and n[2] in tgen.expr_vars(x[1][-1][1]) for x in walk(n[4])) for n in keyed)
            calls = [n for n in alln if n[0] == 'call']
            feat["with_mixin_call"] += bool(calls)
            feat["mixin_call_with_attributes"] += any(n[3] for n in calls)
            feat["prints_attributes_member"] += any(n[0] == 'code' and n[2] and n[1][-1][0] == 'expr'
                                                    and b"attributes" in tgen.expr_vars(n[1][-1][1]) for n in alln)
            raw = [i for i, n in enumerate(alln) if n[0] == 'code' and not n[2]]
            feat["with_unescaped_or_unbuffered_code"] += bool(raw)
            feat["with_multi_statement_code"] += any(n[0] == 'code' and len(n[1]) > 1 for n in alln)
            feat["escaped_code_after_state_setting_code"] += bool(raw) and any(n[0] == 'code' and n[2] for n in alln[raw[0]:])
            feat["never_taken_twin"] += any(n[0] == 'cond' and n[1] == ('id', b"never") for n in alln)
            feat["partner_stream_cases"] += c.get("stream") == "D"
            mine = {}
            for e in printed_exprs(nodes):
                partner_pairs(e, mine)
            for k, v in mine.items():
                pairs[k] = pairs.get(k, 0) + v
            logical = [k for k in mine if k.replace('top: ', '').split(' ')[0] in ('||', '&&')
                       and k.split(' ')[-1] in LITERAL_PARTNERS]
            feat["logical_default_or_guard_with_non_string_partner"] += bool(logical)
            feat["the_same_as_printed_expression"] += any(k.startswith('top: ') for k in logical)
            feat["the_same_under_plus_conditional_array_or_call"] += any(not k.startswith('top: ') for k in logical)
            src = b" ".join(tmpl.js_src(e) for e in printed_exprs(nodes))
            feat["carrier_is_its_own_test"] += any(
                x[0] == 'cond' and x[1] == x[2] or x[0] == 'bin' and x[1] in ('&&', '||') and x[2][0] in ('bin', 'un')
                and hostile_expr(x[2]) and x[2][-1] in (('null',), ('id', b"nl"), x[3]) + ((('un', '!', x[3]),) if x[2][0] == 'un' else ())
                for e in printed_exprs(nodes) for x in sub_exprs(e))
            feat["slice_from_computed_zero"] += b".slice(z" in src or b".slice(0 " in src
        return {"node_kinds": kinds, "go_outcome_classes": classes, "features": feat,
                "operator_x_partner_pairs": dict(sorted(pairs.items()))}


PROP = C04()
