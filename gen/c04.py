# C04 — escaped output never lets data-supplied markup through.
import tgen
import tmpl
from core import CoreProp, ser, de, tc_case
from common import cq_bytes

MARK = b"MARKq7Zx"
H_BASE = [b"<b>", b"</div>", b'"', b"'", b"&", b"&amp;", b"<script>alert(1)</script>", b'" onload="x', b"a<b>c&d\"e'f",
          b"{{", b"}}", b"{{.}}", b"{{- x -}}", b"`", b"\\", b"&#34;", b"<!--", b"]]>", b"\xc3\xa9<", b"<<>>",
          b"'><img src=x>", b"{{/* c */}}", b"${x}", b"x<y", b"<a href='j'>", b"&lt;", b"</script>", b"-->", b"<%", b"a b<c d>"]


def hostile(rng):
    k = rng.random()
    if k < 0.6:
        return rng.choice(H_BASE)
    if k < 0.85:
        return rng.choice(H_BASE) + rng.choice([b"x", b"1", b"z9"]) + rng.choice(H_BASE)
    alphabet = b"<>\"'&{}ab1 -/=;#"
    s = bytes(rng.choice(alphabet) for _ in range(rng.choice([1, 2, 3, 5, 8, 13])))
    return b"<" + s.strip() + b">"


class C04(CoreProp):
    id = "C04"
    judge_module = "Run.Judge_C04"
    prop_module = "Props.C04"
    prop_file = "Props/C04.v"
    coq_targets = ["Props/C04.vo", "Run/Judge_C04.vo", "Props/Tables.vo"]
    sizes = {"quick": 500, "thorough": 20000}
    design_ref = "DESIGN.md section 6/C04"
    keep_datas = True
    rule = ("templates made of tags, text, conditionals and loops around escaped buffered code (`= e`, `#{e}`) whose expression "
            "is one of the string-transparent shapes (variable, member, index, concatenation, conditional, logical default, "
            "slice(0)/join results, template literal, array literal, nested), rendered twice by the real engine: with a hostile "
            "string h (all five special characters, template delimiters, back-ticks, multi-byte) at the data positions and with a "
            "fresh harmless marker m there; oracle on Go's own outputs: out_h = replace_all m (escape h) out_m. "
            "non-trivial = h contains a special character and the carrier expression is not a bare variable")
    trusted = [
        "M = Pug/Compile.v (renderExpression wrap/rawmode arms), Tmpl/Runtime.v, Tmpl/Exec.v: hand-written model, compared with the engine on both renders",
        "the oracle needs no model: it relates two outputs of the implementation by replace_all/escape evaluated inside Coq",
    ]
    assumptions = [
        "the hostile string and the marker are non-empty and have no white space at their edges (template literals trim theirs)",
        "the marker is special-free and does not occur in the emitted template text",
    ]
    not_yet_proved = [
        "C04_marker as one theorem over all transparent contexts (render T[ctx] d[x:=h] = subst m (escape h) (render T[ctx] d[x:=m])): "
        "proved are the shape theorem for every expression constructor, the escaper-output theorem, harmlessness, reader round trip and "
        "escape_app; the composition through the executor for every context is checked on the implementation's outputs by the oracle",
    ]

    def carrier(self, g, rng, depth):
        """a transparent expression carrying one of the hostile positions"""
        base = rng.choice([('id', b"h"), ('dot', ('id', b"ho"), b"k"), ('idx', ('id', b"ha"), ('num', 0)), ('id', b"h")])
        if depth <= 0:
            return base
        k = rng.random()
        sub = lambda: self.carrier(g, rng, depth - 1)
        lit = lambda: ('str', rng.choice([b"x", b"-", b" ", b"pre:", b"a b", b"", b"."]) or b"q")
        if k < 0.18:
            return ('bin', '+', lit(), sub())
        if k < 0.32:
            return ('bin', '+', sub(), rng.choice([lit(), sub(), ('num', 7)]))
        if k < 0.44:
            c = rng.choice([('id', b"p"), ('bool', True), ('bool', False), ('un', '!', ('id', b"p"))])
            return ('cond', c, sub(), lit()) if rng.random() < 0.5 else ('cond', c, lit(), sub())
        if k < 0.52:
            return ('bin', '||', sub(), lit())
        if k < 0.58:
            return ('bin', '&&', ('id', b"h"), sub())
        if k < 0.68:
            return ('tpl', [rng.choice([b"", b"a", b"t "]), sub(), rng.choice([b"", b"z", b" u"])])
        if k < 0.76:
            return ('arr', [sub()] + ([lit()] if rng.random() < 0.4 else []))
        if k < 0.84:
            r = rng.choice([('id', b"h"), ('dot', ('id', b"ho"), b"k"), ('idx', ('id', b"ha"), ('num', 0))])
            return ('call', ('dot', r, b"slice"), [('num', 0)])
        if k < 0.9:
            return ('call', ('dot', ('id', b"ha"), b"join"), [('str', rng.choice([b",", b"", b"-"]))])
        return base

    def nodes(self, g, rng, depth):
        out = []
        for _ in range(rng.choice([1, 1, 2, 3])):
            k = rng.random()
            if k < 0.45 or depth <= 0:
                out.append(('code', [('expr', self.carrier(g, rng, rng.choice([0, 1, 1, 2, 3])))], True, rng.random() < 0.7))
            elif k < 0.6:
                out.append(('text', rng.choice([b"t", b"a b", b"x:", b"<i>", b"&"])))
            elif k < 0.78:
                out.append(('tag', rng.choice(tgen.TAGS), rng.random() < 0.5, [], [], self.nodes(g, rng, depth - 1)))
            elif k < 0.9:
                c = rng.choice([('id', b"p"), ('bool', True), ('un', '!', ('id', b"p"))])
                alt = ('block', self.nodes(g, rng, depth - 1)) if rng.random() < 0.5 else None
                out.append(('cond', c, self.nodes(g, rng, depth - 1), alt))
            else:
                out.append(('each', b"h", None, ('id', b"ha"), self.nodes(g, rng, depth - 1)))
        return out

    def generate(self, rng, n, tier):
        cases = []
        for i in range(n):
            g = tgen.TGen(rng)
            h = hostile(rng)
            if not h.strip() or h != h.strip():
                h = b"<" + h.strip() + b">"
            nodes = self.nodes(g, rng, rng.choice([0, 1, 2, 3]))
            if rng.random() < 0.3:
                # the SAME expression text also occurs unescaped (`!= e`) in a branch that is never taken, before or
                # after the escaped use: how one code node is compiled must not depend on another one with equal text
                codes = [n for n in nodes if n[0] == 'code']
                if codes:
                    twin = ('cond', ('id', b"never"), [('code', codes[0][1], False, codes[0][3])], None)
                    nodes.insert(0 if rng.random() < 0.7 else len(nodes), twin)
            other = rng.choice([b"x", b"ok", b"<keep>"])

            def data(v):
                return {b"h": v, b"ho": {b"k": v, b"z": other}, b"ha": [v] + ([other] if rng.random() < 0.3 else []),
                        b"p": pflag, b"never": False}
            pflag = rng.random() < 0.5
            dh = data(h)
            dm = {b"h": MARK, b"ho": {b"k": MARK, b"z": other}, b"ha": [MARK] + dh[b"ha"][1:], b"p": pflag, b"never": False}
            cases.append({"nodes": ser(nodes), "datas": [ser(dh), ser(dm)], "h": h.hex(), "m": MARK.hex()})
        return cases

    def emit(self, case, obs):
        base = CoreProp.emit(self, case, obs)
        return (b"{| k_case := " + base + b"; k_h := " + cq_bytes(bytes.fromhex(case["h"])) + b"; k_m := "
                + cq_bytes(bytes.fromhex(case["m"])) + b" |}")

    def model_expr(self):
        return ("(dom04 c, oracle04 c, agree04 c, "
                "match model_toks false (k_case c) with Some ts => Some (string_of_list_ascii (show_toks ts)) | None => None end, "
                "map (fun d => match model_out false (k_case c) d with OOk o => (0, string_of_list_ascii o) | OPanic => (1, EmptyString) "
                "| OUnmod => (3, EmptyString) | OFuel => (4, EmptyString) end) (c_datas (k_case c)))")

    def nontrivial(self, case, obs):
        h = bytes.fromhex(case["h"])
        nodes = de(case["nodes"])
        bare = all(n[0] != 'code' or n[1][0][1][0] == 'id' for n in nodes) and len(nodes) == 1
        return any(c in h for c in b"<>\"'&") and not bare

    def sample(self, case, obs):
        s = CoreProp.sample(self, case, obs)
        s["hostile"] = bytes.fromhex(case["h"]).decode("utf-8", "replace")
        return s


PROP = C04()
