# C04 — escaped output never lets data-supplied markup through.
#
# Every case is ONE template rendered twice by the real engine: with a hostile string h at the data positions and with a
# harmless marker m at the same positions (when h is a map KEY, the marker is the key there).  Oracle on Go's own two
# outputs: out_h = replace_all m (escape h) out_m.  Three streams:
#   A  carriers  — one expression shape (concatenation, conditional, default, template literal, array, slice/join, nested)
#                  around a hostile position, inside tags / if / each;
#   B  routes    — every way data reaches an escaping construct: map KEYS through the key variable of `each v, k in obj`,
#                  elements by index and by loop (arrays, maps, arrays of maps, nested maps), mixin parameters, the
#                  `attributes` of a mixin call, the block of a mixin call, variables declared from data, the text of a
#                  caught exception (try / catch around JSON.parse of data);
#   C  state     — escaped code inside / after everything that sets compile-time state: unescaped and unbuffered code,
#                  multi-statement code, mixin definitions and call blocks ending in unescaped code, interpolated tags
#                  (`#{tg}` + block, nested, before / after / around code nodes).
# Interpolated tags and try/catch have no constructor in the pug model: such cases are OPAQUE — sent to the engine as raw
# AST JSON, passed to the judge as stand-ins for the domain test, judged by the oracle alone.
import json
import tgen
import tmpl
from core import CoreProp, ser, de, shrink_nodes, FUNCS, obsm_coq
from common import cq_bytes, cq_bool, cq_list, hx, unhx

MARK = b"MARKq7Zx"
MARK1 = b"Q"        # marker of the caught route (one byte of the data reaches the error text)
H_BASE = [b"<b>", b"</div>", b'"', b"'", b"&", b"&amp;", b"<script>alert(1)</script>", b'" onload="x', b"a<b>c&d\"e'f",
          b"{{", b"}}", b"{{.}}", b"{{- x -}}", b"`", b"\\", b"&#34;", b"<!--", b"]]>", b"\xc3\xa9<", b"<<>>",
          b"'><img src=x>", b"{{/* c */}}", b"${x}", b"x<y", b"<a href='j'>", b"&lt;", b"</script>", b"-->", b"<%", b"a b<c d>"]
H_CAUGHT = [b"<", b">", b"&", b'"']     # encoding/json quotes these verbatim in `invalid character 'c' after top-level value`
ITAG_NAMES = [b"div", b"span", b"p", b"section", b"b"]


def hostile(rng):
    k = rng.random()
    if k < 0.6:
        return rng.choice(H_BASE)
    if k < 0.85:
        return rng.choice(H_BASE) + rng.choice([b"x", b"1", b"z9"]) + rng.choice(H_BASE)
    alphabet = b"<>\"'&{}ab1 -/=;#"
    s = bytes(rng.choice(alphabet) for _ in range(rng.choice([1, 2, 3, 5, 8, 13])))
    return b"<" + s.strip() + b">"


# ---- the two node kinds the pug model has no constructor for -------------------------------------------------------
# ('itag', expr, inline, [node])                         pug `#{expr} ...`  (AST type InterpolatedTag)
# ('trycode', [stmt], evar, [stmt], must_escape, inline) a code node `try { ... } catch (evar) { ... }`

def try_src(n):
    return (b"try { " + b"; ".join(tmpl.stmt_src(s) for s in n[1]) + b" } catch (" + n[2] + b") { "
            + b"; ".join(tmpl.stmt_src(s) for s in n[3]) + b" }")


def pj(n):
    """pug AST JSON of a node (tmpl.pug_json + the opaque kinds, at any depth)"""
    k = n[0]
    blk = lambda l: {"type": "Block", "nodes": [pj(x) for x in l]}
    if k == 'itag':
        return {"type": "InterpolatedTag", "expr": tmpl.s_(tmpl.js_src(n[1])), "isInline": n[2], "selfClosing": False,
                "attrs": [], "attributeBlocks": [], "block": blk(n[3])}
    if k == 'trycode':
        return {"type": "Code", "val": tmpl.s_(try_src(n)), "buffer": False, "mustEscape": n[4], "isInline": n[5]}
    d = tmpl.pug_json(n[:5] + ([],) if k == 'tag' else n[:2] + ([], None) if k == 'cond' else
                      n[:4] + ([],) if k in ('each', 'call') else n[:3] + ([],) if k == 'mixin' else
                      (k, []) if k == 'block' else n)
    if k == 'tag':
        d["block"] = blk(n[5])
    elif k == 'cond':
        d["consequent"] = blk(n[2])
        d["alternate"] = None if n[3] is None else pj(n[3])
    elif k == 'each':
        d["block"] = blk(n[4])
    elif k == 'call':
        d["block"] = blk(n[4]) if n[4] else None
    elif k == 'mixin':
        d["block"] = blk(n[3])
    elif k == 'block':
        d = blk(n[1])
    return d


def pc(n):
    """Gallina term of a node; the opaque kinds as the stand-ins described in Run/Judge_C04.v"""
    k = n[0]
    L = lambda l: cq_list([pc(x) for x in l])
    if k == 'itag':
        return (b'(PTag (B "#{") ' + cq_bool(n[2]) + b' [{| pa_name := B "expr"; pa_val := ' + tmpl.js_coq(n[1])
                + b'; pa_esc := false |}] [] ' + L(n[3]) + b')')
    if k == 'trycode':
        blk = lambda st: b'(SBlock ' + cq_list([tmpl.stmt_coq(s) for s in st]) + b')'
        return (b'(PCode [SIf (JId (B "#try")) ' + blk(n[1]) + b' (Some ' + blk(n[3]) + b')] ' + cq_bool(n[4]) + b' '
                + cq_bool(n[5]) + b')')
    if k == 'tag':
        return (b'(PTag ' + cq_bytes(n[1]) + b' ' + cq_bool(n[2]) + b' ' + cq_list([tmpl.attr_coq(a) for a in n[3]]) + b' '
                + cq_list([cq_bytes(a) for a in n[4]]) + b' ' + L(n[5]) + b')')
    if k == 'cond':
        return (b'(PCond ' + tmpl.js_coq(n[1]) + b' ' + L(n[2]) + b' '
                + (b'None' if n[3] is None else b'(Some ' + pc(n[3]) + b')') + b')')
    if k == 'each':
        return (b'(PEach ' + cq_bytes(n[1]) + b' ' + (b'None' if n[2] is None else b'(Some ' + cq_bytes(n[2]) + b')') + b' '
                + tmpl.js_coq(n[3]) + b' ' + L(n[4]) + b')')
    if k == 'mixin':
        return b'(PMixinDef ' + cq_bytes(n[1]) + b' ' + cq_list([cq_bytes(p) for p in n[2]]) + b' ' + L(n[3]) + b')'
    if k == 'call':
        return (b'(PMixinCall ' + cq_bytes(n[1]) + b' ' + cq_list([tmpl.js_coq(a) for a in n[2]]) + b' '
                + cq_list([tmpl.attr_coq(a) for a in n[3]]) + b' ' + L(n[4]) + b')')
    if k == 'block':
        return b'(PBlock ' + L(n[1]) + b')'
    return tmpl.pug_coq(n)


def kids(n):
    k = n[0]
    if k == 'tag':
        return n[5]
    if k == 'cond':
        return n[2] + ([n[3]] if n[3] is not None else [])
    if k in ('each', 'call'):
        return n[4]
    if k in ('mixin', 'itag'):
        return n[3]
    if k == 'block':
        return n[1]
    return []


def walk(nodes):
    for n in nodes:
        yield n
        for x in walk(kids(n)):
            yield x


def is_opaque(nodes):
    return any(n[0] in ('itag', 'trycode') for n in walk(nodes))


def file_text(nodes):
    return json.dumps({"type": "Block", "nodes": [pj(n) for n in nodes]}, ensure_ascii=False).encode('utf-8', 'surrogateescape')


G_BASES = [('id', b"h"), ('dot', ('id', b"ho"), b"k"), ('idx', ('id', b"ha"), ('num', 0)), ('id', b"h")]
G_DEEP = [('dot', ('dot', ('id', b"hn"), b"a"), b"b"), ('dot', ('idx', ('id', b"hl"), ('num', 0)), b"k"),
          ('idx', ('dot', ('id', b"hn"), b"l"), ('num', 0))]


class Gen:
    """streams B and C: node lists over a scope (the hostile-carrying expressions visible at this point)"""

    def __init__(self, prop, rng, caught):
        self.p, self.rng, self.caught, self.n = prop, rng, caught, 0
        self.defs = []          # mixin definitions made so far: (name, params)

    def fresh(self, prefix):
        self.n += 1
        return prefix + str(self.n).encode()

    def carrier(self, bases, depth):
        return self.p.carrier(None, self.rng, depth, bases)

    def esc_code(self, bases):
        r = self.rng
        return ('code', [('expr', self.carrier(bases, r.choice([0, 0, 1, 1, 2])))], True, r.random() < 0.7)

    def raw_code(self):
        """code that sets compile-time state and prints harmless things only: unescaped, unbuffered, multi-statement"""
        r = self.rng
        k = r.random()
        if k < 0.3:
            return ('code', [('expr', ('id', r.choice([b"s", b"w"])))], False, r.random() < 0.7)
        if k < 0.42:
            return ('code', [('expr', ('bin', '+', ('id', b"w"), r.choice([('id', b"s"), ('str', b"</i>")])))], False, True)
        if k < 0.52:
            return ('code', [('expr', ('str', r.choice([b"<i>", b"lit", b"a&b"])))], False, True)
        if k < 0.72:
            return ('code', [('vars', [('var', self.fresh(b"n"), r.choice([('num', 1), ('str', b"v"), ('id', b"s")]))])], False, False)
        if k < 0.86:
            a, b = self.fresh(b"n"), self.fresh(b"n")
            return ('code', [('vars', [('var', a, ('num', 1))]), ('vars', [('var', b, ('id', b"s"))])] +
                    ([('expr', ('id', b))] if r.random() < 0.5 else []), False, False)
        x = self.fresh(b"n")
        return ('code', [('vars', [('var', x, ('num', 2))]), ('expr', ('assign', ('id', x), ('bin', '+', ('id', x), ('num', 1)))),
                         ('expr', ('id', x))], False, r.random() < 0.5)

    def declared(self, bases):
        """a variable declared from data, printed later: `- var hx = e` + `= hx`, or both in one escaped code node"""
        r = self.rng
        x = self.fresh(b"hx")
        e = self.carrier(bases, r.choice([0, 0, 1]))
        if r.random() < 0.5:
            return [('code', [('vars', [('var', x, e)])], False, False), ('code', [('expr', ('id', x))], True, True)]
        extra = [('expr', ('bin', '+', ('str', b"+"), ('id', x)))] if r.random() < 0.4 else []
        return [('code', [('vars', [('var', x, e)]), ('expr', ('id', x))] + extra, True, r.random() < 0.5)]

    def trycode(self, bases):
        r = self.rng
        ev = self.fresh(b"he")
        body = []
        if not self.caught or r.random() < 0.5:
            body.append(('expr', self.carrier(bases, r.choice([0, 1]))))
        if self.caught:
            body.append(('expr', ('call', ('dot', ('id', b"JSON"), b"parse"), [('id', b"hj")])))
        catch = [('expr', r.choice([('id', ev), ('bin', '+', ('str', b"E:"), ('id', ev))]))]
        return ('trycode', body, ev, catch, True, r.random() < 0.5)

    def each(self, bases, depth, mix):
        r = self.rng
        k = r.random()
        v = self.fresh(b"hv")
        if k < 0.45:
            key = self.fresh(b"hk")
            inner = [('id', key), ('id', key), ('id', v)]
            obj = ('id', b"hm")
        elif k < 0.6:
            key = self.fresh(b"hi") if r.random() < 0.5 else None
            inner, obj = [('id', v)], ('id', b"ha")
        elif k < 0.75:
            key, inner, obj = None, [('dot', ('id', v), b"k")], ('id', b"hl")
        elif k < 0.87:
            key = self.fresh(b"hk")
            inner, obj = [('id', v)], r.choice([('id', b"ho"), ('dot', ('id', b"hn"), b"a")])
        else:
            key, inner, obj = None, [('id', v)], ('dot', ('id', b"hn"), b"l")
        body = self.nodes(inner + ([r.choice(bases)] if r.random() < 0.3 else []), depth - 1, mix)
        if not any(n[0] == 'code' and n[2] for n in body):
            body.append(('code', [('expr', r.choice(inner))], True, True))
        return ('each', v, key, obj, body)

    def mixin(self, depth, mix):
        """a definition (appended to self.defs) whose body prints its parameters, `attributes` members and the block"""
        r = self.rng
        name = self.fresh(b"mx")
        params = [self.fresh(b"hp") for _ in range(r.choice([0, 1, 1, 2]))]
        inner = [('id', p) for p in params] + [('dot', ('id', b"attributes"), r.choice([b"t", b"cls"]))] * r.choice([1, 2])
        body = self.nodes(inner, min(depth, 1), mix)
        body.append(('code', [('expr', r.choice(inner))], True, True))
        if r.random() < 0.6:
            body.insert(r.randrange(len(body) + 1), ('mixinblock',))
        if r.random() < 0.35:
            body.append(self.raw_code())            # the definition ends in state-setting code
        self.defs.append((name, params))
        return ('mixin', name, params, body)

    def call(self, bases, depth, mix):
        r = self.rng
        name, params = r.choice(self.defs)
        lit = lambda: ('str', r.choice([b"x", b"lit", b"a b"]))
        args = [self.carrier(bases, r.choice([0, 0, 1])) if r.random() < 0.75 else lit() for _ in params]
        attrs = []
        for a in r.sample([b"t", b"cls"], r.choice([0, 1, 1, 2])):
            attrs.append((a, self.carrier(bases, r.choice([0, 0, 1])) if r.random() < 0.8 else lit(), True))
        blk = self.nodes(bases, depth - 1, mix) if depth > 0 and r.random() < 0.6 else []
        return ('call', name, args, attrs, blk)

    def nodes(self, bases, depth, mix):
        r = self.rng
        out = []
        for _ in range(r.choice([1, 2, 2, 3])):
            k = r.random()
            if depth <= 0:
                k = k * mix['flat']
            if k < mix['esc']:
                out.append(self.esc_code(bases))
            elif k < mix['raw']:
                out.append(self.raw_code())
            elif k < mix['decl']:
                out.extend(self.declared(bases))
            elif k < mix['text']:
                out.append(('text', r.choice([b"t", b"a b", b"x:", b"<i>", b"&"])))
            elif k < mix['try']:
                out.append(self.trycode(bases))
            elif k < mix['tag']:
                out.append(('tag', r.choice(tgen.TAGS), r.random() < 0.5, [], [], self.nodes(bases, depth - 1, mix)))
            elif k < mix['itag']:
                out.append(('itag', ('id', b"tg"), r.random() < 0.5, self.nodes(bases, depth - 1, mix)))
            elif k < mix['cond']:
                c = r.choice([('id', b"p"), ('bool', True), ('un', '!', ('id', b"p"))])
                alt = ('block', self.nodes(bases, depth - 1, mix)) if r.random() < 0.5 else None
                out.append(('cond', c, self.nodes(bases, depth - 1, mix), alt))
            elif k < mix['each']:
                out.append(self.each(bases, depth, mix))
            elif self.defs:
                out.append(self.call(bases, depth, mix))
            else:
                out.append(self.esc_code(bases))
        return out


#        cumulative shares of the node kinds; 'flat' scales the draw at depth 0 so that only leaf kinds are chosen
MIX_B = {'esc': 0.30, 'raw': 0.33, 'decl': 0.41, 'text': 0.47, 'try': 0.48, 'tag': 0.59, 'itag': 0.61, 'cond': 0.68, 'each': 0.88,
         'flat': 0.48}
MIX_C = {'esc': 0.28, 'raw': 0.48, 'decl': 0.54, 'text': 0.58, 'try': 0.59, 'tag': 0.69, 'itag': 0.85, 'cond': 0.91, 'each': 0.95,
         'flat': 0.59}


class C04(CoreProp):
    id = "C04"
    judge_module = "Run.Judge_C04"
    prop_module = "Props.C04"
    prop_file = "Props/C04.v"
    coq_targets = ["Props/C04.vo", "Run/Judge_C04.vo", "Props/Tables.vo"]
    sizes = {"quick": 700, "thorough": 16000}
    design_ref = "DESIGN.md section 6/C04"
    keep_datas = True
    rule = ("ONE template rendered twice by the real engine (fresh engine each): with a hostile string h (all five special "
            "characters, template delimiters, back-ticks, multi-byte) at every h-named data position — h, ho.k, ha[0], hn.a.b, "
            "hn.l[0], hl[0].k and as the KEY of the map hm — and with a fresh harmless marker m at the same positions (as the key "
            "too); oracle on Go's own outputs: out_h = replace_all m (escape h) out_m. Three streams. A (35%) carriers: tags, text, "
            "if, each around escaped code (`= e`, `#{e}`) whose expression is a string-transparent shape (variable, member, index, "
            "concatenation, conditional, logical default / guard, slice(0) / join results, template literal, array literal, nested), "
            "30% with the same expression text unescaped in a never-taken branch. B (35%) routes: `each v, k in hm` printing the KEY "
            "variable (`= k`, carriers around k) and the value, loops with index over arrays, over arrays of maps, over maps and "
            "nested members, variables declared from data (`- var hx = e` then `= hx`; `var hx = e; hx` in one escaped node), mixins "
            "whose bodies print their parameters, members of `attributes` and the block, called with carrier arguments, attributes "
            "and blocks, try/catch code printing a member in the try part. C (30%) compile-time state: the same escaped code "
            "inside / after unescaped code (`!= s`), unbuffered declarations, multi-statement code, mixin definitions ending in "
            "unescaped code, and interpolated tags `#{tg}` (16% of C's node draws; nested, around and between code nodes). "
            "8% of B and C cases are CAUGHT-route cases: h is one of < > & \" , m is one byte, and a try/catch code node prints the "
            "text of the exception JSON.parse throws on the data `1`+h. Templates with an interpolated tag or try/catch (no "
            "constructor in the pug model) are OPAQUE: raw AST JSON to the engine, stand-ins to the judge's domain test, verdict by "
            "the oracle alone (unmodelled when it holds). A generated case outside dom04 is an alarm of its own. "
            "non-trivial = h contains a special character and the template is more than one bare-variable code node")
    trusted = [
        "M = Pug/Compile.v (renderExpression wrap/rawmode arms, rawmode threaded through the node list), Tmpl/Runtime.v, Tmpl/Exec.v: "
        "hand-written model, compared with the engine on both renders of every non-opaque case",
        "the oracle needs no model: it relates two outputs of the implementation by replace_all/escape evaluated inside Coq",
        "interpolated tags and try/catch code have no constructor in Pug/Ast.v / Js/Ast.v: such templates reach the engine as raw AST "
        "JSON (gen/c04.py pj) and the judge as stand-ins for the domain test only (Run/Judge_C04.v shape04 with k_opaque); no model "
        "prediction is compared there",
        "the pug front end is not available offline: ASTs are generated (mustEscape / buffer / isInline flags set by the generator; "
        "try/catch code is sent with mustEscape = true)",
        "caught route: encoding/json's syntax error `invalid character 'c' after top-level value` quotes the bytes < > & \" verbatim",
    ]
    assumptions = [
        "the hostile string and the marker are non-empty and have no white space at their edges (template literals trim theirs)",
        "the marker is special-free, does not occur in the emitted template text nor in the harmless data",
        "naming rule of the domain (checked by dom04 on every case): only h-named top-level data, loop variables, mixin parameters, "
        "declared variables and `attributes` carry the hostile string; unescaped / unbuffered code prints expressions without such "
        "names only; all other data is equal in both renders",
        "map keys: other keys of the map hm are chosen so that h and m take the same place in the engine's sorted iteration order",
        "the tag name of an interpolated tag is harmless data (equal in both renders)",
    ]
    not_yet_proved = [
        "C04_marker beyond the proved fragment. PROVED as theorems for all programs, data and bytes of h (Props/C04.v "
        "C04_tfree_eval_independent, C04_fragment_marker_spec, C04_fragment_marker, C04_fragment_marker_subst_spec, "
        "C04_fragment_marker_subst, C04_marker_subst_segments; Proofs/C04MarkerProofs.v): on the control fragment of Pug/Lower.v "
        "(text, attribute-less tags, escaped buffered code, var / assignment / ++, if / else, while) over the scalar expression "
        "fragment goodS and top-level scalar data, where the hostile names T (any set of data variables, and the variables "
        "declared or assigned from them) occur only in transparent positions (safe_list T: no test mentions T; a T-variable is "
        "printed by `= e` and stored into T-variables only, e built from T-variables, T-free expressions, `+`, and `c ? a : b` "
        "with a T-free test), the rendering of S and, through C02_program_scalar, of the executor model M is ONE h-independent "
        "list of segments with escape h in the holes, and equals replace_all m (escape h) (rendering with m) for a special-free "
        "marker whose first byte does not occur in the rendering with the empty string (that m merely does not occur in the "
        "literal chunks is refuted: marker_overlap_refuted). The M statements carry C02_program_scalar's `or OFuel` disjunct (no "
        "fuel-sufficiency theorem for exec_fuel) and hold when S raises no listed-deviation flag (number + string). STILL checked on "
        "the implementation's outputs by the oracle only: the other transparent contexts (member / index access, || and && "
        "defaults — which are NOT transparent for the empty string —, slice / join results, template literals, array literals), "
        "`#{}` interpolation, each (values and KEYS), mixin parameters / attributes / blocks, tag attributes, nested (non-scalar) "
        "data; the tie between Pug/Lower.v lower_nodes and compile + parse_program (judged per case); the threading of the "
        "compiler's raw-mode flag through node lists (code nodes, mixin definitions, interpolated tags) and the boxing of every "
        "value that reaches the escaper (map keys, caught exceptions)",
        "no theorem mentions interpolated tags or try/catch: the pug / JS model has no constructor for them (opaque cases)",
    ]

    # ---------------------------------------------------------------- expressions
    def carrier(self, g, rng, depth, bases=None):
        """a transparent expression carrying one of the hostile positions"""
        bases = bases or G_BASES
        base = rng.choice(bases)
        if depth <= 0:
            return base
        k = rng.random()
        sub = lambda: self.carrier(g, rng, depth - 1, bases)
        lit = lambda: ('str', rng.choice([b"x", b"-", b" ", b"pre:", b"a b", b"", b"."]) or b"q")
        if k < 0.18:
            return ('bin', '+', lit(), sub())
        if k < 0.32:
            return ('bin', '+', sub(), rng.choice([lit(), sub(), ('num', 7)]))
        if k < 0.44:
            c = rng.choice([('id', b"p"), ('bool', True), ('bool', False), ('un', '!', ('id', b"p"))])
            return ('cond', c, sub(), lit()) if rng.random() < 0.5 else ('cond', c, lit(), sub())
        if k < 0.52:
            return ('bin', '||', sub(), lit())
        if k < 0.58:
            return ('bin', '&&', rng.choice(bases), sub())
        if k < 0.68:
            return ('tpl', [rng.choice([b"", b"a", b"t "]), sub(), rng.choice([b"", b"z", b" u"])])
        if k < 0.76:
            return ('arr', [sub()] + ([lit()] if rng.random() < 0.4 else []))
        if k < 0.84:
            # not on a loop's key variable: that one is a native Go string without methods
            recv = [b for b in bases if not (b[0] == 'id' and b[1].startswith(b"hk"))] or G_BASES
            return ('call', ('dot', rng.choice(recv), b"slice"), [('num', 0)])
        if k < 0.9:
            return ('call', ('dot', ('id', b"ha"), b"join"), [('str', rng.choice([b",", b"", b"-"]))])
        return base

    # ---------------------------------------------------------------- stream A
    def nodes(self, g, rng, depth):
        out = []
        for _ in range(rng.choice([1, 1, 2, 3])):
            k = rng.random()
            if k < 0.45 or depth <= 0:
                out.append(('code', [('expr', self.carrier(g, rng, rng.choice([0, 1, 1, 2, 3])))], True, rng.random() < 0.7))
            elif k < 0.6:
                out.append(('text', rng.choice([b"t", b"a b", b"x:", b"<i>", b"&"])))
            elif k < 0.78:
                out.append(('tag', rng.choice(tgen.TAGS), rng.random() < 0.5, [], [], self.nodes(g, rng, depth - 1)))
            elif k < 0.9:
                c = rng.choice([('id', b"p"), ('bool', True), ('un', '!', ('id', b"p"))])
                alt = ('block', self.nodes(g, rng, depth - 1)) if rng.random() < 0.5 else None
                out.append(('cond', c, self.nodes(g, rng, depth - 1), alt))
            else:
                out.append(('each', b"h", None, ('id', b"ha"), self.nodes(g, rng, depth - 1)))
        return out

    def gen_carriers(self, rng):
        nodes = self.nodes(None, rng, rng.choice([0, 1, 2, 3]))
        if rng.random() < 0.3:
            # the SAME expression text also occurs unescaped (`!= e`) in a branch that is never taken, before or
            # after the escaped use: how one code node is compiled must not depend on another one with equal text
            codes = [n for n in nodes if n[0] == 'code']
            if codes:
                twin = ('cond', ('id', b"never"), [('code', codes[0][1], False, codes[0][3])], None)
                nodes.insert(0 if rng.random() < 0.7 else len(nodes), twin)
        return nodes

    # ---------------------------------------------------------------- streams B and C
    def gen_routes(self, rng, caught, mix):
        g = Gen(self, rng, caught)
        bases = G_BASES + G_DEEP
        depth = rng.choice([1, 2, 2, 3])
        defs = []
        if rng.random() < (0.45 if mix is MIX_B else 0.35):
            for _ in range(rng.choice([1, 1, 2])):
                defs.append(g.mixin(depth, mix))
        nodes = g.nodes(bases, depth, mix)
        if g.defs:
            for _ in range(rng.choice([1, 1, 2])):
                call = g.call(bases, depth, mix)
                pos = rng.randrange(len(nodes) + 1)
                if rng.random() < 0.3:
                    call = ('tag', rng.choice(tgen.TAGS), False, [], [], [call])
                nodes.insert(pos, call)
        nodes = defs + nodes
        if mix is MIX_B and not any(n[0] == 'each' for n in walk(nodes)):
            nodes.append(g.each(bases, 1, mix))
        if mix is MIX_C:
            # the file ends in escaped code: whatever state the constructs before it left behind
            nodes.append(g.esc_code(bases))
        if caught and not any(n[0] == 'trycode' for n in walk(nodes)):
            nodes.insert(rng.randrange(len(nodes) + 1), g.trycode(bases))
        return nodes

    def generate(self, rng, n, tier):
        cases = []
        for i in range(n):
            s = rng.random()
            caught = s >= 0.35 and rng.random() < 0.08
            h = rng.choice(H_CAUGHT) if caught else hostile(rng)
            if not h.strip() or h != h.strip():
                h = b"<" + h.strip() + b">"
            m = MARK1 if caught else MARK
            if s < 0.35:
                nodes = self.gen_carriers(rng)
            else:
                nodes = self.gen_routes(rng, caught, MIX_B if s < 0.70 else MIX_C)
            other = rng.choice([b"x", b"ok", b"<keep>"])
            pflag = rng.random() < 0.5
            more = rng.random() < 0.3
            hm_same = rng.random() < 0.4              # the value under the hostile key is hostile too
            extra = rng.sample([b"!a", b"!b", b"~z", b"k2"], rng.choice([0, 0, 1, 2]))
            # the other keys of hm must leave h and m at the same place of the sorted key order
            extra = [e for e in extra if (e < h) == (e < m) and e != h]
            safe = rng.choice([b"s1", b"ok", b"<u>", b"a&b"])
            tg = rng.choice(ITAG_NAMES)

            def data(v):
                hm = {v: v if hm_same else other}
                for e in extra:
                    hm[e] = other
                return {b"h": v, b"ho": {b"k": v, b"z": other}, b"ha": [v] + ([other] if more else []), b"hm": hm,
                        b"hn": {b"a": {b"b": v}, b"l": [v]}, b"hl": [{b"k": v}] + ([{b"k": other}] if more else []),
                        b"hj": b"1" + v, b"p": pflag, b"never": False, b"s": safe, b"w": b"<i>", b"tg": tg}
            cases.append({"nodes": ser(nodes), "datas": [ser(data(h)), ser(data(m))], "h": h.hex(), "m": m.hex()})
        return cases

    # ---------------------------------------------------------------- harness / judge formats
    def harness_case(self, case):
        nodes, datas = de(case["nodes"]), [de(d) for d in case["datas"]]
        return {"files": {hx("t"): hx(file_text(nodes))}, "render": hx("t"), "datas": [tmpl.data_go(d) for d in datas],
                "debug": False}

    def emit(self, case, obs):
        nodes, datas = de(case["nodes"]), [de(d) for d in case["datas"]]
        base = (b"{| c_nodes := " + cq_list([pc(n) for n in nodes])
                + b"; c_datas := " + cq_list([tmpl.data_coq(d) for d in datas])
                + b"; c_funcs := " + cq_list([cq_bytes(f) for f in FUNCS])
                + b"; c_prod := " + obsm_coq(obs["prod"], len(datas)) + b"; c_debug := None |}")
        return (b"{| k_case := " + base + b"; k_h := " + cq_bytes(bytes.fromhex(case["h"])) + b"; k_m := "
                + cq_bytes(bytes.fromhex(case["m"])) + b"; k_opaque := " + cq_bool(is_opaque(nodes)) + b" |}")

    def model_expr(self):
        return ("(dom04 c, oracle04 c, k_opaque c, if k_opaque c then 3 else agree04 c, "
                "if k_opaque c then None else match model_toks false (k_case c) with Some ts => Some (string_of_list_ascii (show_toks ts)) | None => None end, "
                "if k_opaque c then [] else "
                "map (fun d => match model_out false (k_case c) d with OOk o => (0, string_of_list_ascii o) | OPanic => (1, EmptyString) "
                "| OUnmod => (3, EmptyString) | OFuel => (4, EmptyString) end) (c_datas (k_case c)))")

    def shrink(self, case):
        nodes = de(case["nodes"])
        out = [dict(case, nodes=ser(c)) for c in shrink_nodes(nodes)]

        def inside(ns):
            """shrink inside the kinds core.shrink_nodes does not descend into"""
            for i, n in enumerate(ns):
                if n[0] == 'itag':
                    yield ns[:i] + n[3] + ns[i + 1:]
                    for b in shrink_nodes(n[3]):
                        yield ns[:i] + [n[:3] + (b,)] + ns[i + 1:]
                    for b in inside(n[3]):
                        yield ns[:i] + [n[:3] + (b,)] + ns[i + 1:]
                elif n[0] == 'tag':
                    for b in inside(n[5]):
                        yield ns[:i] + [n[:5] + (b,)] + ns[i + 1:]
                elif n[0] in ('each', 'call'):
                    for b in inside(n[4]):
                        yield ns[:i] + [n[:4] + (b,)] + ns[i + 1:]
                elif n[0] == 'trycode' and len(n[1]) > 1:
                    for j in range(len(n[1])):
                        yield ns[:i] + [(n[0], n[1][:j] + n[1][j + 1:]) + n[2:]] + ns[i + 1:]
        out += [dict(case, nodes=ser(c)) for c in inside(nodes)]
        return out

    # ---------------------------------------------------------------- evidence
    def nontrivial(self, case, obs):
        h = bytes.fromhex(case["h"])
        nodes = de(case["nodes"])
        bare = all(n[0] != 'code' or n[1][0][1][0] == 'id' for n in nodes) and len(nodes) == 1
        return any(c in h for c in b"<>\"'&") and not bare

    def sample(self, case, obs):
        nodes = de(case["nodes"])
        return {"pug_ast": json.loads(file_text(nodes).decode("utf-8", "replace")),
                "data": [tmpl.data_plain(de(d)) for d in case["datas"]][:2],
                "emitted_template": unhx(obs["prod"].get("code", "")).decode("utf-8", "replace")[:600],
                "go_output": [unhx(r.get("out", "")).decode("utf-8", "replace")[:300] if r.get("class") == "ok" else r.get("class")
                              for r in (obs["prod"].get("res") or [])][:2],
                "hostile": bytes.fromhex(case["h"]).decode("utf-8", "replace"),
                "opaque": is_opaque(nodes)}

    def distribution(self, cases, obss):
        kinds, classes = {}, {}
        feat = {"opaque_cases": 0, "with_interpolated_tag": 0, "escaped_code_inside_interpolated_tag": 0, "with_try_catch": 0,
                "caught_route_cases": 0, "prints_map_key_variable": 0, "each_with_key": 0, "with_mixin_call": 0,
                "mixin_call_with_attributes": 0, "prints_attributes_member": 0, "with_unescaped_or_unbuffered_code": 0,
                "with_multi_statement_code": 0, "escaped_code_after_state_setting_code": 0, "never_taken_twin": 0,
                "both_renders_ok": 0, "hostile_string_reaches_output": 0}
        for c, o in zip(cases, obss):
            nodes = de(c["nodes"])
            h = bytes.fromhex(c["h"])
            alln = list(walk(nodes))
            for n in alln:
                kinds[n[0]] = kinds.get(n[0], 0) + 1
            res = o["prod"].get("res") or [{"class": "load:" + o["prod"].get("load", "?")}]
            for r in res:
                classes[r.get("class")] = classes.get(r.get("class"), 0) + 1
            if len(res) == 2 and all(r.get("class") == "ok" for r in res):
                feat["both_renders_ok"] += 1
                esc = h.replace(b"&", b"&amp;").replace(b"<", b"&lt;").replace(b">", b"&gt;").replace(b'"', b"&#34;").replace(b"'", b"&#39;")
                feat["hostile_string_reaches_output"] += esc in unhx(res[0].get("out", ""))
            feat["opaque_cases"] += is_opaque(nodes)
            itags = [n for n in alln if n[0] == 'itag']
            feat["with_interpolated_tag"] += bool(itags)
            feat["escaped_code_inside_interpolated_tag"] += any(x[0] == 'code' and x[2] for t in itags for x in walk(t[3]))
            feat["with_try_catch"] += any(n[0] == 'trycode' for n in alln)
            feat["caught_route_cases"] += c["m"] == MARK1.hex()
            keyed = [n for n in alln if n[0] == 'each' and n[2] is not None]
            feat["each_with_key"] += bool(keyed)
            feat["prints_map_key_variable"] += any(n[3] == ('id', b"hm") and any(
                x[0] == 'code' and x[2] and n[2] in tgen.expr_vars(x[1][-1][1]) for x in walk(n[4])) for n in keyed)
            calls = [n for n in alln if n[0] == 'call']
            feat["with_mixin_call"] += bool(calls)
            feat["mixin_call_with_attributes"] += any(n[3] for n in calls)
            feat["prints_attributes_member"] += any(n[0] == 'code' and n[2] and n[1][-1][0] == 'expr'
                                                    and b"attributes" in tgen.expr_vars(n[1][-1][1]) for n in alln)
            raw = [i for i, n in enumerate(alln) if n[0] == 'code' and not n[2]]
            feat["with_unescaped_or_unbuffered_code"] += bool(raw)
            feat["with_multi_statement_code"] += any(n[0] == 'code' and len(n[1]) > 1 for n in alln)
            feat["escaped_code_after_state_setting_code"] += bool(raw) and any(n[0] == 'code' and n[2] for n in alln[raw[0]:])
            feat["never_taken_twin"] += any(n[0] == 'cond' and n[1] == ('id', b"never") for n in alln)
        return {"node_kinds": kinds, "go_outcome_classes": classes, "features": feat}


PROP = C04()
