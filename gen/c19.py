# C19 — asset handler: served files stay inside frontend/dist, no listing, CORS by whitelist
# (for every method and whatever other header lines the request carries: see gen_request).
# The generated file systems contain symbolic links (see gen_links): what a request resolves to is decided by
# the OS, not by the request path alone.
import json
import posixpath
from common import *

LONG = "L" * 200 + ".js"            # long but below NAME_MAX
TOO_LONG = "M" * 300                 # above NAME_MAX: outside the tree model (judged by the oracle only)

# candidate regular files / directories below frontend/dist (a name is one or the other per tree)
FILE_POOL = ["a.txt", "app.js", "style.css", "index.html", "xy", "data.json", LONG, "assets", "x",
             "sub/b.js", "sub/index.html", "img/logo.png", "sub/deep/c.css", "assets/inner.js",
             "x/assets/y", "sub/a.txt", "dist", "secret.txt"]
DIR_POOL = ["sub", "img", "empty", "sub/deep", "x", "x/assets", "assets", "sub/empty2"]

# files written OUTSIDE frontend/dist (relative to the temporary working directory)
CANARY_PATHS = ["frontend/secret.txt", "canary.txt", "frontend/dist2/a.txt", "frontend/a.txt",
                "a.txt", "frontend/dist.txt", "frontend/distant/index.html", "assets/a.txt"]

WHITELISTS = [[], ["*"], ["http://a.test", "https://b.test:8443"], ["http://a.test/"],
              ["a", "b"], ["http://a.test", "*"], ["http://localhost:3210"], [""],
              ["x!y", "http://a.test"], ["http://a.test", "http://a.test/", "https://c.test/"],
              ["*", "*"], ["http://a.test", "https://b.test:8443", "http://c.test", "null"]]

DOTS = ["..", ".", "%2e%2e", "%2E%2e", "%2e", ".%2e", "..%2f", "..%5c", "%2f", "%5c", "...", "%2e%2e%2f%2e%2e"]
OUTSIDE = ["secret.txt", "canary.txt", "dist2", "frontend", "dist", "dist.txt", "distant", "a.txt"]
PREFIXES = ["/assets/"] * 12 + ["/assets", "//assets/", "/assets//", "/%61ssets/", "/assets%2f", "/static/",
                                "/", "/ASSETS/", "/assets/assets/", "/assets/./", "/assets/../assets/",
                                "/x/assets/", "/assets/%2e%2e/assets/", "/assets/%2e%2e/x/assets/"]
HOSTILE_ALPHABET = ["/", "/", ".", ".", "%2e", "%2E", "%2f", "%2F", "%5c", "%5C", "%00", "%", "%z", "a", "s",
                    "assets", "index.html", "%25", "%3f", "%23", "+", "~", "-", "_", "!", "%0a", "%41", "//", "/../", "/./"]


def token(rng, n=None):
    n = n or rng.randint(12, 24)
    return "".join(rng.choice("0123456789abcdefghijklmnopqrstuvwxyzABCDEFGHIJKLMNOPQRSTUVWXYZ<>&\"' \n")
                   for _ in range(n))


# names for symbolic links (a name is used for a link only where nothing else has it)
LINK_NAMES = ["latest", "current", "stable", "ln", "l.js", "shared", "vendor", "index.html", "logo.png", "up",
              "assets", "x", "main.css"]
# directories outside frontend/dist (relative to the temporary root) that exist besides the canaries' parents
OUT_DIRS = ["out", "out/sub", "frontend/dist2", "frontend/other"]
LINK_SHARE = 0.45                    # share of the generated trees that contain symbolic links


def gen_tree(rng):
    files, dirs = {}, set()
    for p in rng.sample(FILE_POOL, rng.randint(2, 9)):
        parts = p.split("/")
        # a parent must not already be a file, and the name must not be a directory
        if any("/".join(parts[:i]) in files for i in range(1, len(parts))) or p in dirs:
            continue
        if any(q.startswith(p + "/") for q in files) or any(d == p or d.startswith(p + "/") for d in dirs):
            continue
        for i in range(1, len(parts)):
            dirs.add("/".join(parts[:i]))
        files[p] = "FILE[" + p[:20] + "]" + token(rng)
    for d in rng.sample(DIR_POOL, rng.randint(0, 4)):
        parts = d.split("/")
        if any("/".join(parts[:i]) in files for i in range(1, len(parts) + 1)):
            continue
        for i in range(1, len(parts) + 1):
            dirs.add("/".join(parts[:i]))
    if files and rng.random() < 0.15:
        files[rng.choice(sorted(files))] = ""          # an empty regular file
    canaries = {p: "CANARY[" + p + "]" + token(rng) for p in rng.sample(CANARY_PATHS, rng.randint(3, len(CANARY_PATHS)))}
    outdirs, links = [], []
    if rng.random() < LINK_SHARE:
        outdirs, links = gen_links(rng, files, dirs, canaries)
    return files, sorted(dirs), canaries, outdirs, links


DIST = "frontend/dist"


def gen_links(rng, files, dirs, canaries):
    """Symbolic links for one tree.  Every link lies below the temporary root, most of them below
    frontend/dist; targets: directories and files inside dist (plain, './', trailing slash, upward but
    inside), other links (chains), the canary files and directories OUTSIDE dist (relative with '..' and
    absolute), dangling names, loops, a regular file followed by '/' or '/x', '.', '..', the temporary root,
    '..' beyond the temporary root, and (rarely) a chain around the OS limit of 40 links.
    Returns (outdirs, [ {path (relative to the temporary root), target, kind} ])."""
    outdirs = rng.sample(OUT_DIRS, rng.randint(0, 3))
    out_all = set(outdirs)
    for p in list(canaries) + outdirs:
        parts = p.split("/")
        for i in range(1, len(parts) + (1 if p in outdirs else 0)):
            out_all.add("/".join(parts[:i]))
    out_all.discard("frontend")
    out_all.discard(DIST)
    taken = {DIST + "/" + p for p in files} | {DIST + "/" + d for d in dirs} | set(canaries) | out_all | {"frontend", DIST}
    in_dirs = [DIST] + [DIST + "/" + d for d in sorted(dirs)]
    in_files = [DIST + "/" + f for f in sorted(files)]
    links = []

    def rel(frm_dir, to):
        return posixpath.relpath(to, frm_dir)

    def place(where=None):
        where = where or (rng.choice(in_dirs) if rng.random() < 0.9 else rng.choice(sorted(out_all) or [DIST]))
        for name in rng.sample(LINK_NAMES, len(LINK_NAMES)):
            p = where + "/" + name
            if p not in taken and not any(q.startswith(p + "/") for q in taken):
                taken.add(p)
                return where, p
        return None, None

    def add(kind, where, p, target):
        links.append({"path": p, "target": target, "kind": kind})

    for _ in range(rng.randint(1, 6)):
        where, p = place()
        if p is None:
            break
        r = rng.random()
        if r < 0.20:                                    # a directory inside dist
            t = rel(where, rng.choice(in_dirs))
            add("dir", where, p, rng.choice([t, t, "./" + t, t + "/", t + "/."]))
        elif r < 0.36 and in_files:                     # a regular file inside dist
            t = rel(where, rng.choice(in_files))
            add("file", where, p, rng.choice([t, t, "./" + t, t.replace("/", "//", 1)]))
        elif r < 0.46 and links:                        # another link (chain)
            add("chain", where, p, rel(where, rng.choice(links)["path"]))
        elif r < 0.60:                                  # a canary file outside dist
            k = rng.choice(sorted(canaries))
            add("out-file", where, p, rng.choice([rel(where, k), rel(where, k), "/" + k]))
        elif r < 0.74:                                  # a directory outside dist
            d = rng.choice(sorted(out_all) + ["frontend", ".", "."])
            t = rng.choice([rel(where, d), rel(where, d), "/" + d if d != "." else "/"])
            add("out-dir", where, p, t + rng.choice(["", "", "/"]))
        elif r < 0.80:                                  # dangling
            add("dangling", where, p, rng.choice(["nope", "missing/x", "../nope", "/nope", "sub/../nope.js"]))
        elif r < 0.86:                                  # loops
            if rng.random() < 0.5:
                add("loop", where, p, posixpath.basename(p))
            else:
                where2, p2 = place(where)
                if p2 is None:
                    add("loop", where, p, posixpath.basename(p))
                else:
                    add("loop", where, p, posixpath.basename(p2))
                    add("loop", where2, p2, "./" + posixpath.basename(p))
        elif r < 0.92 and in_files:                     # a regular file used as a directory
            t = rel(where, rng.choice(in_files))
            add("file-slash", where, p, t + rng.choice(["/", "/x", "/.", "/.."]))
        elif r < 0.97:                                  # dot targets
            add("dots", where, p, rng.choice([".", "..", "../" + posixpath.basename(where), "./.", "../.."]))
        elif r < 0.985:                                 # climbs above the temporary root (outside the model)
            add("above", where, p, "../" * (where.count("/") + 2) + "canary.txt")
        else:                                           # a chain around MAXSYMLINKS = 40
            n = rng.choice([38, 39, 40, 41])
            end = rel(where, rng.choice(in_files)) if in_files else "nope"
            base = posixpath.basename(p)
            add("long-chain", where, p, base + ".1")
            for i in range(1, n):
                q = p + "." + str(i)
                taken.add(q)
                add("long-chain", where, q, base + "." + str(i + 1) if i + 1 < n else end)
    return outdirs, links


def link_names(links):
    """dist-relative paths of the links that lie below frontend/dist"""
    return [l["path"][len(DIST) + 1:] for l in links if l["path"].startswith(DIST + "/")]


def gen_raw_link(rng, files, dirs, canaries, links, lnames):
    """A request that addresses a link itself, or something reached through it."""
    l = rng.choice(lnames)
    below = sorted({c for p in list(files) + dirs + list(canaries) + OUT_DIRS + [x["path"] for x in links]
                    for c in p.split("/")})
    r = rng.random()
    if r < 0.30:
        tail = rng.choice(["", "", "", "/", "/", "/index.html"])
    elif r < 0.75:
        tail = "/" + rng.choice(below) + rng.choice(["", "", "", "/", "/" + rng.choice(below)])
    elif r < 0.88:
        tail = "/" + rng.choice(["%2e%2e", "..", "%2e", "%2e%2e/%2e%2e"]) + "/" + rng.choice(below + ["canary.txt", "secret.txt"])
    else:
        tail = rng.choice(["/nope", "//", "/%00", "/.", "/" + LONG])
    return rng.choice(["/assets/"] * 8 + ["/%61ssets/", "/assets/./", "/assets//", "/assets/assets/%2e%2e/"]) + l + tail


def gen_raw(rng, files, dirs, canaries=(), links=()):
    lnames = link_names(links)
    if lnames and rng.random() < 0.5:
        return gen_raw_link(rng, files, dirs, canaries, links, lnames)
    names = sorted(files) + dirs + lnames
    comps = sorted({c for p in names for c in p.split("/")})
    mode = rng.random()
    if mode < 0.08:                                     # hostile: arbitrary mixtures, may not even parse
        return "/" + "".join(rng.choice(HOSTILE_ALPHABET) for _ in range(rng.randint(0, 12)))
    if mode < 0.22 and names:                           # plain hits
        return "/assets/" + rng.choice(names) + rng.choice(["", "", "", "/"])
    if mode < 0.34 and names:                           # encoded detours that end at an existing name
        tgt = rng.choice(names)
        det = rng.choice(["%2e/", "nope/%2e%2e/", "sub/%2E%2E/", "%2e%2e/", "x/..%2f", "%2e%2e/assets/",
                          "a.txt/%2e%2e/", "%2e%2e/%2e%2e/", "assets/%2e%2e/", "img/.%2e/"])
        return rng.choice(["/assets/", "/assets/", "/%61ssets/", "/assets/assets/%2e%2e/"]) + det * rng.randint(1, 2) + tgt
    if mode < 0.48:                                     # aimed at the canaries
        up = rng.choice(["..", "%2e%2e", "%2E%2E", ".%2e", "..%2f..", "%2e%2e%2f%2e%2e"])
        sep = rng.choice(["/", "/", "%2f", "%5c", "//"])
        k = rng.randint(1, 4)
        target = rng.choice(["secret.txt", "canary.txt", "dist2/a.txt", "a.txt", "dist.txt", "dist/../secret.txt",
                             "frontend/secret.txt", "distant/index.html", "dist/../../canary.txt", "assets/a.txt"])
        start = rng.choice(["/assets/", "/assets/", "/assets/sub/", "/assets/assets/", "/%61ssets/", "/assets/a.txt/"])
        return start + sep.join([up] * k) + sep + target
    segs = []
    for _ in range(rng.randint(0, 5)):
        r = rng.random()
        if r < 0.30 and comps:
            segs.append(rng.choice(comps))
        elif r < 0.42 and names:
            segs.append(rng.choice(names))
        elif r < 0.62:
            segs.append(rng.choice(DOTS))
        elif r < 0.70:
            segs.append("")                             # doubled slash
        elif r < 0.78:
            segs.append("assets")
        elif r < 0.84:
            segs.append("index.html")
        elif r < 0.90:
            segs.append(rng.choice(OUTSIDE))
        elif r < 0.94:
            segs.append(rng.choice(["nope", "missing.css", "%41", "a.txt%2f", "b%20c"]))
        elif r < 0.97:
            segs.append(LONG)
        elif r < 0.995:
            segs.append("%00")
        else:
            segs.append(TOO_LONG)
    return rng.choice(PREFIXES) + "/".join(segs) + rng.choice(["", "", "", "", "", "", "/", "/index.html"])


def gen_origin(rng, wl):
    r = rng.random()
    if r < 0.16:
        return None                                     # header absent
    if r < 0.24:
        return ""                                       # header present, empty
    if r < 0.50 and wl:
        return rng.choice(wl)                           # listed verbatim
    if r < 0.60 and len(wl) >= 2:
        a, b = rng.sample(wl, 2)
        return a + "!" + b                              # F-C19-a
    if r < 0.70 and wl:
        w = rng.choice(wl)
        return rng.choice([w.rstrip("/"), w + "/", w[:-1], w[1:], w + "!", "!" + w, w.upper(), w.swapcase(),
                           w.replace("http", "HTTP"), w + ".", w + ":80", w + ":443", w + ":8443", w + "0",
                           w.rsplit(":", 1)[0], w + " " + w, w + ", " + w, w + ".evil.test", w + "@evil.test",
                           w.replace("://", "://evil.test@"), w.split("://")[-1], "null " + w]) or "x"
    if r < 0.74:
        return "*"
    if r < 0.80:
        return rng.choice(["!", "!!", "a!b", "x", "y", "null", "NULL", "Null", "null.", "file://", "**", "* ", "*,*"]).strip() or "*"
    return rng.choice(["http://evil.test", "https://a.test", "http://a.test.evil.test", "http://a.test:80"])


# ---- the request beyond its target: method and header lines -------------------------------------------
# The CORS decision may depend on the Origin and the whitelist only.  VARIED_SHARE of the requests therefore
# are not plain GETs: the method varies, preflight headers, further Origin lines, ordinary browser headers
# and conditional / Range headers are added - for listed and foreign origins alike (gen_origin is shared).
VARIED_SHARE = 0.6
METHODS = (["GET"] * 3 + ["HEAD"] * 3 + ["OPTIONS"] * 6 + ["POST"] * 2 + ["PUT", "DELETE", "PATCH", "TRACE",
           "PROPFIND", "get", "options", "Options", "QUERY"])
ACR_METHODS = ["GET", "PUT", "DELETE", "POST", "PATCH", "HEAD", "OPTIONS", "get", "X", "*"]
ACR_HEADERS = ["content-type", "authorization, x-requested-with", "X-Custom", "*", "origin", "range"]
BENIGN = [("Accept", "*/*"), ("Accept", "text/html,application/xhtml+xml;q=0.9"), ("Accept-Encoding", "gzip, deflate, br"),
          ("Accept-Language", "de,en;q=0.5"), ("User-Agent", "Mozilla/5.0 (X11; Linux x86_64)"),
          ("Cookie", "sid=1; theme=dark"), ("Referer", "https://evil.test/page"), ("Referer", "http://a.test/"),
          ("X-Requested-With", "XMLHttpRequest"), ("X-Forwarded-Host", "a.test"), ("X-Forwarded-For", "10.0.0.1"),
          ("Forwarded", "host=a.test;proto=https"), ("Cache-Control", "no-cache"), ("Pragma", "no-cache"),
          ("Content-Type", "application/json"), ("Sec-Fetch-Mode", "cors"), ("Sec-Fetch-Site", "cross-site"),
          ("Sec-Fetch-Dest", "script"), ("Authorization", "Basic dTpw"), ("Connection", "keep-alive"),
          ("X-Origin", "http://a.test"), ("Access-Control-Allow-Origin", "https://evil.test"),
          ("Access-Control-Allow-Credentials", "true"), ("Timing-Allow-Origin", "*"), ("DNT", "1")]
CONDITIONAL = [("Range", "bytes=0-3"), ("Range", "bytes=2-"), ("Range", "bytes=-4"), ("Range", "bytes=0-"),
               ("Range", "bytes=5-9"), ("Range", "bytes=4000-5000"), ("Range", "bytes=x"), ("Range", "lines=1-2"),
               ("If-Modified-Since", "Fri, 01 Jan 2100 00:00:00 GMT"), ("If-Modified-Since", "Mon, 01 Jan 1990 00:00:00 GMT"),
               ("If-Modified-Since", "yesterday"), ("If-None-Match", "*"), ("If-None-Match", '"abc"'),
               ("If-Match", "*"), ("If-Match", '"abc"'), ("If-Unmodified-Since", "Mon, 01 Jan 1990 00:00:00 GMT"),
               ("If-Unmodified-Since", "Fri, 01 Jan 2100 00:00:00 GMT"), ("If-Range", '"abc"'),
               ("If-Range", "Fri, 01 Jan 2100 00:00:00 GMT")]
CONDITIONAL_NAMES = {"range", "if-modified-since", "if-none-match", "if-match", "if-unmodified-since", "if-range"}


def odd_case(rng, name):
    return rng.choice([name, name, name.lower(), name.upper(),
                       "".join(ch.upper() if rng.random() < 0.5 else ch.lower() for ch in name)])


def gen_request(rng, wl):
    """(method, origin, headers): origin is the Origin line sent first (None = none), headers the further
    header lines in order.  All methods are valid tokens and all values valid field values without outer
    white space, so that the request line and the path alone decide whether net/http parses the request."""
    o = gen_origin(rng, wl)
    o = None if o is None else o.strip()                 # net/textproto trims outer white space of a value
    if rng.random() >= VARIED_SHARE:
        return "GET", o, []
    method = rng.choice(METHODS)
    headers = []
    if rng.random() < (0.75 if method.upper() == "OPTIONS" else 0.35):      # preflight headers
        headers.append((odd_case(rng, "Access-Control-Request-Method"), rng.choice(ACR_METHODS)))
        if rng.random() < 0.5:
            headers.append((odd_case(rng, "Access-Control-Request-Headers"), rng.choice(ACR_HEADERS)))
    for _ in range(rng.choice([0, 0, 1, 1, 2, 3])):                          # what browsers and proxies send
        headers.append(rng.choice(BENIGN))
    if rng.random() < 0.15:                                                  # conditional / Range
        headers.append(rng.choice(CONDITIONAL))
        if rng.random() < 0.25:
            headers.append(rng.choice(CONDITIONAL))
    rng.shuffle(headers)
    if rng.random() < 0.22:                                                  # several Origin lines
        for _ in range(rng.randint(1, 2)):
            o2 = gen_origin(rng, wl)
            if o2 is not None:
                headers.insert(rng.randint(0, len(headers)), (odd_case(rng, "Origin"), o2.strip()))
        if o is not None and rng.random() < 0.5:                             # the first line need not be the listed one
            headers.insert(rng.randint(0, len(headers)), (odd_case(rng, "Origin"), o))
            o = None
    return method, o, headers


class C19(Prop):
    id = "C19"
    engine = "C19"
    judge_module = "Run.Judge_C19"
    prop_module = "Props.C19"
    prop_file = "Props/C19.v"
    coq_targets = ["Props/C19.vo", "Run/Judge_C19.vo"]
    sizes = {"quick": 1500, "thorough": 40000}
    per_tree = {"quick": 30, "thorough": 150}
    design_ref = "DESIGN.md section 6 C19, section 7 F-C19-a"
    rule = ("raw request targets from a segment grammar (dot segments plain and percent-encoded, encoded "
            "separators, doubled slashes and prefixes, a second /assets/ inside the path, existing files, "
            "directories, index.html, long names, names of the canary files, 8% hostile byte mixtures) x Origin "
            "(absent, empty, listed, '!'-joined pair of entries, near misses: other case, trailing dot or slash, "
            "ports, userinfo, suffix domains, two entries in one value, 'null', '*', foreign) x whitelists (empty, "
            "'*', several, trailing slashes, an entry with '!') x the REST OF THE REQUEST: 60% of the requests "
            "(VARIED_SHARE) are not plain GETs - method from GET, HEAD, OPTIONS (a third), POST, PUT, DELETE, PATCH, "
            "TRACE, PROPFIND, QUERY and lower/mixed-case tokens; preflight headers Access-Control-Request-Method / "
            "-Headers (75% of the OPTIONS requests, 35% of the others; header names in any case); 0-3 headers that "
            "browsers and proxies send (Accept*, Cookie, Referer, Sec-Fetch-*, X-Forwarded-*, Authorization, "
            "Content-Type, request headers named Access-Control-Allow-Origin / -Credentials); in 22% further Origin "
            "lines (1-2, any case of the name, before or after the first one, listed and foreign); in 15% "
            "conditional / Range headers (single ranges satisfiable and not, If-Modified-Since past / future / "
            "garbage, If-None-Match, If-Match, If-Unmodified-Since, If-Range) so that the answers include 204-free "
            "206, 304, 412 and 416 besides 200/301/400/404/500 - all of this for listed and foreign origins alike, "
            "the Origin generator is shared; the oracle reads EVERY Access-Control-* response header with all its "
            "values; batched per generated file system: a frontend/dist "
            "tree with canary files and directories outside it; 45% of the trees (LINK_SHARE) also hold 1-6 symbolic "
            "links, mostly below dist: to directories and files inside dist (plain, './', trailing slash, upward but "
            "inside), to other links (chains), to the canary files and directories OUTSIDE dist (relative through "
            "'..' and absolute), dangling, loops, a regular file followed by '/' or '/x', '.', '..', out of dist and "
            "back in, beyond the temporary root, chains of 39-42 links around the OS limit of 40; on such a tree "
            "half of the requests address a link itself (with and without trailing slash, /index.html) or "
            "something below it (children of the target, canary names, encoded dot segments after the link); "
            "non-trivial = the request is not a plain hit of an existing file without Origin; distinct by SHA-1 "
            "of the case; corpus/C19 (F-C19-a, F-C19-b witnesses, link-to-directory, 40/41-link chains, loops, R-*: "
            "preflights with foreign / absent / listed Origin, HEAD, POST, two Origin lines, Range, 304) runs first")
    trusted = [
        "net/http (ServeMux, FileServer, serveFile, http.Dir with mapOpenError), net/url percent-decoding, "
        "path.Clean/path.Base and strings.Replace are modelled in Models/Assets.v and compared on every case (Go's own "
        "path.Clean result, URL.Path, URL.EscapedPath and mux.Handler decision are observed and matched); they are "
        "not verified",
        "the theorems quantify over all decoded paths and all three mux decisions, so they hold whatever the URL "
        "decoder and ServeMux do; the decoded path is the byte string the handler receives in URL.Path",
        "the file system is a finite map from clean rooted physical paths below the process's working directory to "
        "regular files, directories and symbolic links; open/stat follow links the way Linux does (Models/Assets.v "
        "walk: physical '..', absolute targets, ENOENT/ENOTDIR/ELOOP after 40 links, trailing slash on a "
        "non-directory); the model is compared with the real OS on every generated tree, it is not verified; "
        "the harness maps an absolute link target /x to <temporary root>/x",
        "the oracle is evaluated on the real response and does not resolve links: a 200 body must be byte-identical "
        "to a regular file that physically lies below frontend/dist, any other answer must contain no file's "
        "content, the content of a file outside dist must be in no answer, and a 200 answer must not be net/http's "
        "HTML index of a directory; file contents are random tagged tokens, so equal bytes identify the file",
        "frontend and frontend/dist themselves are plain directories; permissions (403), special files, "
        "NAME_MAX/PATH_MAX are outside the model (requests with a component above 255 bytes and resolutions that "
        "climb above the temporary root are judged by the oracle only: unmodelled)",
        "the CORS clause of the oracle is ac_spec (Models/Assets.v, meaning proved in C19_ac_spec_sound) on the "
        "list of ALL response headers whose name starts with Access-Control- (any case) with ALL their values, as "
        "net/http/httptest recorded them: an Access-Control-Allow-Origin header has exactly one value, that value "
        "is the value of one of the request's Origin lines and is non-empty and whitelisted; any other "
        "Access-Control-* response header is accepted only on a request that carries a whitelisted Origin; "
        "only the whitelist and the values of the Origin lines enter - method, other headers and status do not. "
        "The model (resp_ac) is stricter: the first Origin line (Header.Get) decides, and it is compared too",
        "request methods are valid tokens other than CONNECT, header values valid field values without outer white "
        "space (net/textproto trims it), no request body, no Content-Length / Transfer-Encoding / Expect, no query "
        "string; the request is parsed by http.ReadRequest and served through ServeMux.ServeHTTP into an "
        "httptest.ResponseRecorder (so the body that a handler writes for HEAD is seen as written); "
        "check_webpack_1337 = false",
        "HEAD: serveContent sends no body (sent_body); conditional and Range headers are looked at by "
        "net/http's serveContent only when a regular file is about to be sent: such cases (model answer File and a "
        "Range / If-* header present) are judged by the oracle only (200 = the file's bytes, 206 = a part of a "
        "regular file inside dist, anything else = no file content; CORS clause as always) while decoding, mux "
        "and the complete Access-Control-* header list are still compared with the model: verdict unmodelled; "
        "multi-range requests (multipart bodies) are not generated",
        "the CORS model is the code after fixes/0001-fix-*.patch (F-C19-a); Module.Configure passes the whitelist "
        "untrimmed (trailing slashes are trimmed only in routes.Routes, which is not the handler of this property)",
    ]
    assumptions = [
        "'the request's Origin' = the value of an Origin header line of the request (names compare "
        "case-insensitively; with several lines the oracle accepts any of them, the model and the code take the "
        "first); the whitelist is compared byte for byte (no case folding, no default ports, no trailing dot or "
        "slash normalisation): C19_cors_all_requests for every method and every list of header lines",
        "OS file system = finite tree of regular files, directories and symbolic links with Linux path resolution "
        "(at most 40 links per lookup); no permission errors; frontend/dist itself is a plain directory",
        "domain of the clause 'never serves a file outside that directory': dom_C19 (no link target is absolute or "
        "has a '..' component; sufficient) in the theorem C19_only_file_bytes_partial, and the exact per-request "
        "test 'the resolved regular file lies physically below frontend/dist' in the judge; off that domain the "
        "code follows the link and serves the outside file: listed finding F-C19-b (judge class 1, "
        "C19_file_outside_refuted), not repaired",
        "'never lists a directory' and 'a 200 carries exactly the bytes of a regular file' have NO link-related "
        "restriction: C19_no_listing and C19_only_file_bytes hold for every tree, whatever the links do",
    ]
    not_yet_proved = [
        "net/http's precondition and range handling (checkPreconditions, parseRange: 206/304/412/416) is not "
        "modelled; conditional / Range requests that reach a regular file are judged by the oracle and by the "
        "method-independent part of the model only",
        "the theorems about the request as a whole (C19_cors_all_requests, C19_cors_origin_only, "
        "C19_cors_complete, C19_cors_meets_spec) are about the model resp_ac, in which the method and the other "
        "header lines are arguments that no branch reads; that the real handler has no such branch is what the "
        "correspondence check samples (C19_cors_preflight_set_refuted shows the clause rejects one)",
        "C19_only_file_bytes_partial is proved under the syntactic condition dom_C19 on the whole tree; the exact "
        "condition (every link's own resolution ends inside dist) is only evaluated per request by the judge",
    ]

    def generate(self, rng, n, tier):
        per = self.per_tree.get(tier, 50)
        cases = []
        while len(cases) < n:
            files, dirs, canaries, outdirs, links = gen_tree(rng)
            wl = rng.choice(WHITELISTS)
            base = {"files": [{"path": hx(p), "data": hx(files[p])} for p in sorted(files)],
                    "dirs": [hx(d) for d in dirs],
                    "canaries": [{"path": hx(p), "data": hx(canaries[p])} for p in sorted(canaries)],
                    "outdirs": [hx(d) for d in outdirs],
                    "links": [{"path": hx(l["path"]), "target": hx(l["target"]), "kind": l["kind"]} for l in links],
                    "whitelist": [hx(w) for w in wl]}
            for _ in range(min(per, n - len(cases))):
                c = dict(base)
                c["raw"] = hx(gen_raw(rng, files, dirs, canaries, links))
                method, o, headers = gen_request(rng, wl)
                c["origin"] = None if o is None else hx(o)
                c["method"] = hx(method)
                c["headers"] = [[hx(k), hx(v)] for k, v in headers]
                cases.append(c)
        return cases

    # ---- Gallina
    def emit(self, case, obs):
        # the whole generated file system, keyed by clean rooted physical path below the temporary root
        nodes = {b"/": b"Dir", b"/frontend": b"Dir", b"/frontend/dist": b"Dir"}

        def parents(parts, upto):
            for i in range(1, upto):
                nodes.setdefault(b"/" + b"/".join(parts[:i]), b"Dir")

        for d in case["dirs"]:
            parts = [b"frontend", b"dist"] + unhx(d).split(b"/")
            parents(parts, len(parts) + 1)
        for d in case.get("outdirs", []):
            parts = unhx(d).split(b"/")
            parents(parts, len(parts) + 1)
        for f in case["files"]:
            parts = [b"frontend", b"dist"] + unhx(f["path"]).split(b"/")
            parents(parts, len(parts))
            nodes[b"/" + b"/".join(parts)] = b"(Reg " + cq_bytes(unhx(f["data"])) + b")"
        for k in case["canaries"]:
            parts = unhx(k["path"]).split(b"/")
            parents(parts, len(parts))
            nodes[b"/" + b"/".join(parts)] = b"(Reg " + cq_bytes(unhx(k["data"])) + b")"
        for l in case.get("links", []):
            parts = unhx(l["path"]).split(b"/")
            parents(parts, len(parts))
            nodes[b"/" + b"/".join(parts)] = b"(Link " + cq_bytes(unhx(l["target"])) + b")"
        tree = cq_list([cq_pair(cq_bytes(k), v) for k, v in sorted(nodes.items())])
        mux = {"pass": 0, "redirect": 1, "notfound": 2, "none": 3}[obs["mux"]]
        cls = {"ok": 0, "redirect": 1, "notfound": 2, "error": 3, "badreq": 4, "partial": 6}.get(obs["class"], 5)
        hdrs = ([] if case["origin"] is None else [(b"Origin", unhx(case["origin"]))]) + \
               [(unhx(h[0]), unhx(h[1])) for h in case.get("headers") or []]
        method = b"GET" if case.get("method") is None else unhx(case["method"])
        parsed = obs["mux"] != "none"
        return (b"{| raw := " + cq_bytes(unhx(case["raw"])) +
                b"; meth := " + cq_bytes(method) +
                b"; hdrs := " + cq_list([cq_pair(cq_bytes(k), cq_bytes(v)) for k, v in hdrs]) +
                b"; wl := " + cq_list([cq_bytes(unhx(w)) for w in case["whitelist"]]) +
                b"; files := " + tree +
                b"; go_parsed := " + cq_bool(parsed) +
                b"; go_ep := " + cq_bytes(unhx(obs["ep"])) +
                b"; go_dec := " + cq_bytes(unhx(obs["dec"])) +
                b"; go_clean := " + cq_bytes(unhx(obs["clean"])) +
                b"; go_clean_rel := " + cq_bytes(unhx(obs["clean_rel"])) +
                b"; go_mux := " + cq_nat(mux) +
                b"; go_class := " + cq_nat(cls) +
                b"; go_body := " + cq_bytes(unhx(obs["body"])) +
                b"; go_ac := " + cq_list([cq_pair(cq_bytes(unhx(h["name"])),
                                                   cq_list([cq_bytes(unhx(v)) for v in h["values"]]))
                                           for h in obs.get("ac") or []]) + b" |}")

    def model_expr(self):
        return "model_says c"

    def nontrivial(self, case, obs):
        raw = unhx(case["raw"])
        plain = (obs["class"] == "ok" and case["origin"] is None and b"%" not in raw and b".." not in raw and
                 case.get("method") in (None, hx("GET")) and not case.get("headers"))
        return not plain

    def sample(self, case, obs):
        return {"method": "GET" if case.get("method") is None else unhx(case["method"]).decode("latin-1"),
                "headers": [unhx(h[0]).decode("latin-1") + ": " + unhx(h[1]).decode("latin-1")
                            for h in case.get("headers") or []],
                "raw": unhx(case["raw"]).decode("latin-1")[:120],
                "origin": None if case["origin"] is None else unhx(case["origin"]).decode("latin-1"),
                "whitelist": [unhx(w).decode("latin-1") for w in case["whitelist"]],
                "files": [unhx(f["path"]).decode("latin-1")[:40] for f in case["files"]],
                "dirs": [unhx(d).decode("latin-1") for d in case["dirs"]],
                "canaries": [unhx(k["path"]).decode("latin-1") for k in case["canaries"]],
                "links": [unhx(l["path"]).decode("latin-1")[:60] + " -> " + unhx(l["target"]).decode("latin-1")[:60]
                          for l in case.get("links", [])][:8],
                "go": {"status": obs["status"], "mux": obs["mux"], "decoded": unhx(obs["dec"]).decode("latin-1")[:120],
                       "body": unhx(obs["body"]).decode("latin-1")[:60],
                       "access_control": {unhx(h["name"]).decode("latin-1"): [unhx(v).decode("latin-1") for v in h["values"]]
                                          for h in obs.get("ac") or []}}}

    def shrink(self, case):
        def variant(**kw):
            c = dict(case)
            c.update(kw)
            return c
        hs = case.get("headers") or []
        if hs:
            yield variant(headers=[])
            for i in range(len(hs)):
                yield variant(headers=hs[:i] + hs[i + 1:])
        if case.get("method") not in (None, hx("GET")):
            yield variant(method=hx("GET"))
        raw = unhx(case["raw"]).decode("latin-1")
        if raw != "/assets/x":
            yield variant(raw=hx("/assets/x"))
        segs = raw.split("/")
        for i in range(1, len(segs)):
            r = "/".join(segs[:i] + segs[i + 1:])
            if r.startswith("/"):
                yield variant(raw=hx(r.encode("latin-1")))
        for key in ("links", "outdirs", "files", "dirs", "canaries"):
            cur = case.get(key, [])
            if cur:
                yield variant(**{key: []})
            if len(cur) <= 12:
                for i in range(len(cur)):
                    yield variant(**{key: cur[:i] + cur[i + 1:]})
        wl = case["whitelist"]
        for i in range(len(wl)):
            yield variant(whitelist=wl[:i] + wl[i + 1:])
        if case["origin"] is not None:
            yield variant(origin=None)
            o = unhx(case["origin"])
            if len(o) > 1:
                yield variant(origin=hx(o[:len(o) // 2]))
                yield variant(origin=hx(o[1:]))
                yield variant(origin=hx(o[:-1]))
        for i, w in enumerate(wl):
            b = unhx(w)
            if len(b) > 1:
                yield variant(whitelist=wl[:i] + [hx(b[:1])] + wl[i + 1:])

    def distribution(self, cases, obss):
        d = {"status_200": 0, "status_301": 0, "status_404": 0, "status_500": 0, "status_400": 0, "status_other": 0,
             "mux_pass": 0, "mux_redirect": 0, "mux_notfound": 0, "acao_set": 0,
             "raw_plain_dotdot": 0, "raw_encoded_dot": 0, "raw_encoded_sep": 0, "raw_double_slash": 0,
             "raw_second_assets": 0, "raw_index_html": 0, "raw_names_a_canary": 0, "raw_long": 0,
             "origin_absent": 0, "origin_empty": 0, "origin_listed": 0, "origin_with_bang": 0, "origin_other": 0,
             "whitelist_empty": 0, "whitelist_star": 0, "whitelist_trailing_slash": 0, "trees": 0,
             "tree_has_links": 0, "tree_has_link_out_of_dist": 0, "raw_names_a_link": 0, "trees_with_links": 0,
             "answer_200_through_link": 0, "answer_200_with_canary_bytes": 0,
             "request_plain_get": 0, "request_preflight_headers": 0, "request_options_preflight": 0,
             "request_options_preflight_origin_not_allowed": 0, "request_several_origin_lines": 0,
             "request_conditional_or_range": 0, "request_other_headers": 0, "request_not_get_origin_allowed": 0,
             "request_not_get_origin_not_allowed": 0, "status_206": 0, "status_304": 0, "status_412": 0,
             "status_416": 0, "answer_head_200": 0, "response_access_control_headers_other_than_acao": 0,
             "acao_set_on_non_200": 0}
        for m in sorted(set(x.upper() for x in METHODS)):
            d["method_" + m] = 0
        for k in ("dir", "file", "chain", "out-file", "out-dir", "dangling", "loop", "file-slash", "dots", "above",
                  "long-chain"):
            d["tree_has_link_kind_" + k] = 0
        seen = set()
        for c, o in zip(cases, obss):
            k = {"ok": "status_200", "redirect": "status_301", "notfound": "status_404", "error": "status_500",
                 "badreq": "status_400", "partial": "status_206"}.get(o["class"], "status_other")
            d[k] += 1
            if o["mux"] in ("pass", "redirect", "notfound"):
                d["mux_" + o["mux"]] += 1
            d["acao_set"] += o["acao"] is not None
            raw = unhx(c["raw"]).lower()
            d["raw_plain_dotdot"] += b"/.." in raw
            d["raw_encoded_dot"] += b"%2e" in raw
            d["raw_encoded_sep"] += b"%2f" in raw or b"%5c" in raw
            d["raw_double_slash"] += b"//" in raw
            d["raw_second_assets"] += raw.count(b"assets") >= 2
            d["raw_index_html"] += b"index.html" in raw
            d["raw_names_a_canary"] += any(t in raw for t in (b"secret", b"canary", b"dist"))
            d["raw_long"] += len(raw) > 200
            wl = [unhx(w) for w in c["whitelist"]]
            method = "GET" if c.get("method") is None else unhx(c["method"]).decode("latin-1")
            hs = [(unhx(h[0]).decode("latin-1").lower(), unhx(h[1])) for h in c.get("headers") or []]
            d["method_" + method.upper()] = d.get("method_" + method.upper(), 0) + 1
            origins = ([] if c["origin"] is None else [unhx(c["origin"])]) + [v for k, v in hs if k == "origin"]
            allowed = any(v and (v in wl or b"*" in wl) for v in origins)
            pre = any(k == "access-control-request-method" for k, _ in hs)
            d["request_plain_get"] += method == "GET" and not hs
            d["request_preflight_headers"] += pre
            d["request_options_preflight"] += pre and method.upper() == "OPTIONS"
            d["request_options_preflight_origin_not_allowed"] += pre and method == "OPTIONS" and not allowed
            d["request_several_origin_lines"] += len(origins) > 1
            d["request_conditional_or_range"] += any(k in CONDITIONAL_NAMES for k, _ in hs)
            d["request_other_headers"] += any(k not in CONDITIONAL_NAMES and k != "origin" and
                                              not k.startswith("access-control-request-") for k, _ in hs)
            d["request_not_get_origin_allowed"] += method != "GET" and allowed
            d["request_not_get_origin_not_allowed"] += method != "GET" and not allowed
            for st in (206, 304, 412, 416):
                d["status_%d" % st] += o["status"] == st
            d["answer_head_200"] += method == "HEAD" and o["status"] == 200
            d["response_access_control_headers_other_than_acao"] += any(
                unhx(h["name"]).lower() != b"access-control-allow-origin" for h in o.get("ac") or [])
            d["acao_set_on_non_200"] += o["acao"] is not None and o["status"] != 200
            if c["origin"] is None:
                d["origin_absent"] += 1
            elif c["origin"] == "":
                d["origin_empty"] += 1
            elif unhx(c["origin"]) in wl:
                d["origin_listed"] += 1
            elif b"!" in unhx(c["origin"]):
                d["origin_with_bang"] += 1
            else:
                d["origin_other"] += 1
            d["whitelist_empty"] += not wl
            d["whitelist_star"] += b"*" in wl
            d["whitelist_trailing_slash"] += any(w.endswith(b"/") for w in wl)
            links = c.get("links", [])
            t = json.dumps([c["files"], c["dirs"], c["whitelist"], links])
            if t not in seen:
                seen.add(t)
                d["trees_with_links"] += bool(links)
            if links:
                d["tree_has_links"] += 1
                d["tree_has_link_out_of_dist"] += any(l.get("kind") in ("out-file", "out-dir", "above") for l in links)
                for k in {l.get("kind") for l in links}:
                    if "tree_has_link_kind_%s" % k in d:
                        d["tree_has_link_kind_%s" % k] += 1
                segs = unhx(c["raw"]).split(b"/")
                firsts = {unhx(l["path"])[len(DIST) + 1:] for l in links if unhx(l["path"]).startswith(DIST.encode() + b"/")}
                named = any(b"/" + f + b"/" in unhx(c["raw"]) + b"/" for f in firsts)
                d["raw_names_a_link"] += named
                d["answer_200_through_link"] += named and o["class"] == "ok"
            d["answer_200_with_canary_bytes"] += o["class"] == "ok" and unhx(o["body"]).startswith(b"CANARY[")
        d["trees"] = len(seen)
        return d


PROP = C19()
