# C16 — the readiness endpoint: histories of AddProcess / process end / Finish /
# probes on a real pugjs.Startup, judged by Models/Startup.v used as an acceptor.
from concurrent.futures import ThreadPoolExecutor
from common import *

MAXP = {"quick": 16, "thorough": 64}


def history(rng, n, fail_mode, shape, p_probe):
    """One history from the event grammar.  n processes (ids 1..n in order of
    registration), Add only before Finish, every End of a running process."""
    ids = list(range(1, n + 1))
    if fail_mode == "none":
        failing = set()
    elif fail_mode == "one":
        failing = set(rng.sample(ids, 1)) if ids else set()
    elif fail_mode == "several":
        failing = set(rng.sample(ids, rng.randint(min(2, n), max(min(2, n), n - 1)))) if ids else set()
    else:
        failing = set(ids)
    errids = rng.sample(range(1, 1000), n)      # distinct: the delivered one identifies its process
    err_of = {p: (errids[i] if p in failing else 0) for i, p in enumerate(ids)}

    to_add = list(ids)
    running = []
    finished = False
    evs = []
    # how far the history goes: complete, or cut with something running / not finished
    stop_running = shape == "cut_running"
    never_finish = shape == "never_finish"
    keep = rng.randint(0, max(0, n - 1)) if stop_running and n else 0   # processes left running
    w_add, w_end, w_fin = {
        "mixed": (3, 2, 1), "finish_first": (8, 0.2, 4), "finish_last": (3, 3, 0.05),
        "cut_running": (3, 2, 1), "never_finish": (3, 2, 0), "ends_early": (2, 5, 0.3),
    }[shape]
    while True:
        if rng.random() < p_probe:
            for _ in range(rng.choice([1, 1, 1, 2, 3])):
                evs.append({"op": "probe"})
        acts = []
        if to_add and not finished:
            acts.append(("add", w_add))
        if len(running) > keep:
            acts.append(("end", w_end if (to_add and not finished) else max(w_end, 1)))
        if not finished and not to_add and not never_finish:
            acts.append(("finish", max(w_fin, 0.05) if running else 1))
        if not acts:
            break
        tot = sum(w for _, w in acts)
        x = rng.random() * tot
        for a, w in acts:
            x -= w
            if x <= 0:
                break
        if a == "add":
            p = to_add.pop(0)
            running.append(p)
            evs.append({"op": "add", "p": p})
        elif a == "end":
            p = running.pop(rng.randrange(len(running)))
            evs.append({"op": "end", "p": p, "err": err_of[p]})
        else:
            finished = True
            evs.append({"op": "finish"})
    if rng.random() < 0.5:
        for _ in range(rng.choice([1, 2, 4])):
            evs.append({"op": "probe"})
    return {"events": evs}


def facts(case):
    evs = case["events"]
    n = sum(1 for e in evs if e["op"] == "add")
    ended = [e for e in evs if e["op"] == "end"]
    fails = [e["err"] for e in ended if e["err"]]
    fin = any(e["op"] == "finish" for e in evs)
    return n, ended, fails, fin


class C16(Prop):
    id = "C16"
    engine = "C16"
    judge_module = "Run.Judge_C16"
    prop_module = "Props.C16"
    prop_file = "Props/C16.v"
    coq_targets = ["Props/C16.vo", "Run/Judge_C16.vo"]
    sizes = {"quick": 200, "thorough": 10000}
    design_ref = "DESIGN.md section 6 C16"
    rule = ("histories drawn from the event grammar Add p (only before Finish) | End p r | Finish | Probe: "
            "0-8 processes (thorough: up to 64), random completion order, failing subset none/one/several/all "
            "with distinct error ids, Finish before/between/after the completions, probes at random points, "
            "histories cut with processes still running or never finished; run against a real pugjs.Startup "
            "probed through controllers.Ready.ServeHTTP; non-trivial = at least 2 processes and at least one "
            "probe before the final one; distinct by SHA-1 of the case")
    trusted = [
        "errgroup.Group (golang.org/x/sync): Go(f) runs f in a goroutine, the first non-nil error in completion "
        "order is kept (sync.Once), Wait blocks until every f has returned and then returns that error - "
        "modelled by the completion-ordered result list of Models/Startup.v, not verified",
        "Go channel semantics (unbuffered send completes when the listener receives; receive from a closed "
        "channel never blocks) as read into the WaiterStep transitions",
        "the driver establishes the completion order by ending one process at a time and waiting until its "
        "goroutine has left errgroup's wrapper (runtime.NumGoroutine dropped); a case where that could not be "
        "established within 2 s is reported unmodelled, not judged",
    ]
    assumptions = [
        "Timing words are observed, never proved: 'eventually 200' is a probe polled for at most 2 s after every "
        "started process has ended and Finish was called (still 425 after that is reported as a violation); "
        "C16_live only states that the model's waiter step is enabled and that at most two of them reach 200 - "
        "that Go schedules the goroutine and the listener is an assumption",
        "425 observations are single requests made after a 100 us yield; a wrongly early close(done) that "
        "needs longer than that to become visible is only caught by a later probe of the same history",
        "the listener is the one EventSubscriber.Notify attaches (a goroutine receiving from the channel "
        "Finish returns), here receiving until the channel is closed and recording instead of panicking",
        "AddProcess after Finish, a second Finish, and processes that never return are outside the model "
        "(M declines such histories; the generator does not produce them)",
    ]
    not_yet_proved = []

    def generate(self, rng, n, tier):
        maxp = MAXP[tier]
        cases = []
        # fixed hostile corner histories first
        P, F = {"op": "probe"}, {"op": "finish"}
        corners = [
            [{"op": "add", "p": 1}, {"op": "add", "p": 2}, {"op": "add", "p": 3}, F, P,
             {"op": "end", "p": 3, "err": 0}, P, {"op": "end", "p": 1, "err": 11}, P,
             {"op": "end", "p": 2, "err": 22}, P],
            [{"op": "add", "p": 1}, F, P, {"op": "end", "p": 1, "err": 5}, P, P],
            [{"op": "add", "p": 1}, {"op": "end", "p": 1, "err": 5}, P, F, P],
            [{"op": "add", "p": 1}, {"op": "end", "p": 1, "err": 0}, P, P],   # all ended, never finished
            [{"op": "add", "p": 1}, P],           # never finished, running
            [P, F, P],                            # no process
            [F],
            [P, P, P],
            [],                                   # nothing at all: 425
        ]
        for evs in corners:
            cases.append({"events": [dict(e) for e in evs]})
        while len(cases) < n:
            r = rng.random()
            if r < 0.08:
                k = 0
            elif r < 0.2:
                k = 1
            elif r < 0.85:
                k = rng.randint(2, min(8, maxp))
            else:
                # more processes than any small fixed limit, most of them running at the same time
                k = rng.randint(9, max(9, maxp))
            fail_mode = rng.choice(["none", "one", "one", "several", "several", "all"])
            shape = rng.choice(["mixed", "mixed", "mixed", "finish_first", "finish_last", "ends_early",
                                "cut_running", "never_finish"])
            if k > 8 and rng.random() < 0.6:
                shape = rng.choice(["finish_first", "finish_last"])     # add-heavy: many run concurrently
            p_probe = rng.choice([0.1, 0.3, 0.3, 0.6]) if k <= 8 else rng.choice([0.6, 0.9])
            cases.append(history(rng, k, fail_mode, shape, p_probe))
        return cases[:n]

    def run(self, binary, cases, tmp, tier):
        # several harness processes side by side (each mostly waits); order is kept
        k = max(1, min(8, len(cases) // 4))
        size = (len(cases) + k - 1) // k
        chunks = [cases[i:i + size] for i in range(0, len(cases), size)]
        with ThreadPoolExecutor(max_workers=k) as ex:
            res = list(ex.map(lambda ch: run_harness(binary, self.engine, ch), chunks))
        return [o for r in res for o in r]

    def emit(self, case, obs):
        def res(e):
            return b"ok" if not e["err"] else b"(failed " + cq_N(e["err"]) + b")"

        def pr(p):
            return b"OProbe " + cq_N(p["code"]) + b" " + cq_bool(p["awaited"])

        items = []
        probes = iter(obs["probes"])
        for e in case["events"][:obs["done"]]:
            if e["op"] == "add":
                items.append(b"OAdd " + cq_N(e["p"]))
            elif e["op"] == "end":
                items.append(b"OEnd " + cq_N(e["p"]) + b" " + res(e))
            elif e["op"] == "finish":
                items.append(b"OFinish")
            else:
                items.append(pr(next(probes)))
        settled = obs["settled"]
        if obs["class"] == "ok":
            items.append(pr(obs["final"]))
        elif obs["class"] == "panic":
            items.append(b"OProbe 0%N false")      # a panic out of AddProcess/Finish: no legal status
        else:
            settled = False                          # history outside the grammar: not judged
        return (b"{| trace := " + cq_list(items) + b"; final_delivered := " +
                cq_list([cq_N(max(0, x)) for x in obs["delivered"]]) +
                b"; settled := " + cq_bool(settled) + b" |}")

    def nontrivial(self, case, obs):
        n, ended, fails, fin = facts(case)
        return n >= 2 and any(e["op"] == "probe" for e in case["events"])

    def sample(self, case, obs):
        def show(e):
            if e["op"] == "add":
                return "Add %d" % e["p"]
            if e["op"] == "end":
                return "End %d %s" % (e["p"], "ok" if not e["err"] else "failed(%d)" % e["err"])
            return e["op"].capitalize()
        probes = iter(obs["probes"])
        hist = []
        for e in case["events"][:obs["done"]]:
            hist.append("Probe=%d" % next(probes)["code"] if e["op"] == "probe" else show(e))
        return {"history": hist, "final_probe": obs["final"], "delivered": obs["delivered"],
                "class": obs["class"], "settled": obs["settled"]}

    def shrink(self, case):
        evs = case["events"]
        out = []
        pids = [e["p"] for e in evs if e["op"] == "add"]
        for p in pids:                       # drop a whole process
            out.append([e for e in evs if e.get("p") != p])
        for i, e in enumerate(evs):          # drop a probe
            if e["op"] == "probe":
                out.append(evs[:i] + evs[i + 1:])
        for i, e in enumerate(evs):          # a failing process succeeds instead
            if e["op"] == "end" and e["err"]:
                out.append(evs[:i] + [dict(e, err=0)] + evs[i + 1:])
        for i in range(len(evs) - 1, 0, -1):  # cut the tail (the grammar is prefix-closed)
            out.append(evs[:i])
            if len(out) > 60:
                break
        for o in out[:40]:
            yield {"events": o}

    def model_expr(self):
        return ("match run_trace su_init (trace c) with "
                "| Accepted s => (0, map (fun x => (probe x, waiter x, delivered x)) (ws_closure s)) "
                "| Rejected => (1, []) | Declined => (2, []) end")

    def distribution(self, cases, obss):
        d = {"processes_0": 0, "processes_1": 0, "processes_2_8": 0, "processes_9_64": 0,
             "fail_none": 0, "fail_one": 0, "fail_several": 0, "fail_all": 0,
             "complete": 0, "cut_running": 0, "never_finished": 0,
             "finish_before_all_ends": 0, "finish_after_all_ends": 0, "finish_between": 0,
             "probe_events": 0, "probes_425": 0, "probes_200": 0, "awaited_probes": 0,
             "delivered_nonempty": 0, "not_settled": 0, "events_max": 0}
        for c, o in zip(cases, obss):
            n, ended, fails, fin = facts(c)
            d["processes_0"] += n == 0
            d["processes_1"] += n == 1
            d["processes_2_8"] += 2 <= n <= 8
            d["processes_9_64"] += n >= 9
            d["fail_none"] += not fails
            d["fail_one"] += len(fails) == 1
            d["fail_several"] += 1 < len(fails) < n
            d["fail_all"] += n > 0 and len(fails) == n
            d["never_finished"] += not fin
            d["cut_running"] += len(ended) < n
            d["complete"] += fin and len(ended) == n
            if fin and n:
                ops = [e["op"] for e in c["events"]]
                fi = ops.index("finish")
                before = sum(1 for e in c["events"][:fi] if e["op"] == "end")
                d["finish_before_all_ends"] += before == 0
                d["finish_after_all_ends"] += before == n
                d["finish_between"] += 0 < before < n
            allp = o["probes"] + ([o["final"]] if o["class"] == "ok" else [])
            d["probe_events"] += len(allp)
            d["probes_425"] += sum(1 for p in allp if p["code"] == 425)
            d["probes_200"] += sum(1 for p in allp if p["code"] == 200)
            d["awaited_probes"] += sum(1 for p in allp if p["awaited"])
            d["delivered_nonempty"] += bool(o["delivered"])
            d["not_settled"] += not o["settled"]
            d["events_max"] = max(d["events_max"], len(c["events"]))
        return {k: int(v) for k, v in d.items()}


PROP = C16()
