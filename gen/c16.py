# C16 — the readiness endpoint: histories of AddProcess / process end / Finish /
# probes on a real pugjs.Startup, judged by Models/Startup.v used as an acceptor.
from concurrent.futures import ThreadPoolExecutor
from common import *

MAXP = {"quick": 16, "thorough": 64}

# ---------------------------------------------------------------- how a probe asks
# The readiness answer has to depend on the startup state only.  A probe event
# therefore carries a request shape (see harness/c16.go c16Event): the way it
# reaches the handler (recorder / raw text on a kept-alive TCP connection to a
# real http.Server / net/http client), method, query string, headers, body,
# HTTP version, connection slot and whether the connection is closed after it.
# {"op": "probe"} alone is the plain GET through a recorder.
METHODS = [("GET", 46), ("HEAD", 20), ("POST", 14), ("PUT", 4), ("OPTIONS", 5), ("DELETE", 3),
           ("PATCH", 3), ("PROBE", 2), ("TRACE", 1), ("get", 2)]
ACCEPTS = ["*/*", "application/json", "text/plain", "text/html", "application/xml",
           "text/html,application/xhtml+xml,application/xml;q=0.9,*/*;q=0.8",
           "application/json, text/plain;q=0.5", "text/plain, application/json;q=0.1",
           "application/health+json", "application/vnd.kubernetes.protobuf, application/json",
           "application/yaml", "text/event-stream", "image/*", "application/*", "text/*;q=0",
           "application/openmetrics-text; version=1.0.0, text/plain;version=0.0.4;q=0.5", ""]
CTYPES = ["application/json", "application/json; charset=utf-8", "application/x-www-form-urlencoded",
          "text/plain", "multipart/form-data; boundary=xx", "application/octet-stream", "application/xml"]
OTHER_HEADERS = [
    ("User-Agent", ["kube-probe/1.27", "curl/8.4.0", "Go-http-client/1.1", "ELB-HealthChecker/2.0",
                    "Mozilla/5.0 (X11; Linux x86_64)", "GoogleHC/1.0", "Consul Health Check", ""]),
    ("Accept-Encoding", ["gzip", "identity", "gzip, deflate, br", "*;q=0"]),
    ("Accept-Language", ["de-DE,de;q=0.9,en;q=0.8", "en"]),
    ("Accept-Charset", ["utf-8", "iso-8859-1"]),
    ("Cache-Control", ["no-cache", "max-age=0", "only-if-cached", "no-store"]),
    ("Pragma", ["no-cache"]),
    ("If-None-Match", ["*", '"ready"', 'W/"1"']),
    ("If-Match", ["*"]),
    ("If-Modified-Since", ["Thu, 01 Oct 2026 00:00:00 GMT", "Mon, 01 Jan 2001 00:00:00 GMT"]),
    ("If-Unmodified-Since", ["Mon, 01 Jan 2001 00:00:00 GMT"]),
    ("Range", ["bytes=0-0", "bytes=0-", "bytes=-1"]),
    ("X-Forwarded-For", ["10.0.0.7", "203.0.113.9, 10.0.0.1"]),
    ("X-Forwarded-Proto", ["https", "http"]),
    ("X-Forwarded-Host", ["shop.example.com"]),
    ("Forwarded", ["for=192.0.2.60;proto=http;by=203.0.113.43"]),
    ("Via", ["1.1 proxy"]),
    ("X-Request-Id", ["7f3c", "0"]),
    ("X-Correlation-Id", ["abc-123"]),
    ("Traceparent", ["00-0af7651916cd43dd8448eb211c80319c-b7ad6b7169203331-01"]),
    ("Origin", ["https://example.com", "null"]),
    ("Referer", ["https://example.com/pugjs/ready"]),
    ("Cookie", ["session=abc; ready=1", "flamingo=x"]),
    ("Authorization", ["Bearer x", "Basic dXNlcjpwYXNz"]),
    ("X-Requested-With", ["XMLHttpRequest"]),
    ("X-Http-Method-Override", ["GET", "HEAD", "POST", "DELETE"]),
    ("Prefer", ["return=minimal", "wait=10"]),
    ("Te", ["trailers"]),
    ("Dnt", ["1"]),
    ("Sec-Fetch-Mode", ["navigate", "cors"]),
    ("Sec-Fetch-Dest", ["document", "empty"]),
    ("Upgrade-Insecure-Requests", ["1"]),
    ("Access-Control-Request-Method", ["GET", "POST"]),
    ("Access-Control-Request-Headers", ["accept, content-type"]),
    ("Max-Forwards", ["0", "10"]),
    ("X-Probe", ["readiness", "liveness", "startup"]),
    ("X-Ready", ["true", "1", "force"]),
    ("X-Debug", ["1"]),
    ("Keep-Alive", ["timeout=5, max=100"]),
    ("From", ["ops@example.com"]),
]
QUERIES = ["format=json", "format=text", "verbose", "verbose=1", "full=1", "ready=true", "ready=1", "force=1",
           "probe=readiness", "probe=liveness", "callback=cb", "timeout=1s", "_=1696242000", "a=1&a=2",
           "json", "pretty", "%7B%7D", "q=%20", "x=" + "y" * 300, "wait=1", "cache=0", "debug=true", "&", "="]
BODIES = ["{}", '{"ready":true}', "ready=1", "x", '{"probe":"readiness"}', "a" * 600]


def wchoice(rng, pairs):
    tot = sum(w for _, w in pairs)
    x = rng.random() * tot
    for v, w in pairs:
        x -= w
        if x <= 0:
            return v
    return pairs[-1][0]


def spell(rng, name, via):
    """header names are case-insensitive: on the raw connection they are also written in other spellings"""
    if via != "raw":
        return name
    r = rng.random()
    return name.lower() if r < 0.25 else name.upper() if r < 0.32 else name


def probe_shape(rng, conn=None, plain=0.25):
    """One probe event with a random request shape.  conn: force this raw connection slot."""
    e = {"op": "probe"}
    if conn is None and rng.random() < plain:
        return e
    via = "raw" if conn is not None else wchoice(rng, [("rec", 22), ("raw", 50), ("client", 28)])
    e["via"] = via
    m = wchoice(rng, METHODS)
    if m == "get" and via == "client":
        m = "GET"                    # net/http's client normalises it anyway
    e["m"] = m
    if rng.random() < 0.35:
        e["q"] = rng.choice(QUERIES)
    h = []
    if rng.random() < 0.55:
        h.append([spell(rng, "Accept", via), rng.choice(ACCEPTS)])
        if rng.random() < 0.1:
            h.append([spell(rng, "Accept", via), rng.choice(ACCEPTS)])     # a second Accept line
    has_body = (m in ("POST", "PUT", "PATCH") and rng.random() < 0.8) or rng.random() < 0.06
    if has_body:
        e["body"] = rng.choice(BODIES)
    if has_body and rng.random() < 0.85 or rng.random() < 0.12:
        h.append([spell(rng, "Content-Type", via), rng.choice(CTYPES)])
    for _ in range(rng.choice([0, 0, 1, 1, 2, 3, 5])):
        if rng.random() < 0.08:
            h.append(["X-" + rng.choice(["Env", "Stage", "Tenant", "Flag", "Mode"]),
                      rng.choice(["prod", "1", "true", "json", "v" * 2000])])
        else:
            name, vals = rng.choice(OTHER_HEADERS)
            h.append([spell(rng, name, via), rng.choice(vals)])
    rng.shuffle(h)
    if h:
        e["h"] = h
    if via == "raw":
        e["proto"] = "1.0" if rng.random() < 0.25 else "1.1"
        e["conn"] = conn if conn is not None else rng.randint(0, 2)
        if e["proto"] == "1.0" and rng.random() < 0.4:
            e.setdefault("h", []).append(["Connection", "keep-alive"])
    if via in ("raw", "client") and rng.random() < 0.15:
        e["close"] = True
    return e


def probes_here(rng):
    """The probes made at one point of a history: mostly one to three; sometimes a run of many
    differently shaped requests on ONE kept-alive connection."""
    if rng.random() < 0.12:
        slot = rng.randint(0, 2)
        out = []
        for _ in range(rng.randint(4, 10)):
            e = probe_shape(rng, conn=slot)
            e["proto"] = "1.1"
            e.pop("close", None)
            e["h"] = [x for x in e.get("h", []) if x[0] != "Connection"]
            out.append(e)
        return out
    return [probe_shape(rng) for _ in range(rng.choice([1, 1, 1, 2, 3]))]


def history(rng, n, fail_mode, shape, p_probe):
    """One history from the event grammar.  n processes (ids 1..n in order of
    registration), Add only before Finish, every End of a running process."""
    ids = list(range(1, n + 1))
    if fail_mode == "none":
        failing = set()
    elif fail_mode == "one":
        failing = set(rng.sample(ids, 1)) if ids else set()
    elif fail_mode == "several":
        failing = set(rng.sample(ids, rng.randint(min(2, n), max(min(2, n), n - 1)))) if ids else set()
    else:
        failing = set(ids)
    errids = rng.sample(range(1, 1000), n)      # distinct: the delivered one identifies its process
    err_of = {p: (errids[i] if p in failing else 0) for i, p in enumerate(ids)}

    to_add = list(ids)
    running = []
    finished = False
    evs = []
    # how far the history goes: complete, or cut with something running / not finished
    stop_running = shape == "cut_running"
    never_finish = shape == "never_finish"
    keep = rng.randint(0, max(0, n - 1)) if stop_running and n else 0   # processes left running
    w_add, w_end, w_fin = {
        "mixed": (3, 2, 1), "finish_first": (8, 0.2, 4), "finish_last": (3, 3, 0.05),
        "cut_running": (3, 2, 1), "never_finish": (3, 2, 0), "ends_early": (2, 5, 0.3),
    }[shape]
    while True:
        if rng.random() < p_probe:
            evs.extend(probes_here(rng))
        acts = []
        if to_add and not finished:
            acts.append(("add", w_add))
        if len(running) > keep:
            acts.append(("end", w_end if (to_add and not finished) else max(w_end, 1)))
        if not finished and not to_add and not never_finish:
            acts.append(("finish", max(w_fin, 0.05) if running else 1))
        if not acts:
            break
        tot = sum(w for _, w in acts)
        x = rng.random() * tot
        for a, w in acts:
            x -= w
            if x <= 0:
                break
        if a == "add":
            p = to_add.pop(0)
            running.append(p)
            evs.append({"op": "add", "p": p})
        elif a == "end":
            p = running.pop(rng.randrange(len(running)))
            evs.append({"op": "end", "p": p, "err": err_of[p]})
        else:
            finished = True
            evs.append({"op": "finish"})
    if rng.random() < 0.5:
        for _ in range(rng.choice([1, 2, 4])):
            evs.append(probe_shape(rng))
    return {"events": evs}


def facts(case):
    evs = case["events"]
    n = sum(1 for e in evs if e["op"] == "add")
    ended = [e for e in evs if e["op"] == "end"]
    fails = [e["err"] for e in ended if e["err"]]
    fin = any(e["op"] == "finish" for e in evs)
    return n, ended, fails, fin


class C16(Prop):
    id = "C16"
    engine = "C16"
    judge_module = "Run.Judge_C16"
    prop_module = "Props.C16"
    prop_file = "Props/C16.v"
    coq_targets = ["Props/C16.vo", "Run/Judge_C16.vo"]
    sizes = {"quick": 400, "thorough": 10000}
    design_ref = "DESIGN.md section 6 C16"
    rule = ("histories drawn from the event grammar Add p (only before Finish) | End p r | Finish | Probe: "
            "0-8 processes (thorough: up to 64), random completion order, failing subset none/one/several/all "
            "with distinct error ids, Finish before/between/after the completions, probes at random points, "
            "histories cut with processes still running or never finished; run against a real pugjs.Startup "
            "probed through controllers.Ready.ServeHTTP.  Every probe event carries HOW it asks (about a quarter "
            "are the plain GET through a recorder): reached through an httptest.ResponseRecorder, as request text "
            "on a TCP connection to a real http.Server (http.ServeMux route /pugjs/ready as flamingo's "
            "systemendpoint mounts it; HTTP/1.1 or 1.0; three connection slots kept alive and reused across the "
            "probes of the history, or closed by the request) or by a net/http client with a keep-alive pool; "
            "method GET/HEAD/POST/PUT/OPTIONS/DELETE/PATCH/unknown/lower-case; query strings; Accept and "
            "Content-Type values (json, text, html, wildcards, q-values, repeated lines, empty), about 40 other "
            "header names (probe user agents, conditional and range headers, forwarding, CORS, cookies, "
            "authorization, method override, made-up X- headers, long values) in varying spelling; bodies; one "
            "point in eight gets a run of 4-10 differently shaped probes on ONE connection; fixed corner "
            "histories ask the same shapes at every stage of one startup.  The status judged is the one the "
            "client reads; the judge is not told how the probe asked.  Non-trivial = at least 2 processes and "
            "at least one probe before the final one; distinct by SHA-1 of the case")
    trusted = [
        "errgroup.Group (golang.org/x/sync): Go(f) runs f in a goroutine, the first non-nil error in completion "
        "order is kept (sync.Once), Wait blocks until every f has returned and then returns that error - "
        "modelled by the completion-ordered result list of Models/Startup.v, not verified",
        "Go channel semantics (unbuffered send completes when the listener receives; receive from a closed "
        "channel never blocks) as read into the WaiterStep transitions",
        "the driver establishes the completion order by ending one process at a time and waiting until the "
        "goroutine that ran it (identified by its id) is gone from the runtime's goroutine dump, i.e. has left "
        "errgroup's wrapper; a case where that could not be established within 2 s is reported unmodelled, "
        "not judged",
        "net/http's response writer (server and httptest.ResponseRecorder): the status line is fixed by the "
        "handler's first call - WriteHeader(st) gives st, a Write before it an implicit 200 (client_status in "
        "Models/Startup.v); http.ServeMux routes every method and query of /pugjs/ready to the handler; the "
        "harness' own raw client (request text written to a socket, http.ReadResponse) and net/http's client "
        "report the status line as sent",
    ]
    assumptions = [
        "Timing words are observed, never proved: 'eventually 200' is a probe polled for at most 2 s after every "
        "started process has ended and Finish was called (still 425 after that is reported as a violation); "
        "C16_live only states that the model's waiter step is enabled and that at most two of them reach 200 - "
        "that Go schedules the goroutine and the listener is an assumption",
        "425 observations are single requests made after a 100 us yield; a wrongly early close(done) that "
        "needs longer than that to become visible is only caught by a later probe of the same history",
        "the listener is the one EventSubscriber.Notify attaches (a goroutine receiving from the channel "
        "Finish returns), here receiving until the channel is closed and recording instead of panicking",
        "AddProcess after Finish, a second Finish, and processes that never return are outside the model "
        "(M declines such histories; the generator does not produce them)",
        "request shapes are a finite vocabulary (methods, ~45 header names with a few values each, ~25 query "
        "strings, HTTP/1.0 and 1.1, no TLS, no HTTP/2, no Expect/Upgrade/chunked request bodies, path always "
        "exactly /pugjs/ready): a handler that keys its answer on anything outside it is not exercised; in the "
        "model C16_answer_of_state_only holds for every request value",
        "a transport error of a server probe is retried once on a fresh connection; a second error is reported "
        "as status 0 (no legal status: violation)",
    ]
    not_yet_proved = []

    def generate(self, rng, n, tier):
        maxp = MAXP[tier]
        cases = []
        # fixed hostile corner histories first
        P, F = {"op": "probe"}, {"op": "finish"}
        corners = [
            [{"op": "add", "p": 1}, {"op": "add", "p": 2}, {"op": "add", "p": 3}, F, P,
             {"op": "end", "p": 3, "err": 0}, P, {"op": "end", "p": 1, "err": 11}, P,
             {"op": "end", "p": 2, "err": 22}, P],
            [{"op": "add", "p": 1}, F, P, {"op": "end", "p": 1, "err": 5}, P, P],
            [{"op": "add", "p": 1}, {"op": "end", "p": 1, "err": 5}, P, F, P],
            [{"op": "add", "p": 1}, {"op": "end", "p": 1, "err": 0}, P, P],   # all ended, never finished
            [{"op": "add", "p": 1}, P],           # never finished, running
            [P, F, P],                            # no process
            [F],
            [P, P, P],
            [],                                   # nothing at all: 425
        ]
        # the same request shapes at every stage of one startup: nothing registered, running, finished
        # but running, everything ended - through the recorder, a kept-alive raw connection and a client
        def J(via, **kw):
            return dict({"op": "probe", "via": via, "h": [["Accept", "application/json"]]}, **kw)
        stages = [[], [{"op": "add", "p": 1}, {"op": "add", "p": 2}], [F], [{"op": "end", "p": 2, "err": 0}],
                  [{"op": "end", "p": 1, "err": 3}]]
        asks = [
            [P, J("rec"), J("raw", conn=0, proto="1.1"), J("client")],
            [{"op": "probe", "via": "raw", "m": "HEAD", "conn": 0, "proto": "1.1"},
             {"op": "probe", "via": "raw", "m": "POST", "conn": 0, "proto": "1.1", "body": "{}",
              "h": [["Content-Type", "application/json"]]},
             {"op": "probe", "via": "raw", "m": "GET", "conn": 1, "proto": "1.0", "q": "format=json"},
             {"op": "probe", "via": "client", "m": "HEAD", "h": [["User-Agent", "kube-probe/1.27"]]}],
            [{"op": "probe", "via": "rec", "m": "OPTIONS", "h": [["Origin", "https://example.com"]]},
             {"op": "probe", "via": "client", "m": "POST", "body": "ready=1", "close": True,
              "h": [["Content-Type", "application/x-www-form-urlencoded"], ["X-Http-Method-Override", "GET"]]},
             {"op": "probe", "via": "raw", "conn": 2, "proto": "1.1", "close": True,
              "h": [["if-none-match", "*"], ["cache-control", "only-if-cached"]]}],
        ]
        for ask in asks:
            evs = []
            for st in stages:
                evs += st + ask
            corners.append(evs)
        for evs in corners:
            cases.append({"events": [dict(e) for e in evs]})
        while len(cases) < n:
            r = rng.random()
            if r < 0.08:
                k = 0
            elif r < 0.2:
                k = 1
            elif r < 0.85:
                k = rng.randint(2, min(8, maxp))
            else:
                # more processes than any small fixed limit, most of them running at the same time
                k = rng.randint(9, max(9, maxp))
            fail_mode = rng.choice(["none", "one", "one", "several", "several", "all"])
            shape = rng.choice(["mixed", "mixed", "mixed", "finish_first", "finish_last", "ends_early",
                                "cut_running", "never_finish"])
            if k > 8 and rng.random() < 0.6:
                shape = rng.choice(["finish_first", "finish_last"])     # add-heavy: many run concurrently
            p_probe = rng.choice([0.1, 0.3, 0.3, 0.6]) if k <= 8 else rng.choice([0.6, 0.9])
            cases.append(history(rng, k, fail_mode, shape, p_probe))
        return cases[:n]

    def run(self, binary, cases, tmp, tier):
        # several harness processes side by side (each mostly waits); order is kept
        k = max(1, min(8, len(cases) // 4))
        size = (len(cases) + k - 1) // k
        chunks = [cases[i:i + size] for i in range(0, len(cases), size)]
        with ThreadPoolExecutor(max_workers=k) as ex:
            res = list(ex.map(lambda ch: run_harness(binary, self.engine, ch), chunks))
        return [o for r in res for o in r]

    def emit(self, case, obs):
        def res(e):
            return b"ok" if not e["err"] else b"(failed " + cq_N(e["err"]) + b")"

        def pr(p):
            return b"OProbe " + cq_N(p["code"]) + b" " + cq_bool(p["awaited"])

        items = []
        probes = iter(obs["probes"])
        for e in case["events"][:obs["done"]]:
            if e["op"] == "add":
                items.append(b"OAdd " + cq_N(e["p"]))
            elif e["op"] == "end":
                items.append(b"OEnd " + cq_N(e["p"]) + b" " + res(e))
            elif e["op"] == "finish":
                items.append(b"OFinish")
            else:
                items.append(pr(next(probes)))
        settled = obs["settled"]
        if obs["class"] == "ok":
            items.append(pr(obs["final"]))
        elif obs["class"] == "panic":
            items.append(b"OProbe 0%N false")      # a panic out of AddProcess/Finish: no legal status
        else:
            settled = False                          # history outside the grammar: not judged
        return (b"{| trace := " + cq_list(items) + b"; final_delivered := " +
                cq_list([cq_N(max(0, x)) for x in obs["delivered"]]) +
                b"; settled := " + cq_bool(settled) + b" |}")

    def nontrivial(self, case, obs):
        n, ended, fails, fin = facts(case)
        return n >= 2 and any(e["op"] == "probe" for e in case["events"])

    def sample(self, case, obs):
        def show(e):
            if e["op"] == "add":
                return "Add %d" % e["p"]
            if e["op"] == "end":
                return "End %d %s" % (e["p"], "ok" if not e["err"] else "failed(%d)" % e["err"])
            return e["op"].capitalize()
        def ask(e):
            if len(e) == 1:
                return ""
            t = "%s %s%s" % (e.get("via", "rec"), e.get("m", "GET"), "?" + e["q"][:24] if e.get("q") else "")
            if e.get("via") == "raw":
                t += " HTTP/%s conn%d" % (e.get("proto", "1.1"), e.get("conn", 0))
            t += " close" if e.get("close") else ""
            t += "".join(" %s:%s" % (k, v[:40]) for k, v in e.get("h", []))
            t += " body[%d]" % len(e["body"]) if e.get("body") else ""
            return " <" + t + ">"
        probes = iter(obs["probes"])
        hist = []
        for e in case["events"][:obs["done"]]:
            hist.append("Probe=%d%s" % (next(probes)["code"], ask(e)) if e["op"] == "probe" else show(e))
        return {"history": hist, "final_probe": obs["final"], "delivered": obs["delivered"],
                "class": obs["class"], "settled": obs["settled"]}

    def shrink(self, case):
        evs = case["events"]
        out = []
        pids = [e["p"] for e in evs if e["op"] == "add"]
        for p in pids:                       # drop a whole process
            out.append([e for e in evs if e.get("p") != p])
        shaped = [i for i, e in enumerate(evs) if e["op"] == "probe" and len(e) > 1]
        if len(shaped) > 1:                  # every probe asks plainly
            out.append([{"op": "probe"} if i in shaped else e for i, e in enumerate(evs)])
        for i, e in enumerate(evs):          # drop a probe
            if e["op"] == "probe":
                out.append(evs[:i] + evs[i + 1:])
        for i in shaped[:12]:                # one probe asks more plainly
            e = evs[i]
            simpler = [{"op": "probe"}]
            if e.get("via", "rec") != "rec":
                simpler.append(dict({k: v for k, v in e.items() if k not in ("proto", "conn", "close")},
                                    via="rec"))
            if e.get("m", "GET") != "GET":
                simpler.append(dict(e, m="GET"))
            for k in ("q", "body", "close"):
                if e.get(k):
                    simpler.append({a: b for a, b in e.items() if a != k})
            hs = e.get("h", [])
            for j in range(len(hs)):
                simpler.append(dict(e, h=hs[:j] + hs[j + 1:]))
            for x in simpler:
                out.append(evs[:i] + [x] + evs[i + 1:])
        for i, e in enumerate(evs):          # a failing process succeeds instead
            if e["op"] == "end" and e["err"]:
                out.append(evs[:i] + [dict(e, err=0)] + evs[i + 1:])
        for i in range(len(evs) - 1, 0, -1):  # cut the tail (the grammar is prefix-closed)
            out.append(evs[:i])
            if len(out) > 60:
                break
        for o in out[:60]:
            yield {"events": o}

    def model_expr(self):
        return ("match run_trace su_init (trace c) with "
                "| Accepted s => (0, map (fun x => (probe x, waiter x, delivered x)) (ws_closure s)) "
                "| Rejected => (1, []) | Declined => (2, []) end")

    def distribution(self, cases, obss):
        d = {"processes_0": 0, "processes_1": 0, "processes_2_8": 0, "processes_9_64": 0,
             "fail_none": 0, "fail_one": 0, "fail_several": 0, "fail_all": 0,
             "complete": 0, "cut_running": 0, "never_finished": 0,
             "finish_before_all_ends": 0, "finish_after_all_ends": 0, "finish_between": 0,
             "probe_events": 0, "probes_425": 0, "probes_200": 0, "awaited_probes": 0,
             "delivered_nonempty": 0, "not_settled": 0, "events_max": 0,
             "ask_plain": 0, "ask_recorder_shaped": 0, "ask_raw_http11": 0, "ask_raw_http10": 0, "ask_client": 0,
             "ask_on_reused_connection": 0, "ask_connection_close": 0, "ask_GET": 0, "ask_HEAD": 0,
             "ask_POST": 0, "ask_other_method": 0, "ask_with_query": 0, "ask_with_body": 0,
             "ask_with_accept": 0, "ask_accept_names_json": 0, "ask_with_content_type": 0,
             "ask_other_headers": 0, "ask_distinct_header_names": 0, "ask_shaped_while_not_ready": 0,
             "ask_shaped_answers_425": 0, "ask_shaped_answers_200": 0,
             "histories_with_run_on_one_connection": 0}
        names = set()
        for c, o in zip(cases, obss):
            n, ended, fails, fin = facts(c)
            d["processes_0"] += n == 0
            d["processes_1"] += n == 1
            d["processes_2_8"] += 2 <= n <= 8
            d["processes_9_64"] += n >= 9
            d["fail_none"] += not fails
            d["fail_one"] += len(fails) == 1
            d["fail_several"] += 1 < len(fails) < n
            d["fail_all"] += n > 0 and len(fails) == n
            d["never_finished"] += not fin
            d["cut_running"] += len(ended) < n
            d["complete"] += fin and len(ended) == n
            if fin and n:
                ops = [e["op"] for e in c["events"]]
                fi = ops.index("finish")
                before = sum(1 for e in c["events"][:fi] if e["op"] == "end")
                d["finish_before_all_ends"] += before == 0
                d["finish_after_all_ends"] += before == n
                d["finish_between"] += 0 < before < n
            open_slots, run, best = set(), 0, 0
            pi = iter(o["probes"])
            live, fin_seen = set(), False
            for e in c["events"][:o["done"]]:
                if e["op"] == "add":
                    live.add(e["p"])
                elif e["op"] == "end":
                    live.discard(e["p"])
                elif e["op"] == "finish":
                    fin_seen = True
                if e["op"] != "probe":
                    continue
                code = next(pi)["code"]
                via, m = e.get("via", "rec"), e.get("m", "GET").upper()
                shaped = len(e) > 1
                d["ask_plain"] += not shaped
                d["ask_recorder_shaped"] += shaped and via == "rec"
                d["ask_client"] += via == "client"
                d["ask_GET"] += m == "GET"
                d["ask_HEAD"] += m == "HEAD"
                d["ask_POST"] += m == "POST"
                d["ask_other_method"] += m not in ("GET", "HEAD", "POST")
                d["ask_with_query"] += bool(e.get("q"))
                d["ask_with_body"] += bool(e.get("body"))
                d["ask_connection_close"] += bool(e.get("close"))
                hn = [k.lower() for k, _ in e.get("h", [])]
                names.update(hn)
                d["ask_with_accept"] += "accept" in hn
                d["ask_accept_names_json"] += any(k.lower() == "accept" and "json" in v for k, v in e.get("h", []))
                d["ask_with_content_type"] += "content-type" in hn
                d["ask_other_headers"] += sum(1 for k in hn if k not in ("accept", "content-type"))
                d["ask_shaped_while_not_ready"] += shaped and (bool(live) or not fin_seen)
                d["ask_shaped_answers_425"] += shaped and code == 425
                d["ask_shaped_answers_200"] += shaped and code == 200
                if via == "raw":
                    v10 = e.get("proto") == "1.0"
                    d["ask_raw_http10"] += v10
                    d["ask_raw_http11"] += not v10
                    slot = e.get("conn", 0)
                    if slot in open_slots:
                        d["ask_on_reused_connection"] += 1
                        run += 1
                    else:
                        run = 1
                    best = max(best, run)
                    if v10 or e.get("close"):
                        open_slots.discard(slot)
                    else:
                        open_slots.add(slot)
                else:
                    run = 0
            d["histories_with_run_on_one_connection"] += best >= 4
            allp = o["probes"] + ([o["final"]] if o["class"] == "ok" else [])
            d["probe_events"] += len(allp)
            d["probes_425"] += sum(1 for p in allp if p["code"] == 425)
            d["probes_200"] += sum(1 for p in allp if p["code"] == 200)
            d["awaited_probes"] += sum(1 for p in allp if p["awaited"])
            d["delivered_nonempty"] += bool(o["delivered"])
            d["not_settled"] += not o["settled"]
            d["events_max"] = max(d["events_max"], len(c["events"]))
        d["ask_distinct_header_names"] = len(names)
        return {k: int(v) for k, v in d.items()}


PROP = C16()
