# C18 — Math.min/max/ceil/trunc/round and parseInt against ECMAScript, one call per case.
#
# Streams of the generator (see `rule`):
#   * WHAT number: the classic emphasis set (halves, near-halves, (-0.5, 0.5), eighths, tenths, integers) and the
#     "rich" set: magnitudes drawn log-uniformly over 1e-9 .. 1e15 with 1..17 significant digits, values within
#     1e-1 .. 1e-9 (emphasis 1e-7) or one ulp of a rounding boundary (n, n + 0.5) at every magnitude, exact
#     boundaries at large magnitudes.
#   * HOW it reaches the helper: directly from Go (int, int64, float64, pugjs.Number, parseFloat of a string), as
#     page data (the same plus float32, sized ints, uints, numeric strings through parseFloat), or written in the
#     template's JavaScript -- and then in one of the SPELLINGS an author may use for the same number (plain decimal,
#     exponent notation with any shift, extra zeros / bare point, hex, legacy octal, a computed expression with
#     + - * /, parseFloat of a string literal), as call argument or bound by `- var` first.
# The value a spelled source denotes is computed here (`denote`: the ECMAScript reading of the text, IEEE double
# arithmetic), never taken from the code under test.
import math
import re
import struct
from decimal import Decimal
from fractions import Fraction
from common import *

FN = {"min": b"FMin", "max": b"FMax", "ceil": b"FCeil", "trunc": b"FTrunc",
      "round": b"FRound", "parseInt": b"FParseInt"}
VIA = {"direct": b"Direct", "literal": b"TplLiteral", "var": b"TplVar", "data": b"TplData"}
SINT_KINDS = ("int8", "int16", "int32")
UINT_KINDS = ("uint", "uint8", "uint16", "uint32")
INT_KINDS = ("int", "int64") + SINT_KINDS + UINT_KINDS
INT_RANGE = {"int8": (-2 ** 7, 2 ** 7 - 1), "int16": (-2 ** 15, 2 ** 15 - 1), "int32": (-2 ** 31, 2 ** 31 - 1),
             "uint8": (0, 2 ** 8 - 1), "uint16": (0, 2 ** 16 - 1), "uint32": (0, 2 ** 32 - 1),
             "uint": (0, 2 ** 63), "int": (-2 ** 63, 2 ** 63 - 1), "int64": (-2 ** 63, 2 ** 63 - 1)}
# reflect.Kind the helper sees.  Page data is converted by the engine (pugjs.Convert) before a template runs:
# every int, uint and float kind arrives as pugjs.Number, i.e. Kind Float64 -- the sized kinds below are only
# generated for the data path.
KIND = {"int": b"KInt", "int64": b"KInt64", "float64": b"KFloat64", "number": b"KFloat64", "float32": b"KFloat64"}
for _k in SINT_KINDS + UINT_KINDS:
    KIND[_k] = b"KFloat64"
NUM_KINDS = ("int", "int64", "float64", "number")
STR_KINDS = ("string", "pugstring")
NUM_RE = re.compile(r"-?\d+(\.\d+)?([eE][-+]?\d+)?\Z")
EXACT_RE = re.compile(r"r(-?\d+)_(\d+)\Z|i(-?\d+)\Z")
PRINT_LIMIT = 2 ** 31          # Number prints with 10 significant digits: exact below this
TWO52 = 2 ** 52

UNIT = ["-0.5", "-0.4999", "-0.499", "-0.375", "-0.25", "-0.125", "-0.1", "-0.0", "0", "0.0",
        "0.1", "0.125", "0.25", "0.375", "0.499", "0.4999", "0.5", "-0.5001", "0.5001", "-0.75", "0.75",
        "-1", "1", "-0.9", "0.9"]
GARBAGE = ["", "+", "-", "12abc", "abc", " 12", "12 ", "1_000", "0x10", "1e3", "12.5", "-12.5", "--1",
           "+-1", "１２", "9223372036854775807", "9223372036854775808", "-9223372036854775808",
           "-9223372036854775809", "99999999999999999999", "18446744073709551616", "4503599627370496",
           "-4503599627370496", "1,000", ".5", "5.", "0b1", "+0x1", "\t7", "7\n", "1 2"]


def is_int_text(t):
    return re.match(r"-?\d+\Z", t) is not None


def f32(x):
    """x rounded to the nearest float32, as a Python float (exact)."""
    return struct.unpack("f", struct.pack("f", x))[0]


# ---------------------------------------------------------------- what a spelled source denotes (ECMAScript)

TOKEN = re.compile(r"\s*(0[xX][0-9a-fA-F]+|(?:\d+\.?\d*|\.\d+)(?:[eE][-+]?\d+)?|parseFloat\('[^']*'\)|[-+*/()])")


def denote_literal(t):
    if t[:2] in ("0x", "0X"):
        return float(int(t[2:], 16))
    if len(t) > 1 and t[0] == "0" and re.match(r"[0-7]+\Z", t):
        return float(int(t, 8))                       # Annex B legacy octal (template code is sloppy-mode script)
    return float(t)                                   # DecimalLiteral: the nearest double (round to even)


def denote(src):
    """Value of the restricted JavaScript expression src (numeric literals, unary -, + - * /, parentheses,
    parseFloat('decimal text')) under ECMAScript semantics: every number a double, IEEE arithmetic."""
    toks = []
    pos = 0
    src = src.strip()
    while pos < len(src):
        m = TOKEN.match(src, pos)
        if not m:
            raise ValueError("cannot read %r at %d" % (src, pos))
        toks.append(m.group(1))
        pos = m.end()
    i = [0]

    def peek():
        return toks[i[0]] if i[0] < len(toks) else None

    def take():
        i[0] += 1
        return toks[i[0] - 1]

    def atom():
        t = take()
        if t == "(":
            v = expr()
            if take() != ")":
                raise ValueError("paren")
            return v
        if t == "-":
            return -atom()
        if t.startswith("parseFloat("):
            return float(t[len("parseFloat('"):-2])
        return denote_literal(t)

    def term():
        v = atom()
        while peek() in ("*", "/"):
            if take() == "*":
                v = v * atom()
            else:
                v = v / atom()
        return v

    def expr():
        v = term()
        while peek() in ("+", "-"):
            if take() == "+":
                v = v + term()
            else:
                v = v - term()
        return v

    v = expr()
    if i[0] != len(toks):
        raise ValueError("trailing tokens in %r" % src)
    return v


def value_of(a):
    """Exact rational value of a numeric argument as ECMAScript / the Go caller defines it."""
    if a.get("wrap") == "parseFloat":
        return Fraction(float(unhx(a["v"]).decode()))
    if a.get("src"):
        return Fraction(denote(a["src"]))
    if a["k"] in INT_KINDS:
        return Fraction(int(a["v"]))
    if a["k"] == "float32":
        return Fraction(f32(float(a["v"])))
    return Fraction(float(a["v"]))


def is_num(a):
    return a["k"] in KIND or a.get("wrap") == "parseFloat"


def literal_safe(s):
    return all(0x20 <= ord(ch) <= 0x7e and ch not in "'\"\\`{}" for ch in s)


def prints_exactly(fr):
    """Does the engine's 10-significant-digit print of this value read back as the value?"""
    x = float(fr)
    return Fraction(x) == fr and float("%.10g" % x) == x


# ---------------------------------------------------------------- number texts

def small_or_big(rng, big=10 ** 6):
    r = rng.random()
    if r < 0.6:
        return rng.randint(0, 6)
    if r < 0.85:
        return rng.randint(0, 1000)
    return rng.randint(0, big - 1)


def t_half(rng, sign):
    return sign + "%d.5" % small_or_big(rng)


def t_near_half(rng, sign):
    return sign + "%d.%s" % (small_or_big(rng, 10 ** 5), rng.choice(["4999", "5001", "49", "51", "4", "6"]))


def t_eighth(rng, sign):
    return sign + "%d.%s" % (small_or_big(rng), rng.choice(["125", "25", "375", "625", "75", "875"]))


def t_tenth(rng, sign):
    return sign + "%d.%d" % (small_or_big(rng), rng.randint(1, 9))


def t_int(rng, sign):
    r = rng.random()
    if r < 0.6:
        n = rng.randint(0, 9)
    elif r < 0.9:
        n = rng.randint(0, 10 ** 6)
    else:
        n = rng.choice([2 ** 31 - 1, 2 ** 31 - 2, 2 ** 30, rng.randint(0, 2 ** 31 - 1)])
    return sign + str(n)


def num_text(rng, neg=None):
    """One number as decimal text.  neg: None = any sign, True/False forced."""
    if neg is None:
        neg = rng.random() < 0.55
    sign = "-" if neg else ""
    r = rng.random()
    if r < 0.30:
        return t_half(rng, sign)
    if r < 0.42:
        return t_near_half(rng, sign)
    if r < 0.54:
        u = rng.choice(UNIT)
        if neg and not u.startswith("-"):
            u = "-" + u
        if not neg and u.startswith("-"):
            u = u[1:]
        return u
    if r < 0.66:
        return t_eighth(rng, sign)
    if r < 0.76:
        return t_tenth(rng, sign)
    return t_int(rng, sign)


# ---------------------------------------------------------------- rich numbers: the whole quantified range

def plain(d):
    """Decimal -> plain positional text without exponent."""
    t = format(d, "f")
    if "." in t:
        t = t.rstrip("0").rstrip(".")
    return t or "0"


def t_loguniform(rng, sign):
    """Magnitude 10^e, e uniform over -9 .. 15, with 1..17 significant digits."""
    e = rng.randint(-9, 15)
    nd = rng.choice([1, 2, 3, 5, 7, 8, 10, 12, 13, 15, 16, 17])
    digits = rng.randint(10 ** (nd - 1), 10 ** nd - 1)
    d = Decimal(digits).scaleb(e - nd + 1)
    if abs(d) >= TWO52:
        d = d / 10
    return sign + plain(d)


def int_magnitude(rng):
    r = rng.random()
    if r < 0.25:
        return rng.randint(0, 9)
    if r < 0.4:
        return rng.randint(10, 9999)
    e = rng.randint(4, 15)               # log-uniform up to 1e15
    return rng.randint(10 ** e, min(10 ** (e + 1), TWO52 // 2) - 1) if r < 0.9 else 10 ** e


def t_near_boundary(rng, sign):
    """Within delta of an integer n or a half n + 0.5; delta 1e-1 .. 1e-9 (emphasis 1e-7) or one ulp."""
    n = int_magnitude(rng)
    b = Decimal(n) + (Decimal("0.5") if rng.random() < 0.6 else 0)
    r = rng.random()
    if r < 0.2 and b > 0:
        y = math.nextafter(float(b), math.inf if rng.random() < 0.5 else -math.inf)
        d = Decimal(repr(y)) if rng.random() < 0.5 else Decimal(y)   # shortest text, or all its digits
    else:
        k = 7 if r < 0.6 else rng.randint(1, 9)
        delta = Decimal(1).scaleb(-k) * rng.choice([1, 1, 1, 2, 4, 5, 9])
        d = b + delta if rng.random() < 0.5 else b - delta
        if d <= 0:
            d = b + delta
    return sign + plain(d)


def t_big_boundary(rng, sign):
    """Exact halves and integers at magnitudes where a double has few fraction bits left."""
    e = rng.randint(6, 15)
    n = rng.randint(10 ** e, min(10 ** (e + 1), TWO52) - 1)
    if rng.random() < 0.3:
        n = rng.choice([2 ** 31, 2 ** 32, 2 ** 51, 2 ** 52 - 1, 2 ** 50, 10 ** 15, 999999999999999]) - rng.choice([0, 0, 1])
    return sign + str(n) + rng.choice([".5", ".5", ".25", ".75", ""])


def rich_text(rng, neg=None):
    if neg is None:
        neg = rng.random() < 0.5
    sign = "-" if neg else ""
    r = rng.random()
    if r < 0.40:
        return t_loguniform(rng, sign)
    if r < 0.85:
        return t_near_boundary(rng, sign)
    return t_big_boundary(rng, sign)


RICH_SHARE = 0.5


def any_text(rng, neg=None):
    return rich_text(rng, neg) if rng.random() < RICH_SHARE else num_text(rng, neg)


# ---------------------------------------------------------------- spellings of one decimal in JavaScript source

def sp_exp(rng, mag):
    """d.ddd e X with the point moved anywhere: 1.2345e6, 12345e2, 0.0012345e9, 1E-7, 1e+3."""
    d = Decimal(mag)
    sgn, digs, ex = d.as_tuple()
    body = "".join(map(str, digs)).lstrip("0") or "0"
    cut = rng.choice([1, 1, 1, len(body), rng.randint(1, len(body)), 0])
    shift = rng.choice([0, 0, 1, 2, 3]) if cut == 0 else 0
    if cut == 0:
        m = "0." + "0" * shift + body
        e10 = ex + len(body) + shift
    elif cut >= len(body):
        m = body
        e10 = ex
    else:
        m = body[:cut] + "." + body[cut:]
        e10 = ex + len(body) - cut
    es = ("+" if e10 >= 0 and rng.random() < 0.3 else "") + str(e10)
    return m + rng.choice(["e", "e", "E"]) + es


def sp_zeros(rng, mag):
    """Same number with redundant zeros or a bare point: 2.50, 2.5000000, .5, 5., 5.0"""
    if "." in mag:
        if mag.startswith("0.") and rng.random() < 0.4:
            return mag[1:]
        return mag + "0" * rng.choice([1, 2, 6, 9])
    if mag != "0" or rng.random() < 0.5:
        return mag + rng.choice([".", ".0", ".000", ".0000000"])
    return mag + ".0"


def sp_radix(rng, mag):
    n = int(mag)
    if n > 0 and rng.random() < 0.2:
        return "0" + oct(n)[2:]                       # legacy octal
    h = hex(n)[2:]
    return rng.choice(["0x", "0x", "0X"]) + (h.upper() if rng.random() < 0.4 else h)


def sp_computed(rng, mag):
    """An expression over literals whose ECMAScript value is (close to) the number; what it denotes exactly is
    recomputed by `denote`."""
    x = float(mag)
    fr = Fraction(x)
    r = rng.random()
    if r < 0.35:
        for b in rng.sample([2, 4, 8, 16], 4):        # exact quotient a / b
            if (fr * b).denominator == 1 and abs(fr * b) < TWO52:
                return "(%d / %d)" % (int(fr * b), b)
        return "(%s / 1)" % mag
    if r < 0.5 and "." in mag:
        ip, fp = mag.split(".")
        return "(%s + 0.%s)" % (ip, fp)               # integer part plus fraction (the sum is rounded once more)
    if r < 0.6:
        return "(0 - %s)" % ("-" + mag if rng.random() < 0.5 else "(0 - %s)" % mag)
    if r < 0.7:
        return "(%s * 1)" % mag if rng.random() < 0.5 else "(2 * %s / 2)" % mag
    if r < 0.8 and "." in mag and len(mag) < 18:
        k = len(mag.split(".")[1])
        return "(%s / %s)" % (mag.replace(".", "").lstrip("0") or "0", "1" + "0" * k)    # 12345 / 100
    if r < 0.9:
        return "parseFloat('%s')" % (mag if rng.random() < 0.7 else sp_exp(rng, mag))
    return "(%s - 0)" % mag


SPELLINGS = ("plain", "exp", "zeros", "radix", "computed")


def spell(rng, text):
    """(source, spelling tag) for the decimal text (optional leading -) in JavaScript."""
    neg = text.startswith("-")
    mag = text[1:] if neg else text
    r = rng.random()
    if r < 0.34:
        tag, src = "plain", mag
    elif r < 0.58:
        tag, src = "exp", sp_exp(rng, mag)
    elif r < 0.68:
        tag, src = "zeros", sp_zeros(rng, mag)
    elif r < 0.80 and is_int_text(mag) and int(mag) < TWO52:
        tag, src = "radix", sp_radix(rng, mag)
    elif r < 0.80:
        tag, src = "plain", mag
    else:
        tag, src = "computed", sp_computed(rng, mag)
    if neg:
        src = rng.choice(["-", "-", "-", "- ", "0 - "]) + src if tag != "computed" or rng.random() < 0.7 \
            else "(0 - %s)" % src
        if src.startswith("0 - "):
            src = "(" + src + ")"
    return src, tag


def src_kind(src):
    return "int" if re.match(r"-? ?(\d+|0[xX][0-9a-fA-F]+)\Z", src) else "float64"


def show_float(x):
    """Decimal text Go's strconv.ParseFloat reads back as exactly x."""
    return repr(float(x)) if x != int(x) or abs(x) >= 1e16 else str(int(x))


def with_kind(rng, text, via):
    """One numeric argument for decimal text `text` on path `via`."""
    if via in ("literal", "var"):
        src, tag = spell(rng, text)
        try:
            y = denote(src)
        except (ValueError, ZeroDivisionError, IndexError):
            src, tag, y = text, "plain", denote(text)
        return {"k": src_kind(src), "v": show_float(y), "src": src, "sp": tag}
    ints = is_int_text(text)
    r = rng.random()
    if r < 0.08:
        # a numeric string that the template (or the Go caller) passes through parseFloat first
        t = text if rng.random() < 0.7 else ("-" if text.startswith("-") else "") + sp_exp(rng, text.lstrip("-"))
        return {"k": rng.choice(STR_KINDS), "v": hx(t), "wrap": "parseFloat"}
    if via == "data" and r < 0.40:
        if ints:
            n = int(text)
            ks = [k for k in SINT_KINDS + UINT_KINDS if INT_RANGE[k][0] <= n <= INT_RANGE[k][1]]
            if ks:
                return {"k": rng.choice(ks), "v": str(n)}
        return {"k": "float32", "v": show_float(f32(float(text)))}
    if ints:
        return {"k": rng.choice(NUM_KINDS), "v": text}
    return {"k": rng.choice(("float64", "number")), "v": text}


def pick_via(rng):
    r = rng.random()
    if r < 0.22:
        return "direct"
    if r < 0.50:
        return "literal"
    if r < 0.76:
        return "var"
    return "data"


# ---------------------------------------------------------------- argument lists

def arg_list(rng):
    n = rng.choice([1, 1, 2, 2, 2, 3, 3, 4, 5, 6])
    mode = rng.choice(["allneg", "allneg", "nonpos", "equal", "equal_but_one", "signchange",
                       "signchange", "sorted", "random", "allpos", "close"])
    if mode == "allneg":
        ts = [any_text(rng, True) for _ in range(n)]
        ts = [t for t in ts if Fraction(float(t)) < 0] or ["-1"]
    elif mode == "nonpos":
        ts = [rng.choice([any_text(rng, True), "0", "-0.0", "0.0"]) for _ in range(n)]
    elif mode == "equal":
        ts = [any_text(rng)] * n
    elif mode == "equal_but_one":
        ts = [any_text(rng)] * n
        ts[rng.randrange(n)] = any_text(rng)
    elif mode == "close":
        # arguments a few ulps / 1e-7 apart at one magnitude: the order is decided by the last digits
        base = rich_text(rng)
        x = float(base)
        ts = [base] + [show_float(x + rng.choice([-1, 1]) * rng.choice([1e-7, 1e-9, abs(x) * 2 ** -52, abs(x) * 2 ** -50]))
                       for _ in range(n - 1)]
        ts = [t if "e" not in t else plain(Decimal(t)) for t in ts]
        rng.shuffle(ts)
    elif mode == "signchange":
        ts = [any_text(rng, i % 2 == 0) for i in range(n)]
        rng.shuffle(ts)
    elif mode == "sorted":
        ts = sorted((any_text(rng) for _ in range(n)), key=lambda t: float(t), reverse=rng.random() < 0.5)
    elif mode == "allpos":
        ts = [any_text(rng, False) for _ in range(n)]
    else:
        ts = [any_text(rng) for _ in range(n)]
    return ts


def digit_string(rng):
    sign = rng.choice(["", "", "-", "-", "+"])
    zeros = "0" * rng.choice([0, 0, 0, 1, 2, 3])
    r = rng.random()
    if r < 0.15:
        body = "0"
    elif r < 0.8:
        body = str(rng.randint(0, 10 ** rng.randint(1, 9) - 1))
    else:
        body = str(rng.randint(0, 2 ** 52 - 1))
    return sign + zeros + body


class C18(Prop):
    id = "C18"
    engine = "C18"
    judge_module = "Run.Judge_C18"
    prop_module = "Props.C18"
    prop_file = "Props/C18.v"
    coq_targets = ["Props/C18.vo", "Run/Judge_C18.vo"]
    sizes = {"quick": 1600, "thorough": 40000}
    design_ref = "DESIGN.md section 6 C18, section 7 F-C18-a, F-C18-b"
    rule = ("one call of Math.min/max/ceil/trunc/round or parseInt per case. WHAT numbers: half of the numeric "
            "arguments from the emphasis set (negative and positive halves, near-halves, (-0.5, 0.5), eighths, tenths, "
            "integers up to 2^31-1, +-0), half from the rich set: magnitude log-uniform over 1e-9 .. 1e15 with 1-17 "
            "significant digits (40 %), within 1e-1 .. 1e-9 (mostly 1e-7) or exactly one ulp of a rounding boundary "
            "n or n + 0.5 with n log-uniform up to 1e15 (45 %), exact halves / quarters / integers between 1e6 and 2^52 "
            "(15 %); lists of length 1-6 (all negative, non-positive, all equal, equal but one, alternating signs, "
            "sorted, a few ulps apart). HOW the number reaches the helper: called from Go on the exported API (22 %: "
            "int, int64, float64, pugjs.Number, string, pugjs.String, parseFloat of a numeric string), or through "
            "Engine.Render with the argument written in the template's JavaScript as call argument (28 %) or bound by "
            "`- var` first (26 %), or as a field of the page data (24 %: also float32, int8/16/32, uint/8/16/32, numeric "
            "strings passed through parseFloat). A number written in the source takes one of the spellings an author can "
            "choose for it: plain decimal (34 %), exponent notation with the point moved anywhere, e/E, optional + "
            "(24 %), redundant zeros / bare point `.5` `5.` `2.50` (10 %), hex or legacy octal for integers (up to 12 %), "
            "a computed expression (20 %: exact quotient a / 2^k, digits / 10^k, integer part + fraction, 0 - x, "
            "x * 1, 2 * x / 2, x - 0, parseFloat('text')); negative numbers as unary minus or `0 - x`. The value a "
            "spelling denotes is computed by the generator's own ECMAScript reader (`denote`: nearest double of the "
            "decimal, IEEE double arithmetic) and recomputed from the source text when a case is judged or replayed. "
            "Template results are read from the engine's print when 10 significant digits are exact for the result, "
            "else (and for half of the others) through an observer function registered next to the module's functions "
            "that writes the value it receives exactly. Digit strings with sign and leading zeros; a hostile "
            "off-domain stream (garbage strings, range limits of strconv.ParseInt, no argument, non-number kinds). "
            "non-trivial = a negative or fractional argument, a spelled or wrapped one, a list of two or more, or a "
            "string; distinct by SHA-1 of the case")
    trusted = [
        "math.Ceil, math.Floor, math.Trunc and the float comparisons <, >, <=, >= are exact on finite doubles "
        "(modelled as the rational functions m_ceilf, m_floor, m_truncf, qlt, qle)",
        "reflect.Kind dispatch, float64(int) for |n| <= 2^53 and int(float64) for integral values inside int64 "
        "(outside: the model declines)",
        "gen/c18.py `denote`: Python float() of a decimal text is the correctly rounded double ECMAScript assigns to "
        "the numeric literal (and strconv.ParseFloat to the argument of parseFloat), Python float + - * / are the "
        "IEEE operations ECMAScript prescribes; hex and legacy-octal literals are exact integers. The case handed "
        "to Coq carries that value as an exact rational. Of this, the reading of every decimal token (literal in the "
        "source, text given to parseFloat) is re-checked inside Coq by Run.Judge_C18.lit_ok (the claimed value is a "
        "binary64 number within half an ulp of the decimal; a misread token makes the case a drift), so only the "
        "composition of computed expressions and the hex / octal reading rest on Python",
        "results are read either from the printed template output (only when the engine's 10-significant-digit "
        "number print is exact for the expected magnitude: integers below 2^31, min/max arguments that survive "
        "%.10g) parsed by Python float(), or from the harness's observer template function c18show, which receives "
        "the helper's return value from the template executor and writes it as an exact fraction (big.Rat.SetFloat64)",
        "page data of kind float32 / sized int / uint reaches the helper as pugjs.Number with the same value "
        "(pugjs.Convert; emitted as KFloat64 with the exact value, checked per case by the correspondence)",
    ]
    assumptions = [
        "float exactness: for a double n with 0.5 <= |n| < 2^52 math.Trunc / math.Floor of the float sum n + 0.5 (and "
        "n - 0.5 in the unrepaired code) equal Trunc / Floor of the rational sum: the sum is exact when it stays in n's "
        "binade or falls into a lower one, and when it is rounded into the next binade it cannot cross an integer; "
        "below 0.5 the code returns 0 without adding (binade argument; not a Coq axiom; a Flocq binary64 lemma would "
        "discharge it; exercised by the one-ulp-from-a-boundary stream)",
        "int is 64 bits (strconv.ParseInt(s, 10, 0) with bitSize 64)",
        "the JS parser, the number text written into the compiled template (fmt %v: shortest round-trip text, with an "
        "exponent below 1e-4 and from 1e21, and for float64 values from 1e6 that need more than six digits), the template "
        "lexer / number parser and the runtime operators (__op__sub for unary minus, __op__add/mul/quo/slash) hand "
        "the value the source denotes to the helper as that double (checked per case by the correspondence over all "
        "spellings and magnitudes, not proved)",
    ]
    not_yet_proved = []

    # ------------------------------------------------------------ generation
    def generate(self, rng, n, tier):
        cases = []
        while len(cases) < n:
            r = rng.random()
            via = pick_via(rng)
            if r < 0.26:
                fn = "round"
                t = any_text(rng, True) if rng.random() < 0.5 else any_text(rng)
                c = {"fn": fn, "args": [with_kind(rng, t, via)], "via": via}
            elif r < 0.44:
                c = {"fn": "max", "args": [with_kind(rng, t, via) for t in arg_list(rng)], "via": via}
            elif r < 0.57:
                c = {"fn": "min", "args": [with_kind(rng, t, via) for t in arg_list(rng)], "via": via}
            elif r < 0.69:
                c = {"fn": "ceil", "args": [with_kind(rng, any_text(rng), via)], "via": via}
            elif r < 0.80:
                c = {"fn": "trunc", "args": [with_kind(rng, any_text(rng), via)], "via": via}
            elif r < 0.97:
                c = self.parse_int_case(rng, via)
            else:
                c = self.hostile_case(rng)
            cases.append(self.with_obs(rng, c))
        return cases

    @staticmethod
    def with_obs(rng, c):
        """How a template result is read: from the engine's print when that is exact for the result, else (and
        in half of the other cases too) through the observer function."""
        if c["via"] == "direct":
            return c
        vals = [value_of(a) for a in c["args"] if is_num(a)]
        for a in c["args"]:
            if not is_num(a) and a["k"] in STR_KINDS and re.match(rb"[-+]?[0-9]+\Z", unhx(a["v"])):
                vals.append(Fraction(int(unhx(a["v"]))))
        if c["fn"] in ("min", "max"):
            ok = all(prints_exactly(v) for v in vals)
        else:
            ok = all(abs(v) < PRINT_LIMIT - 1 for v in vals)
        if not ok or rng.random() < 0.5:
            c["obs"] = "exact"
        return c

    def parse_int_case(self, rng, via):
        r = rng.random()
        if r < 0.50:
            t = any_text(rng)
            if rng.random() < 0.04:
                t = rng.choice(["0.0000005", "-0.0000005", "0.000001", "0.00000099"])
            return {"fn": "parseInt", "args": [with_kind(rng, t, via)], "via": via}
        s = digit_string(rng) if r < 0.84 else rng.choice(GARBAGE)
        # a template hands every result on as a pugjs.Number (a double): integers from 2^53 cannot be observed there
        m = re.match(r"[-+]?([0-9]+)\Z", s)
        if m and int(m.group(1)) >= TWO52:
            via = "direct"
        elif via in ("literal", "var") and not literal_safe(s):
            via = rng.choice(["direct", "data"])
        k = "string" if via in ("literal", "var") else rng.choice(STR_KINDS)
        return {"fn": "parseInt", "args": [{"k": k, "v": hx(s)}], "via": via}

    def hostile_case(self, rng):
        r = rng.random()
        if r < 0.3:
            return {"fn": rng.choice(["min", "max"]), "args": [], "via": "direct"}
        other = rng.choice([{"k": "bool", "v": "true"}, {"k": "bool", "v": "false"},
                            {"k": "string", "v": hx("2")}, {"k": "pugstring", "v": hx("2.5")}])
        if r < 0.6:
            return {"fn": rng.choice(["ceil", "trunc", "round"]), "args": [other], "via": "direct"}
        if r < 0.85:
            args = [with_kind(rng, t, "direct") for t in arg_list(rng)]
            args.insert(rng.randrange(len(args) + 1), other)
            return {"fn": rng.choice(["min", "max"]), "args": args, "via": "direct"}
        return {"fn": "parseInt", "args": [{"k": "bool", "v": rng.choice(["true", "false"])}], "via": "direct"}

    # ------------------------------------------------------------ Gallina
    @staticmethod
    def cq_Q(fr):
        return ("(q (%d)%%Z %d%%positive)" % (fr.numerator, fr.denominator)).encode()

    def emit_arg(self, a):
        if a.get("wrap") == "parseFloat":
            return b"(ANum KFloat64 " + self.cq_Q(value_of(a)) + b")"      # the helper receives parseFloat's float64
        if a["k"] in KIND:
            return b"(ANum " + KIND[a["k"]] + b" " + self.cq_Q(value_of(a)) + b")"
        if a["k"] in STR_KINDS:
            return b"(AStr " + cq_bytes(unhx(a["v"])) + b")"
        return b"(ABool " + cq_bool(a["v"] == "true") + b")"

    @staticmethod
    def observed(obs):
        """Go's result: ('val', Fraction) | ('panic',) | ('other',)."""
        if obs["class"] == "exec_panic":
            return ("panic",)
        if obs["class"] != "ok":
            return ("other",)
        if obs.get("num"):
            return ("val", Fraction(int(obs["num"]), int(obs["den"])))
        text = unhx(obs.get("text", "")).decode("utf-8", "replace")
        m = EXACT_RE.match(text)
        if m:                                           # written by the observer function: exact
            return ("val", Fraction(int(m.group(1)), int(m.group(2))) if m.group(1) else Fraction(int(m.group(3))))
        if NUM_RE.match(text):
            x = float(text)
            if x == x and x not in (float("inf"), float("-inf")):
                return ("val", Fraction(x))
        return ("other",)

    @staticmethod
    def literals(case):
        """Every decimal literal token the oracle's value rests on, unsigned, with the double it was read as."""
        out = []

        def dec(t):
            t = t.strip().lstrip("+-").strip()
            if re.match(r"(\d+\.?\d*|\.\d+)([eE][-+]?\d+)?\Z", t) and not (len(t) > 1 and t[0] == "0" and t.isdigit()):
                out.append((t, Fraction(float(t))))

        for a in case["args"]:
            if a.get("wrap") == "parseFloat":
                dec(unhx(a["v"]).decode())
            src = a.get("src") or (a["v"] if case["via"] in ("literal", "var") and a["k"] in KIND else None)
            if src:
                for t in TOKEN.findall(src):
                    if t.startswith("parseFloat('"):
                        dec(t[len("parseFloat('"):-2])
                    elif t[:2] not in ("0x", "0X"):
                        dec(t)
        return out

    def emit(self, case, obs):
        o = self.observed(obs)
        go = (b"(Val " + self.cq_Q(o[1]) + b")") if o[0] == "val" else (b"Panic" if o[0] == "panic" else b"Declined")
        return (b"{| f := " + FN[case["fn"]] + b"; args := " + cq_list([self.emit_arg(a) for a in case["args"]]) +
                b"; how := " + VIA[case["via"]] +
                b"; lits := " + cq_list([cq_pair(cq_bytes(t.encode()), self.cq_Q(v)) for t, v in self.literals(case)]) +
                b"; go := " + go + b" |}")

    def model_expr(self):
        return "(model c, spec c, in_dom c)"

    # ------------------------------------------------------------ reporting
    def nontrivial(self, case, obs):
        if len(case["args"]) >= 2:
            return True
        for a in case["args"]:
            if is_num(a):
                if value_of(a) < 0 or value_of(a).denominator != 1 or a.get("src") or a.get("wrap"):
                    return True
            elif a["k"] in STR_KINDS:
                return True
        return False

    def sample(self, case, obs):
        def show(a):
            if a.get("src"):
                return "js:" + a["src"]
            t = unhx(a["v"]).decode("utf-8", "replace") if a["k"] in STR_KINDS else a["v"]
            return "%s:%s" % (a["k"], t) + ("|parseFloat" if a.get("wrap") else "")
        o = self.observed(obs)
        return {"call": "%s(%s)" % (case["fn"], ", ".join(show(a) for a in case["args"])), "via": case["via"],
                "read": case.get("obs", "print") if case["via"] != "direct" else "return value",
                "denotes": [str(value_of(a)) for a in case["args"] if is_num(a)],
                "go": str(o[1]) if o[0] == "val" else o[0]}

    @staticmethod
    def plain_arg(a):
        """The same value handed over from Go as float64 / int (no spelling, no wrapper, no sized kind)."""
        v = value_of(a)
        if a["k"] in ("int", "int64") and not a.get("src") and not a.get("wrap"):
            return {"k": a["k"], "v": str(int(v))}
        return {"k": "float64", "v": show_float(float(v))}

    def shrink(self, case):
        args = case["args"]

        def put(i, a, **kw):
            c = dict(case, args=args[:i] + [a] + args[i + 1:], **kw)
            if c["via"] == "direct":
                c.pop("obs", None)
            elif not prints_exactly(value_of(a)) or abs(value_of(a)) >= PRINT_LIMIT - 1:
                c["obs"] = "exact"
            return c

        if case["via"] != "direct":
            c = dict(case, via="direct", args=[self.plain_arg(a) if is_num(a) else a for a in args])
            c.pop("obs", None)
            yield c
        if case["fn"] in ("min", "max"):
            for i in range(len(args)):
                if len(args) > 1:
                    yield dict(case, args=args[:i] + args[i + 1:])
        for i, a in enumerate(args):
            if is_num(a):
                v = value_of(a)
                spelled = a.get("src") or a.get("wrap") or a["k"] not in NUM_KINDS
                if spelled:
                    # the plain spelling / plain kind of the same value
                    p = self.plain_arg(a)
                    if case["via"] in ("literal", "var"):
                        t = plain(Decimal(p["v"]))
                        if t != a.get("src"):
                            yield put(i, {"k": src_kind(t), "v": p["v"], "src": t, "sp": "plain"})
                    else:
                        yield put(i, p)
                # strictly decreasing measure (text length, magnitude): no cycles
                cur = a.get("src") or plain(Decimal(show_float(float(v))))
                key = (len(cur), abs(v))
                simpler = [t for t in ("-1", "-2", "-0.5", "-2.5", "-1.5", "0", "1", "0.5")
                           if (len(t), abs(Fraction(float(t)))) < key]
                if not spelled or case["via"] in ("literal", "var"):
                    # one digit less (plain decimal texts only)
                    if re.match(r"-?\d+(\.\d+)?\Z", cur):
                        body = cur.lstrip("-")
                        for j in range(len(body)):
                            t = body[:j] + body[j + 1:]
                            if re.match(r"(0|[1-9]\d*)(\.\d+)?\Z", t):
                                simpler.append(("-" if cur.startswith("-") else "") + t)
                for t in simpler[:40]:
                    if case["via"] in ("literal", "var"):
                        yield put(i, {"k": src_kind(t), "v": show_float(denote(t)), "src": t, "sp": "plain"})
                    else:
                        k = a["k"] if a["k"] in NUM_KINDS and (is_int_text(t) or a["k"] in ("float64", "number")) else "float64"
                        yield put(i, {"k": k, "v": t})
                if a["k"] in ("int64", "number") and not spelled:
                    yield put(i, {"k": "int" if a["k"] == "int64" else "float64", "v": a["v"]})
            elif a["k"] in STR_KINDS:
                sb = unhx(a["v"])
                for j in range(len(sb)):
                    yield dict(case, args=args[:i] + [{"k": a["k"], "v": hx(sb[:j] + sb[j + 1:])}] + args[i + 1:])

    def distribution(self, cases, obss):
        d = {"fn": {}, "via": {}, "read": {}, "spelling": {}, "arg_kind": {}, "log10_magnitude": {},
             "significant_digits>=11": 0, "within_1e-6_of_integer_or_half": 0, "go_prints_with_exponent": 0,
             "through_parseFloat": 0,
             "negative_half_arg": 0, "in_open_unit_half": 0, "all_negative_list": 0,
             "all_equal_list_len>=2": 0, "sign_change_list": 0, "list_len": {}, "digit_string": 0,
             "other_string": 0, "no_argument": 0, "non_number_kind_to_Math": 0, "go_panic": 0,
             "go_unparsed": 0}

        def bump(key, k):
            d[key][k] = d[key].get(k, 0) + 1

        for c, o in zip(cases, obss):
            bump("fn", c["fn"])
            bump("via", c["via"])
            bump("read", "return value" if c["via"] == "direct" else c.get("obs", "print"))
            vals = [value_of(a) for a in c["args"] if is_num(a)]
            for a in c["args"]:
                bump("arg_kind", a["k"] if not a.get("src") else "js source")
                if a.get("src"):
                    bump("spelling", a.get("sp", "plain"))
                d["through_parseFloat"] += a.get("wrap") == "parseFloat" or "parseFloat" in (a.get("src") or "")
            for v in vals:
                if v != 0:
                    bump("log10_magnitude", str(int(math.floor(math.log10(abs(float(v)))))))
                x = float(v)
                d["significant_digits>=11"] += float("%.10g" % x) != x
                t = repr(x)
                d["go_prints_with_exponent"] += v.denominator != 1 and (abs(x) < 1e-4 or abs(x) >= 1e21 or "e" in t or
                                                                       (abs(x) >= 1e6 and len(t.replace("-", "").replace(".", "")) > 6))
                frac2 = (2 * v) - math.floor(2 * v)
                d["within_1e-6_of_integer_or_half"] += 0 < min(frac2, 1 - frac2) < Fraction(2, 10 ** 6)
            if any(v < 0 and v.denominator == 2 for v in vals):
                d["negative_half_arg"] += 1
            if any(abs(v) < Fraction(1, 2) for v in vals):
                d["in_open_unit_half"] += 1
            if c["fn"] in ("min", "max"):
                n = len(c["args"])
                d["list_len"][str(n)] = d["list_len"].get(str(n), 0) + 1
                if n == 0:
                    d["no_argument"] += 1
                if vals and len(vals) == n:
                    d["all_negative_list"] += all(v < 0 for v in vals)
                    d["all_equal_list_len>=2"] += n >= 2 and len(set(vals)) == 1
                    d["sign_change_list"] += any(v < 0 for v in vals) and any(v > 0 for v in vals)
                elif n:
                    d["non_number_kind_to_Math"] += 1
            elif c["fn"] == "parseInt":
                for a in c["args"]:
                    if a["k"] in STR_KINDS and not a.get("wrap"):
                        if re.match(rb"[-+]?[0-9]+\Z", unhx(a["v"])):
                            d["digit_string"] += 1
                        else:
                            d["other_string"] += 1
            elif any(not is_num(a) for a in c["args"]):
                d["non_number_kind_to_Math"] += 1
            k = self.observed(o)[0]
            d["go_panic"] += k == "panic"
            d["go_unparsed"] += k == "other"
        return d


PROP = C18()
