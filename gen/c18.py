# C18 — Math.min/max/ceil/trunc/round and parseInt against ECMAScript, one call per case.
import re
from fractions import Fraction
from common import *

FN = {"min": b"FMin", "max": b"FMax", "ceil": b"FCeil", "trunc": b"FTrunc",
      "round": b"FRound", "parseInt": b"FParseInt"}
VIA = {"direct": b"Direct", "literal": b"TplLiteral", "var": b"TplVar", "data": b"TplData"}
KIND = {"int": b"KInt", "int64": b"KInt64", "float64": b"KFloat64", "number": b"KFloat64"}
NUM_KINDS = ("int", "int64", "float64", "number")
STR_KINDS = ("string", "pugstring")
NUM_RE = re.compile(r"-?\d+(\.\d+)?([eE][-+]?\d+)?\Z")
PRINT_LIMIT = 2 ** 31          # Number prints with 10 significant digits: exact below this

UNIT = ["-0.5", "-0.4999", "-0.499", "-0.375", "-0.25", "-0.125", "-0.1", "-0.0", "0", "0.0",
        "0.1", "0.125", "0.25", "0.375", "0.499", "0.4999", "0.5", "-0.5001", "0.5001", "-0.75", "0.75",
        "-1", "1", "-0.9", "0.9"]
GARBAGE = ["", "+", "-", "12abc", "abc", " 12", "12 ", "1_000", "0x10", "1e3", "12.5", "-12.5", "--1",
           "+-1", "１２", "9223372036854775807", "9223372036854775808", "-9223372036854775808",
           "-9223372036854775809", "99999999999999999999", "18446744073709551616", "4503599627370496",
           "-4503599627370496", "1,000", ".5", "5.", "0b1", "+0x1", "\t7", "7\n", "1 2"]


def is_int_text(t):
    return "." not in t


def value_of(a):
    """Exact rational value of a numeric argument as the Go side will hold it."""
    if a["k"] in ("int", "int64"):
        return Fraction(int(a["v"]))
    return Fraction(float(a["v"]))


def literal_safe(s):
    return all(0x20 <= ord(ch) <= 0x7e and ch not in "'\"\\`{}" for ch in s)


# ---------------------------------------------------------------- number texts

def small_or_big(rng, big=10 ** 6):
    r = rng.random()
    if r < 0.6:
        return rng.randint(0, 6)
    if r < 0.85:
        return rng.randint(0, 1000)
    return rng.randint(0, big - 1)


def t_half(rng, sign):
    return sign + "%d.5" % small_or_big(rng)


def t_near_half(rng, sign):
    return sign + "%d.%s" % (small_or_big(rng, 10 ** 5), rng.choice(["4999", "5001", "49", "51", "4", "6"]))


def t_eighth(rng, sign):
    return sign + "%d.%s" % (small_or_big(rng), rng.choice(["125", "25", "375", "625", "75", "875"]))


def t_tenth(rng, sign):
    return sign + "%d.%d" % (small_or_big(rng), rng.randint(1, 9))


def t_int(rng, sign):
    r = rng.random()
    if r < 0.6:
        n = rng.randint(0, 9)
    elif r < 0.9:
        n = rng.randint(0, 10 ** 6)
    else:
        n = rng.choice([2 ** 31 - 1, 2 ** 31 - 2, 2 ** 30, rng.randint(0, 2 ** 31 - 1)])
    return sign + str(n)


def num_text(rng, neg=None):
    """One number as decimal text.  neg: None = any sign, True/False forced."""
    if neg is None:
        neg = rng.random() < 0.55
    sign = "-" if neg else ""
    r = rng.random()
    if r < 0.30:
        return t_half(rng, sign)
    if r < 0.42:
        return t_near_half(rng, sign)
    if r < 0.54:
        u = rng.choice(UNIT)
        if neg and not u.startswith("-"):
            u = "-" + u
        if not neg and u.startswith("-"):
            u = u[1:]
        return u
    if r < 0.66:
        return t_eighth(rng, sign)
    if r < 0.76:
        return t_tenth(rng, sign)
    return t_int(rng, sign)


def with_kind(rng, text, via):
    if via in ("literal", "var"):
        k = "int" if is_int_text(text) else "float64"
    elif is_int_text(text):
        k = rng.choice(NUM_KINDS)
    else:
        k = rng.choice(("float64", "number"))
    if k in ("float64", "number") and is_int_text(text) and via in ("direct", "data"):
        pass                       # strconv.ParseFloat("3") is fine
    return {"k": k, "v": text}


def pick_via(rng):
    r = rng.random()
    if r < 0.34:
        return "direct"
    if r < 0.56:
        return "literal"
    if r < 0.78:
        return "var"
    return "data"


# ---------------------------------------------------------------- argument lists

def arg_list(rng):
    n = rng.choice([1, 1, 2, 2, 2, 3, 3, 4, 5, 6])
    mode = rng.choice(["allneg", "allneg", "nonpos", "equal", "equal_but_one", "signchange",
                       "signchange", "sorted", "random", "allpos"])
    if mode == "allneg":
        ts = [num_text(rng, True) for _ in range(n)]
        ts = [t for t in ts if Fraction(float(t)) < 0] or ["-1"]
    elif mode == "nonpos":
        ts = [rng.choice([num_text(rng, True), "0", "-0.0", "0.0"]) for _ in range(n)]
    elif mode == "equal":
        ts = [num_text(rng)] * n
    elif mode == "equal_but_one":
        ts = [num_text(rng)] * n
        ts[rng.randrange(n)] = num_text(rng)
    elif mode == "signchange":
        ts = [num_text(rng, i % 2 == 0) for i in range(n)]
        rng.shuffle(ts)
    elif mode == "sorted":
        ts = sorted((num_text(rng) for _ in range(n)), key=lambda t: float(t), reverse=rng.random() < 0.5)
    elif mode == "allpos":
        ts = [num_text(rng, False) for _ in range(n)]
    else:
        ts = [num_text(rng) for _ in range(n)]
    return ts


def digit_string(rng):
    sign = rng.choice(["", "", "-", "-", "+"])
    zeros = "0" * rng.choice([0, 0, 0, 1, 2, 3])
    r = rng.random()
    if r < 0.15:
        body = "0"
    elif r < 0.8:
        body = str(rng.randint(0, 10 ** rng.randint(1, 9) - 1))
    else:
        body = str(rng.randint(0, 2 ** 52 - 1))
    return sign + zeros + body


class C18(Prop):
    id = "C18"
    engine = "C18"
    judge_module = "Run.Judge_C18"
    prop_module = "Props.C18"
    prop_file = "Props/C18.v"
    coq_targets = ["Props/C18.vo", "Run/Judge_C18.vo"]
    sizes = {"quick": 800, "thorough": 60000}
    design_ref = "DESIGN.md section 6 C18, section 7 F-C18-a, F-C18-b"
    rule = ("one call of Math.min/max/ceil/trunc/round or parseInt per case, made directly on the exported Go "
            "API (int, int64, float64, pugjs.Number, string, pugjs.String) or through Engine.Render "
            "(argument as JS literal, as `- var`, as data field); arguments: negative and positive halves, "
            "near-halves, (-0.5, 0.5), eighths, tenths, integers up to 2^31-1, +-0; lists of length 1-6 "
            "(all negative, non-positive, all equal, equal but one, alternating signs, sorted); digit strings "
            "with sign and leading zeros; a hostile off-domain stream (garbage strings, range limits of "
            "strconv.ParseInt, no argument, non-number kinds). non-trivial = a negative or fractional "
            "argument, a list of two or more, or a string; distinct by SHA-1 of the case")
    trusted = [
        "math.Ceil, math.Floor, math.Trunc and the float comparisons <, >, <=, >= are exact on finite doubles "
        "(modelled as the rational functions m_ceilf, m_floor, m_truncf, qlt, qle)",
        "reflect.Kind dispatch, float64(int) for |n| <= 2^53 and int(float64) for integral values inside int64 "
        "(outside: the model declines)",
        "the harness parses printed template output back to a number with strconv-equivalent Python float(); "
        "generated magnitudes are below 2^31 with at most 10 significant digits so that Number's %.10g print is exact",
    ]
    assumptions = [
        "float exactness: for a double n with 0.5 <= |n| < 2^52 the float sums n + 0.5 (and n - 0.5 in the unrepaired "
        "code) are exact, so Trunc/Floor of the float sum equals Trunc/Floor of the rational sum; below 0.5 the code "
        "returns 0 without adding (binade argument; not a Coq axiom; a Flocq binary64 lemma would discharge it)",
        "int is 64 bits (strconv.ParseInt(s, 10, 0) with bitSize 64)",
        "the JS parser, the emitted template text and the template number parser hand the decimal literal "
        "to the helper as the nearest double (checked per case by the correspondence, not proved)",
    ]
    not_yet_proved = []

    # ------------------------------------------------------------ generation
    def generate(self, rng, n, tier):
        cases = []
        while len(cases) < n:
            r = rng.random()
            via = pick_via(rng)
            if r < 0.30:
                fn = "round"
                t = num_text(rng, True) if rng.random() < 0.5 else num_text(rng)
                c = {"fn": fn, "args": [with_kind(rng, t, via)], "via": via}
            elif r < 0.50:
                c = {"fn": "max", "args": [with_kind(rng, t, via) for t in arg_list(rng)], "via": via}
            elif r < 0.64:
                c = {"fn": "min", "args": [with_kind(rng, t, via) for t in arg_list(rng)], "via": via}
            elif r < 0.73:
                c = {"fn": "ceil", "args": [with_kind(rng, num_text(rng), via)], "via": via}
            elif r < 0.82:
                c = {"fn": "trunc", "args": [with_kind(rng, num_text(rng), via)], "via": via}
            elif r < 0.97:
                c = self.parse_int_case(rng, via)
            else:
                c = self.hostile_case(rng)
            cases.append(c)
        return cases

    def parse_int_case(self, rng, via):
        r = rng.random()
        if r < 0.45:
            t = num_text(rng)
            if rng.random() < 0.04:
                t = rng.choice(["0.0000005", "-0.0000005", "0.000001", "0.00000099"])
            return {"fn": "parseInt", "args": [with_kind(rng, t, via)], "via": via}
        s = digit_string(rng) if r < 0.82 else rng.choice(GARBAGE)
        # printed results stay exact only below 2^31; non-literal-safe text cannot sit in JS source
        big = False
        m = re.match(r"[-+]?([0-9]+)\Z", s)
        if m and int(m.group(1)) >= PRINT_LIMIT:
            big = True
        if big:
            via = "direct"
        elif via in ("literal", "var") and not literal_safe(s):
            via = rng.choice(["direct", "data"])
        k = "string" if via in ("literal", "var") else rng.choice(STR_KINDS)
        return {"fn": "parseInt", "args": [{"k": k, "v": hx(s)}], "via": via}

    def hostile_case(self, rng):
        r = rng.random()
        if r < 0.3:
            return {"fn": rng.choice(["min", "max"]), "args": [], "via": "direct"}
        other = rng.choice([{"k": "bool", "v": "true"}, {"k": "bool", "v": "false"},
                            {"k": "string", "v": hx("2")}, {"k": "pugstring", "v": hx("2.5")}])
        if r < 0.6:
            return {"fn": rng.choice(["ceil", "trunc", "round"]), "args": [other], "via": "direct"}
        if r < 0.85:
            args = [with_kind(rng, t, "direct") for t in arg_list(rng)]
            args.insert(rng.randrange(len(args) + 1), other)
            return {"fn": rng.choice(["min", "max"]), "args": args, "via": "direct"}
        return {"fn": "parseInt", "args": [{"k": "bool", "v": rng.choice(["true", "false"])}], "via": "direct"}

    # ------------------------------------------------------------ Gallina
    @staticmethod
    def cq_Q(fr):
        return ("(q (%d)%%Z %d%%positive)" % (fr.numerator, fr.denominator)).encode()

    def emit_arg(self, a):
        if a["k"] in KIND:
            return b"(ANum " + KIND[a["k"]] + b" " + self.cq_Q(value_of(a)) + b")"
        if a["k"] in STR_KINDS:
            return b"(AStr " + cq_bytes(unhx(a["v"])) + b")"
        return b"(ABool " + cq_bool(a["v"] == "true") + b")"

    @staticmethod
    def observed(obs):
        """Go's result: ('val', Fraction) | ('panic',) | ('other',)."""
        if obs["class"] == "exec_panic":
            return ("panic",)
        if obs["class"] != "ok":
            return ("other",)
        if obs.get("num"):
            return ("val", Fraction(int(obs["num"]), int(obs["den"])))
        text = unhx(obs.get("text", "")).decode("utf-8", "replace")
        if NUM_RE.match(text):
            x = float(text)
            if x == x and x not in (float("inf"), float("-inf")):
                return ("val", Fraction(x))
        return ("other",)

    def emit(self, case, obs):
        o = self.observed(obs)
        go = (b"(Val " + self.cq_Q(o[1]) + b")") if o[0] == "val" else (b"Panic" if o[0] == "panic" else b"Declined")
        return (b"{| f := " + FN[case["fn"]] + b"; args := " + cq_list([self.emit_arg(a) for a in case["args"]]) +
                b"; how := " + VIA[case["via"]] + b"; go := " + go + b" |}")

    def model_expr(self):
        return "(model c, spec c, in_dom c)"

    # ------------------------------------------------------------ reporting
    def nontrivial(self, case, obs):
        if len(case["args"]) >= 2:
            return True
        for a in case["args"]:
            if a["k"] in STR_KINDS:
                return True
            if a["k"] in KIND and (value_of(a) < 0 or value_of(a).denominator != 1):
                return True
        return False

    def sample(self, case, obs):
        def show(a):
            return "%s:%s" % (a["k"], unhx(a["v"]).decode("utf-8", "replace") if a["k"] in STR_KINDS else a["v"])
        o = self.observed(obs)
        return {"call": "%s(%s)" % (case["fn"], ", ".join(show(a) for a in case["args"])), "via": case["via"],
                "go": str(o[1]) if o[0] == "val" else o[0]}

    def shrink(self, case):
        args = case["args"]
        if case["via"] != "direct":
            yield dict(case, via="direct")
        if case["fn"] in ("min", "max"):
            for i in range(len(args)):
                if len(args) > 1:
                    yield dict(case, args=args[:i] + args[i + 1:])
        for i, a in enumerate(args):
            if a["k"] in KIND:
                # strictly decreasing measure (text length, magnitude): no cycles
                key = (len(a["v"]), abs(value_of(a)))
                simpler = [t for t in ("-1", "-2", "-0.5", "-2.5", "-1.5", "0", "1", "0.5")
                           if (len(t), abs(Fraction(float(t)))) < key]
                for t in simpler:
                    k = a["k"] if (is_int_text(t) or a["k"] in ("float64", "number")) else "float64"
                    yield dict(case, args=args[:i] + [{"k": k, "v": t}] + args[i + 1:])
                if a["k"] in ("int64", "number"):
                    yield dict(case, args=args[:i] + [{"k": "int" if a["k"] == "int64" else "float64", "v": a["v"]}] + args[i + 1:])
            elif a["k"] in STR_KINDS:
                s = unhx(a["v"])
                for j in range(len(s)):
                    yield dict(case, args=args[:i] + [{"k": a["k"], "v": hx(s[:j] + s[j + 1:])}] + args[i + 1:])

    def distribution(self, cases, obss):
        d = {"fn": {}, "via": {}, "negative_half_arg": 0, "in_open_unit_half": 0, "all_negative_list": 0,
             "all_equal_list_len>=2": 0, "sign_change_list": 0, "list_len": {}, "digit_string": 0,
             "other_string": 0, "no_argument": 0, "non_number_kind_to_Math": 0, "go_panic": 0,
             "go_unparsed": 0}
        for c, o in zip(cases, obss):
            d["fn"][c["fn"]] = d["fn"].get(c["fn"], 0) + 1
            d["via"][c["via"]] = d["via"].get(c["via"], 0) + 1
            vals = [value_of(a) for a in c["args"] if a["k"] in KIND]
            if any(v < 0 and v.denominator == 2 for v in vals):
                d["negative_half_arg"] += 1
            if any(abs(v) < Fraction(1, 2) for v in vals):
                d["in_open_unit_half"] += 1
            if c["fn"] in ("min", "max"):
                n = len(c["args"])
                d["list_len"][str(n)] = d["list_len"].get(str(n), 0) + 1
                if n == 0:
                    d["no_argument"] += 1
                if vals and len(vals) == n:
                    d["all_negative_list"] += all(v < 0 for v in vals)
                    d["all_equal_list_len>=2"] += n >= 2 and len(set(vals)) == 1
                    d["sign_change_list"] += any(v < 0 for v in vals) and any(v > 0 for v in vals)
                elif n:
                    d["non_number_kind_to_Math"] += 1
            elif c["fn"] == "parseInt":
                for a in c["args"]:
                    if a["k"] in STR_KINDS:
                        if re.match(rb"[-+]?[0-9]+\Z", unhx(a["v"])):
                            d["digit_string"] += 1
                        else:
                            d["other_string"] += 1
            elif any(a["k"] not in KIND for a in c["args"]):
                d["non_number_kind_to_Math"] += 1
            k = self.observed(o)[0]
            d["go_panic"] += k == "panic"
            d["go_unparsed"] += k == "other"
        return d


PROP = C18()
