# Generator of pug templates + data for the template-pipeline properties (C01-C04, C06, C13).
# Typed, mostly-valid programs (so most cases are inside the properties' domains) plus knobs for hostile
# strings, off-domain mixes and the constructs each property concentrates on.  All randomness from `rng`.
from tmpl import js_src

WORDS = [b"a", b"b", b"ab", b"x", b"Hello", b"foo bar", b"z9", b"", b"  ", b"0", b"12", b"-3", b"k1", b"true", b"A-Z", b"5%", b"%d"]
HOSTILE = [b"<b>", b"</div>", b'"', b"'", b"&", b"&amp;", b"<script>alert(1)</script>", b'" onload="x', b"a<b>c&d\"e'f",
           b"{{", b"}}", b"{{.}}", b"{{- x -}}", b"`", b"\\", b"&#34;", b"<!--", b"]]>", b"\xc3\xa9", b"\xe2\x82\xac<", b"<<>>",
           b"a&b", b"'><img src=x>", b"{{/* c */}}", b"${x}", b"$", b"a\tb", b"x\ny"]
TAGS = [b"div", b"span", b"p", b"ul", b"li", b"b", b"i", b"a", b"h1", b"section", b"em", b"td"]
VOID = [b"br", b"hr", b"img", b"input"]
RESERVED = {b"Math", b"JSON", b"Object", b"stripTags", b"parseInt", b"json", b"null", b"range", b"block", b"attributes",
            b"global", b"true", b"false", b"undefined", b"if", b"in", b"var", b"new", b"typeof", b"do", b"for"}


class Env:
    """variables visible at a program point: name -> type.  Types: 'num' 'str' 'bool' ('arr',t) ('obj',{k:t}) 'nil'"""

    def __init__(self, types=None, native=None):
        self.types = dict(types or {})
        self.native = set(native or ())     # variables holding a Go-native value (declared from a literal)

    def copy(self):
        return Env(self.types, self.native)

    def of(self, pred):
        return [k for k, t in self.types.items() if pred(t)]


def is_arr(t, el=None):
    return isinstance(t, tuple) and t[0] == 'arr' and (el is None or t[1] == el)


def is_obj(t):
    return isinstance(t, tuple) and t[0] == 'obj'


class TGen:
    def __init__(self, rng, hostile=0.0, offdomain=0.0, methods=True, refs_in_bool=False, max_depth=4,
                 num_lits=(0, 1, 2, 3, 5, 7, 10, 12, 100, 255), strings=None):
        self.rng = rng
        self.hostile = hostile
        self.offdomain = offdomain
        self.methods = methods
        self.max_depth = max_depth
        self.num_lits = num_lits
        self.strings = strings
        self.counter = 0

    # ------------------------------------------------------------------ data
    def word(self):
        r = self.rng
        if self.strings is not None:
            return r.choice(self.strings)
        if r.random() < self.hostile:
            return r.choice(HOSTILE)
        return r.choice(WORDS)

    def value_of(self, t, depth=0):
        r = self.rng
        if t == 'num':
            return r.choice([0, 1, 2, 3, 4, 7, 10, 42, -1, -5, 100, 999])
        if t == 'str':
            return self.word()
        if t == 'bool':
            return r.random() < 0.5
        if t == 'nil':
            return None
        if is_arr(t):
            n = r.choice([0, 1, 2, 3, 3, 4, 5])
            return [self.value_of(t[1], depth + 1) for _ in range(n)]
        if is_obj(t):
            return {k: self.value_of(v, depth + 1) for k, v in t[1].items()}
        raise ValueError(t)

    def data(self):
        """top-level data and its typing"""
        r = self.rng
        types = {b"n": 'num', b"m": 'num', b"s": 'str', b"t": 'str', b"p": 'bool',
                 b"xs": ('arr', 'num'), b"ws": ('arr', 'str'),
                 b"o": ('obj', {b"k": 'str', b"n": 'num', b"w": ('arr', 'str')})}
        if r.random() < 0.5:
            types[b"q"] = 'bool'
        if r.random() < 0.3:
            types[b"os"] = ('arr', ('obj', {b"id": 'num', b"name": 'str'}))
        if r.random() < 0.3:
            types[b"e"] = 'nil'
        d = {k: self.value_of(t) for k, t in types.items()}
        return d, Env(types)

    # ------------------------------------------------------------------ expressions
    def lit(self, t):
        r = self.rng
        if t == 'num':
            return ('num', r.choice(self.num_lits))
        if t == 'str':
            return ('str', self.word())
        if t == 'bool':
            return ('bool', r.random() < 0.5)
        if is_arr(t):
            return ('arr', [self.lit(t[1]) for _ in range(r.choice([1, 2, 3]))])
        if is_obj(t):
            return self.dup_key(t, [(k, self.lit(v)) for k, v in t[1].items()], lambda v: self.lit(v))
        return ('null',)

    def dup_key(self, t, kvs, mk):
        """now and then an object literal writes one of its keys a second time (JavaScript: first position, last value)"""
        if kvs and self.rng.random() < 0.15:
            k = self.rng.choice([k for k, _ in kvs])
            kvs = kvs + [(k, mk(t[1][k]))]
        return ('obj', kvs)

    def var(self, env, pred):
        c = env.of(pred)
        return ('id', self.rng.choice(c)) if c else None

    def recv(self, env, pred, depth):
        """a receiver expression (not a bare literal) of a type satisfying pred: variable or member chain"""
        r = self.rng
        v = self.var(env, pred)
        cands = []
        if v:
            cands.append(v)
        for name in env.of(is_obj):
            for k, t in env.types[name][1].items():
                if pred(t):
                    cands.append(('dot', ('id', name), k))
        for name in env.of(lambda t: is_arr(t) and pred(t[1])):
            cands.append(('idx', ('id', name), ('num', r.choice([0, 0, 1, 2]))))
        return r.choice(cands) if cands else None

    def expr(self, env, t, depth=None):
        r = self.rng
        if depth is None:
            depth = r.choice([0, 1, 1, 2, 2, 3, self.max_depth])
        if depth <= 0:
            v = self.recv(env, lambda x: x == t, 0) if r.random() < 0.6 else None
            return v or self.lit(t)
        d = depth - 1
        E = lambda tt: self.expr(env, tt, d)
        if t == 'num':
            k = r.random()
            if k < 0.45:
                return ('bin', r.choice(['+', '-', '*', '+', '-']), E('num'), E('num'))
            if k < 0.5:
                if r.random() < 0.5:
                    # literal-or-variable % data variable (F-C01-g: a Go int on the left of a pugjs.Number)
                    rv = self.recv(env, lambda x: x == 'num', 0)
                    if rv:
                        lv = self.lit('num') if r.random() < 0.5 else (self.recv(env, lambda x: x == 'num', 0) or self.lit('num'))
                        return ('bin', '%', lv, rv)
                return ('bin', '%', E('num'), ('num', r.choice([2, 3, 5, 7])))
            if k < 0.55:
                return ('bin', '/', ('bin', '*', E('num'), ('num', 2)), ('num', 2))
            if k < 0.6:
                return ('un', '-', E('num'))
            if k < 0.7 and self.methods:
                a = self.recv(env, lambda x: is_arr(x) or x == 'str', d)
                if a:
                    return ('dot', a, b"length")
            if k < 0.78 and self.methods:
                a = self.recv(env, lambda x: x == 'str', d)
                if a:
                    return ('call', ('dot', a, b"indexOf"), [E('str')])
            if k < 0.84 and self.methods:
                a = self.recv(env, lambda x: is_arr(x, 'num'), d)
                if a:
                    if r.random() < 0.35:
                        # strict equality: a needle of another type never matches, whatever it prints as
                        return ('call', ('dot', a, b"indexOf"), [('str', str(r.choice([0, 1, 2, 3, 7, 10, 42])).encode())])
                    return ('call', ('dot', a, b"indexOf"), [E('num')])
            if k < 0.87 and self.methods:
                # arrays mixing numbers and strings that print alike
                n = r.choice([1, 2, 7, 10])
                items = [('num', n), ('str', str(n).encode()), ('num', r.choice([3, 5])), ('str', b"x")]
                r.shuffle(items)
                needle = r.choice([('num', n), ('str', str(n).encode()), ('str', b"3"), ('num', 9), ('bool', True)])
                return ('call', ('dot', ('arr', items[:r.choice([2, 3, 4])]), b"indexOf"), [needle])
            if k < 0.92:
                return ('cond', E('bool'), E('num'), E('num'))
            return ('bin', r.choice(['&&', '||']), E('num'), E('num'))
        if t == 'str':
            k = r.random()
            if k < 0.35:
                return ('bin', '+', E('str'), E(r.choice(['str', 'str', 'num'])))
            if k < 0.42 and self.offdomain and r.random() < self.offdomain:
                return ('bin', '+', E('num'), E('str'))
            if k < 0.72 and self.methods:
                a = self.recv(env, lambda x: x == 'str', d)
                if a:
                    m = r.choice([b"charAt", b"slice", b"toUpperCase", b"toLowerCase", b"slice2"])
                    if m == b"charAt":
                        return ('call', ('dot', a, m), [('num', r.choice([0, 1, 2, 5]))])
                    if m == b"slice":
                        return ('call', ('dot', a, m), [('num', r.choice([0, 1, 2]))])
                    if m == b"slice2":
                        return ('call', ('dot', a, b"slice"), [('num', 0), ('num', r.choice([0, 1, 2]))])
                    return ('call', ('dot', a, m), [])
            if k < 0.8 and self.methods:
                if r.random() < 0.3:
                    # empty strings at the start, in the middle and at the end keep their separators
                    items = [('str', r.choice([b"", b"", b"a", b"b"])) for _ in range(r.choice([2, 3, 4]))]
                    return ('call', ('dot', ('arr', items), b"join"), [('str', r.choice([b",", b"-", b"+", b", "]))])
                a = self.recv(env, lambda x: is_arr(x, 'str') or is_arr(x, 'num'), d)
                if a:
                    return ('call', ('dot', a, b"join"), [('str', r.choice([b",", b"-", b"", b", "]))])
            if k < 0.9:
                return ('cond', E('bool'), E('str'), E('str'))
            return ('bin', r.choice(['&&', '||']), E('str'), E('str'))
        if t == 'bool':
            k = r.random()
            if k < 0.45:
                tt = r.choice(['num', 'num', 'str'])
                return ('bin', r.choice(['<', '>', '<=', '>=', '==', '!=', '===', '!==']), E(tt), E(tt))
            if k < 0.55:
                return ('bin', r.choice(['==', '!=', '===', '!==']), E('bool'), E('bool'))
            if k < 0.62:
                return ('un', '!', E(r.choice(['bool', 'num', 'str'])))
            if k < 0.7:
                # !!x is the boolean ToBoolean(x), wherever it stands (operand of && || == ?: , array element)
                return ('un', '!', ('un', '!', E(r.choice(['bool', 'num', 'str']))))
            if k < 0.9:
                return ('bin', r.choice(['&&', '||']), E('bool'), E('bool'))
            return ('cond', E('bool'), E('bool'), E('bool'))
        if is_arr(t):
            k = r.random()
            if k < 0.4:
                return ('arr', [E(t[1]) for _ in range(r.choice([0, 1, 2, 3]))])
            if k < 0.6 and t[1] == 'str' and self.methods:
                a = self.recv(env, lambda x: x == 'str', d)
                if a:
                    return ('call', ('dot', a, b"split"), [('str', r.choice([b",", b" ", b"-", b""]))])
            return self.recv(env, lambda x: x == t, d) or ('arr', [E(t[1])])
        if is_obj(t):
            if r.random() < 0.5:
                return self.dup_key(t, [(k, self.expr(env, v, d)) for k, v in t[1].items()], lambda v: self.expr(env, v, d))
            return self.recv(env, lambda x: x == t, d) or self.lit(t)
        return ('null',)

    def any_scalar(self, env, depth=None):
        return self.expr(env, self.rng.choice(['num', 'str', 'bool', 'num', 'str']), depth)

    # ------------------------------------------------------------------ nodes
    def fresh(self, prefix=b"v"):
        self.counter += 1
        return prefix + str(self.counter).encode()

    def text(self):
        r = self.rng
        if r.random() < self.hostile:
            return ('text', r.choice(HOSTILE))
        return ('text', r.choice([b"Hello", b" ", b"a b", b"x", b" lead", b"trail ", b"\n", b" mid dle ", b"1 < 2", b"A&B",
                                   b"caf\xc3\xa9", b"--", b"{", b"}", b"{ {", b"-}", b"50% off", b"%s", b"100%"]))

    def buffered(self, env, esc=True, t=None):
        e = self.expr(env, t) if t else self.any_scalar(env)
        return ('code', [('expr', e)], esc, True)

    def tag(self, env, body, inline=None):
        r = self.rng
        if inline is None:
            inline = r.random() < 0.5
        return ('tag', r.choice(TAGS), inline, [], [], body)

    def stmt_assign(self, env):
        """an unbuffered code node that declares or re-assigns a variable; returns node and updates env"""
        r = self.rng
        k = r.random()
        locals_ = [x for x in env.types if x.startswith(b"v")]
        if k < 0.5 or not locals_:
            t = r.choice(['num', 'str', 'bool', 'num', ('arr', 'num'), ('arr', 'str')])
            x = self.fresh()
            e = self.expr(env, t)
            env.types[x] = t
            return ('code', [('vars', [('var', x, e)])], False, False)
        x = r.choice(locals_)
        t = env.types[x]
        if t == 'num' and r.random() < 0.3:
            return ('code', [('expr', ('un', '++', ('id', x)))], False, False)
        return ('code', [('expr', ('assign', ('id', x), self.expr(env, t)))], False, False)

    def nodes(self, env, size, depth, kinds):
        """a list of nodes; `kinds` is a weighted dict of constructs allowed"""
        r = self.rng
        out = []
        names = list(kinds)
        weights = [kinds[k] for k in names]
        for _ in range(size):
            k = r.choices(names, weights)[0]
            if depth <= 0 and k in ('tag', 'if', 'case', 'each', 'while', 'call'):
                k = r.choice(['text', 'buf'])
            sub = lambda n=None: self.nodes(env, n if n is not None else r.choice([1, 1, 2, 3]), depth - 1, kinds)
            if k == 'text':
                out.append(self.text())
            elif k == 'buf':
                out.append(self.buffered(env, esc=True))
            elif k == 'raw':
                out.append(self.buffered(env, esc=False))
            elif k == 'assign':
                out.append(self.stmt_assign(env))
            elif k == 'tag':
                out.append(self.tag(env, sub()))
            elif k == 'void':
                out.append(('tag', r.choice(VOID), True, [], [], []))
            elif k == 'if':
                out.append(self.cond(env, depth, kinds))
            elif k == 'case':
                out.append(self.case(env, depth, kinds))
            elif k == 'each':
                out.append(self.each(env, depth, kinds))
            elif k == 'while':
                out.extend(self.while_(env, depth, kinds))
            elif k == 'doctype':
                pass
            else:
                raise ValueError(k)
        return out

    def test_expr(self, env):
        """a test: mostly boolean-typed; sometimes a number/string/variable (truthiness)"""
        r = self.rng
        k = r.random()
        if k < 0.6:
            return self.expr(env, 'bool')
        if k < 0.8:
            return self.recv(env, lambda x: x in ('num', 'str', 'bool'), 1) or self.expr(env, 'bool')
        return self.any_scalar(env, 1)

    def cond(self, env, depth, kinds):
        r = self.rng
        body = lambda: self.nodes(env, r.choice([1, 2]), depth - 1, kinds)
        n = ('cond', self.test_expr(env), body(), None)
        k = r.random()
        if k < 0.35:
            n = ('cond', n[1], n[2], ('block', body()))
        elif k < 0.6:
            n = ('cond', n[1], n[2], ('cond', self.test_expr(env), body(), ('block', body()) if r.random() < 0.6 else None))
        return n

    def case(self, env, depth, kinds):
        r = self.rng
        t = r.choice(['num', 'str'])
        subj = self.recv(env, lambda x: x == t, 1) or self.lit(t)
        whens = []
        for _ in range(r.choice([1, 2, 3])):
            whens.append((self.lit(t) if r.random() < 0.7 else self.expr(env, t, 1),
                          self.nodes(env, r.choice([1, 2]), depth - 1, kinds)))
        if r.random() < 0.6:
            whens.insert(r.randrange(len(whens) + 1) if r.random() < 0.3 else len(whens),
                         (None, self.nodes(env, 1, depth - 1, kinds)))
        return ('case', subj, whens)

    def each(self, env, depth, kinds):
        r = self.rng
        k = r.random()
        coll_t = None
        if k < 0.6:
            coll = self.recv(env, is_arr, 1)
            if coll is None or r.random() < 0.3:
                coll_t = ('arr', r.choice(['num', 'str']))
                coll = self.expr(env, coll_t, 1)
        elif k < 0.85:
            coll = self.recv(env, is_obj, 1)
            if coll is None or r.random() < 0.4:
                coll_t = ('obj', {b"k1": 'str', b"b": 'num', b"a": 'str'})
                coll = ('obj', [(kk, self.lit(vv)) for kk, vv in coll_t[1].items()])
        else:
            coll = ('id', r.choice([b"e", b"undef", b"xs"]))
        # element type
        et = 'str'
        ct = coll_t or self.type_of(env, coll)
        if is_arr(ct):
            et = ct[1]
        elif is_obj(ct):
            vs = set(map(repr, ct[1].values()))
            et = list(ct[1].values())[0] if len(vs) == 1 else None
        v = self.fresh(b"it")
        key = self.fresh(b"ix") if r.random() < 0.5 else None
        inner = env.copy()
        if et is not None:
            inner.types[v] = et
        if key is not None:
            inner.types[key] = 'num' if is_arr(ct) else 'str'
        body = self.nodes(inner, r.choice([1, 2, 3]), depth - 1, kinds)
        # variables declared inside stay visible afterwards in the engine; keep generator conservative: they are not reused
        return ('each', v, key, coll, body)

    def type_of(self, env, e):
        k = e[0]
        if k == 'id':
            return env.types.get(e[1])
        if k == 'dot':
            t = self.type_of(env, e[1])
            if is_obj(t):
                return t[1].get(e[2])
        if k == 'idx':
            t = self.type_of(env, e[1])
            if is_arr(t):
                return t[1]
        return None

    def while_(self, env, depth, kinds):
        """counter-driven terminating while (plus, rarely, a non-terminating one)"""
        r = self.rng
        c = self.fresh(b"c")
        n = r.choice([0, 1, 2, 3, 4])
        init = ('code', [('vars', [('var', c, ('num', 0))])], False, False)
        env.types[c] = 'num'
        inner = env.copy()
        body = self.nodes(inner, r.choice([1, 2]), depth - 1, {k: w for k, w in kinds.items() if k != 'while'})
        if r.random() < 0.5:
            step = ('code', [('expr', ('un', '++', ('id', c)))], False, False)
        else:
            step = ('code', [('expr', ('assign', ('id', c), ('bin', '+', ('id', c), ('num', 1))))], False, False)
        body.insert(r.randrange(len(body) + 1), step)
        return [init, ('while', ('bin', '<', ('id', c), ('num', n)), body)]


def expr_depth(e):
    if not isinstance(e, tuple):
        return 0
    best = 0
    for x in e[1:]:
        if isinstance(x, tuple):
            best = max(best, expr_depth(x))
        elif isinstance(x, list):
            for y in x:
                if isinstance(y, tuple):
                    best = max(best, expr_depth(y[1] if len(y) == 2 and isinstance(y[0], bytes) else y))
    return 1 + best


def expr_vars(e, acc=None):
    acc = set() if acc is None else acc
    if isinstance(e, tuple):
        if e[0] == 'id':
            acc.add(e[1])
        for x in e[1:]:
            if isinstance(x, tuple):
                expr_vars(x, acc)
            elif isinstance(x, list):
                for y in x:
                    if isinstance(y, tuple):
                        expr_vars(y, acc)
    return acc


def node_kinds(nodes, acc=None):
    acc = {} if acc is None else acc
    for n in nodes:
        acc[n[0]] = acc.get(n[0], 0) + 1
        for x in n[1:]:
            if isinstance(x, list) and x and isinstance(x[0], tuple) and isinstance(x[0][0], str):
                try:
                    node_kinds([y for y in x if y[0] in ('tag', 'text', 'code', 'cond', 'case', 'each', 'while', 'mixin', 'call', 'mixinblock', 'block')], acc)
                except Exception:
                    pass
            elif isinstance(x, tuple) and x and x[0] in ('cond', 'block'):
                node_kinds([x], acc)
        if n[0] == 'case':
            for w, body in n[2]:
                node_kinds(body, acc)
    return acc
