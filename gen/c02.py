# C02 — conditionals, case, each and while select and repeat exactly as pug prescribes.
import tgen
from core import CoreProp, ser, de

KINDS = {'text': 3, 'buf': 4, 'assign': 3, 'tag': 2, 'if': 4, 'case': 2, 'each': 4, 'while': 2, 'void': 1}
FALSY = [0, b"", False, None]


def has_kind(nodes, kinds):
    acc = {}
    tgen.node_kinds(nodes, acc)
    return any(k in acc for k in kinds)


class C02(CoreProp):
    id = "C02"
    prop_module = "Props.C02"
    prop_file = "Props/C02.v"
    coq_targets = ["Props/C02.vo", "Props/C02Fuel.vo", "Run/Judge_Core.vo", "Props/Tables.vo"]
    extra_props = [("Props/C02Fuel.v", "Props.C02Fuel")]
    sizes = {"quick": 320, "thorough": 2400}
    shard = 12
    design_ref = "DESIGN.md section 6/C02"
    rule = ("random nestings (depth <= 4 quick, 5 thorough) of if / else-if / else, case / when / default, each over arrays "
            "(value and index), object literals and data maps (key, value), counter-driven and never-ending while loops, "
            "unbuffered declarations / re-assignments / ++ inside every body and buffered prints of those variables after the "
            "construct; data with falsy scalars (0, \"\", false, null) as top-level values and as loop elements, empty and "
            "missing collections; each template rendered with two data values by the real engine; "
            "non-trivial = the template contains at least one of if/case/each/while with a non-empty body; distinct by SHA-1")
    trusted = [
        "M = Pug/Compile.v (transform_conditional/case/each/while), Tmpl/IR.v (block structure of parse.go), Tmpl/Exec.v "
        "(walkIfOrWith, walkRange incl. the range-<bool> while loop and its cap, the never-popped variable stack), "
        "Tmpl/Runtime.v: hand-written Gallina reading of the Go code, compared with the real engine on every case",
        "S = Spec/Sem.v (sem_nodes): pug's control semantics over a flat environment with ECMA-262 truthiness",
        "the while cap is the literal 10000 in walkRange: the model's while_cap is tied to it by the never-ending-while cases "
        "(tick counter in the harness is not needed: the body prints)",
    ]
    assumptions = [
        "test and when expressions are in the C01 core subset and domain (integers |n| < 10^10, same-type comparison)",
        "while tests are boolean-valued (a number/string-valued test is a loud execution error, outside the property's domain)",
        "data maps iterate in sorted key order, object literals in source order; objects grown from {} are a listed finding class",
    ]
    not_yet_proved = [
        "now a theorem (C02_control_simulation, C02_program_scalar, C02_program_each, C02_each_simulation; Proofs/C02SimProofs.v + "
        "C01EvalProofs.v + C02InstProofs.v): for the control fragment — text, doctype, tags without attributes, escaped buffered code, "
        "buffered string / number / boolean / null literals, var / assignment / ++, if / else-if / else, case / when / default, while "
        "with the cap, and each (with and without key) over a plain variable that holds an array of scalars or a data map of scalars "
        "(or null / undefined / nothing) — over the scalar expression fragment (goodS: literals, variables, the core operators, ! "
        "unary - ?:, operands that can be dead without +) and top-level data that is a map with lower-first keys of in-range scalars "
        "and, under keys that are not scalar names, arrays of scalars (< 10^10 elements) and maps of scalars (keys listed ascending), "
        "the executor run on the TREE-LEVEL lowering (Pug/Lower.v lower_nodes) prints exactly what S (Spec/Sem.v sem_run) prescribes "
        "when S raises no deviation flag, and ends in the execution error exactly when S prescribes the while-bound error (or the "
        "model's fuel runs out: OFuel). Scoping discipline of the lowering (checked by lower, needed because the engine never pops a "
        "variable): an each-variable is mentioned inside its own loop only, loop variables are distinct and not re-used by a nested "
        "each, `global` is never mentioned, a doctype and a case do not occur in one program (trim marker). The tie lower_nodes = "
        "parse_program (compile nodes) is checked per case by the judge (Run/Judge_Core.v lower_seam), not proved",
        "remains on the correspondence run: each over object literals / nested collections / expressions other than a variable, "
        "loop variables read after their loop or shadowing a bound name (listed finding F-C02-f), mixins and blocks, attributes, "
        "unescaped buffered code of non-literals, expressions over the heap (arrays, objects, member, index, method calls), data with "
        "nested collections, and the token-level step parse_program (compile nodes) = lower_nodes as ONE theorem through "
        "Pug/Compile.v's byte output and the token parser; for those the executor-level theorems of Proofs/C02Proofs.v (first-truthy "
        "selection, once-per-element iteration in order, what is iterated, while rounds, the cap error, flat variables, fuel "
        "monotonicity) stay the proved part and every case is judged against BOTH the model and S",
    ]

    def generate(self, rng, n, tier):
        cases = []
        for i in range(n):
            g = tgen.TGen(rng, offdomain=0.0, max_depth=3)
            data, env = g.data()
            # falsy scalars at top level and inside collections (where F-C02-a lived)
            if rng.random() < 0.5:
                data[b"n"] = 0
            if rng.random() < 0.4:
                data[b"s"] = b""
            if rng.random() < 0.5:
                data[b"xs"] = [rng.choice([0, 1, 2, 0, 7]) for _ in range(rng.choice([0, 1, 3, 4]))]
            if rng.random() < 0.5:
                data[b"ws"] = [rng.choice([b"", b"a", b"0", b"b c"]) for _ in range(rng.choice([0, 2, 3]))]
            depth = rng.choice([1, 2, 2, 3, 3, 4 if tier == "quick" else 5])
            nodes = g.nodes(env, rng.choice([2, 3, 4, 5]), depth, KINDS)
            k = rng.random()
            capcase = k < 0.04
            if k < 0.015:
                # a while whose test never becomes false: the prescribed error after the cap
                c = g.fresh(b"c")
                nodes.append(('code', [('vars', [('var', c, ('num', 0))])], False, False))
                nodes.append(('while', ('bin', '<', ('num', 0), ('num', 1)),
                              [('code', [('expr', ('un', '++', ('id', c)))], False, False)]))
            elif k < 0.025:
                # two loops that each stay below the bound but exceed it together: the bound is per loop
                capcase = True
                for lim in (rng.choice([6000, 9000]), rng.choice([6000, 5000])):
                    c = g.fresh(b"c")
                    nodes.append(('code', [('vars', [('var', c, ('num', 0))])], False, False))
                    nodes.append(('while', ('bin', '<', ('id', c), ('num', lim)),
                                  [('code', [('expr', ('un', '++', ('id', c)))], False, False)]))
                    nodes.append(('code', [('expr', ('id', c))], True, True))
            elif k < 0.04:
                # exactly at the bound: 9999 / 10000 / 10001 iterations
                c = g.fresh(b"c")
                lim = rng.choice([9999, 10000, 10001])
                nodes.append(('code', [('vars', [('var', c, ('num', 0))])], False, False))
                nodes.append(('while', ('bin', '<', ('id', c), ('num', lim)),
                              [('code', [('expr', ('un', '++', ('id', c)))], False, False)]))
                nodes.append(('code', [('expr', ('id', c))], True, True))
            if rng.random() < 0.25:
                nodes.extend(self.shadow_loops(g, rng, env))
            if rng.random() < 0.08:
                # an empty array / object as a test (listed finding F-C02-e), an object grown from {} (F-C02-c)
                if rng.random() < 0.5:
                    nodes.append(('cond', rng.choice([('id', b"xs"), ('arr', []), ('obj', [])]), [('text', b"T")], ('block', [('text', b"F")])))
                else:
                    o = g.fresh(b"v")
                    nodes.append(('code', [('vars', [('var', o, ('obj', []))])], False, False))
                    for kk in rng.sample([b"b", b"a", b"c"], 2):
                        nodes.append(('code', [('expr', ('assign', ('dot', ('id', o), kk), g.lit('num')))], False, False))
                    nodes.append(('each', g.fresh(b"it"), g.fresh(b"ix"), ('id', o), [('code', [('expr', ('id', b"ix%d" % g.counter))], True, True)]))
            # print every local after the constructs: assignments made inside bodies persist
            for x, t in list(env.types.items()):
                if (x.startswith(b"v") or x.startswith(b"c")) and t in ('num', 'str', 'bool') and rng.random() < 0.7:
                    nodes.append(('text', b"|"))
                    nodes.append(('code', [('expr', ('id', x))], True, True))
            d2, _ = g.data()
            d2 = {k: d2.get(k, v) for k, v in data.items()}
            if rng.random() < 0.5:
                d2[b"p"] = not data.get(b"p", False)
            cases.append({"nodes": ser(nodes), "datas": [ser(data)] if capcase else [ser(data), ser(d2)]})
        return cases

    def shadow_loops(self, g, rng, env):
        """nested each loops that share their value / index names (as hand-written templates do: `each row, i in rows`
        around `each cell, i in row`); the outer variable is read before the inner loop only"""
        v, ix = g.fresh(b"it"), g.fresh(b"ix")
        outer = rng.choice([('arr', [('arr', [('num', 1), ('num', 2)]), ('arr', [('num', 3)]), ('arr', [('num', 4), ('num', 5)])]),
                            ('id', b"os")]) if rng.random() < 0.7 else ('id', b"xs")
        same_v, same_ix = rng.random() < 0.7, rng.random() < 0.7
        iv = v if same_v else g.fresh(b"it")
        iix = ix if same_ix else g.fresh(b"ix")
        if outer[0] == 'arr':
            inner_coll = ('id', v) if not same_v else None
            if inner_coll is None:
                # the collection is read through another name so that the inner loop may reuse the value name
                keep = g.fresh(b"v")
                pre = [('code', [('vars', [('var', keep, ('id', v))])], False, False)]
                inner_coll = ('id', keep)
            else:
                pre = []
        else:
            pre = []
            inner_coll = rng.choice([('id', b"ws"), ('id', b"xs"), ('arr', [('num', 7), ('num', 8)])])
        body = [('text', b"["), ('code', [('expr', ('id', ix))], True, True), ('text', b":")]
        if outer[0] != 'arr' and outer != ('id', b"os"):
            body.append(('code', [('expr', ('id', v))], True, True))
        body += pre
        body.append(('each', iv, iix if rng.random() < 0.8 else None, inner_coll,
                     [('code', [('expr', ('id', iix if rng.random() < 0.5 else iv))], True, True), ('text', b",")]))
        body.append(('text', b"]"))
        return [('each', v, ix, outer, body)]

    def nontrivial(self, case, obs):
        return has_kind(de(case["nodes"]), ('cond', 'case', 'each', 'while'))


PROP = C02()
