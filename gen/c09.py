# C09 — the render rate limit: generated driver histories against a real Engine,
# observed windows judged by the gate acceptor (Models/Gate.v) inside Coq.
# Histories include callers whose context is already over (at a free and at a full
# gate), contexts that end at a chosen point of Render's own progress, and
# cancellations that race a release.
from common import *

OUTCOMES = ["ok", "func_error", "panic"]
CQ_OUTCOME = {"ok": b"o_ok", "not_found": b"o_not_found", "func_error": b"o_func_error", "panic": b"o_panic"}
CQ_CLS = {"ok": b"c_ok", "not_found": b"c_not_found", "error": b"c_error",
          "exec_panic": b"c_exec_panic", "ctx_error": b"c_ctx_error"}
CLS_OUTCOME = {"ok": "ok", "not_found": "not_found", "error": "func_error", "exec_panic": "panic"}


CTX_KINDS = ["cancelled", "expired", "at"]

# Profiles of generated histories: weights of (start live, start with a context that is over or
# ends by itself, release, cancel, race, probe), chance to begin with a burst that fills the gate
# and queues waiters, and how often a picked waiter / leaver is the oldest one.
PROFILES = {
    #             live  dead  rel   canc  race  probe  burst
    "classic":   (0.42, 0.00, 0.32, 0.18, 0.00, 0.08,  0.4),
    "hostile":   (0.30, 0.12, 0.22, 0.18, 0.10, 0.08,  0.0),
    "dead_free": (0.10, 0.50, 0.30, 0.00, 0.04, 0.06,  0.0),   # contexts that are over at a gate with free slots
    "dead_full": (0.12, 0.45, 0.18, 0.08, 0.10, 0.07,  1.0),   # ... at a full gate, slots coming back now and then
    "race":      (0.36, 0.04, 0.06, 0.04, 0.46, 0.04,  1.0),   # cancellation racing a release, again and again
    "mixed":     (0.25, 0.25, 0.20, 0.08, 0.16, 0.06,  0.5),
}
CONTEXT_PROFILES = ["dead_free", "dead_full", "race", "mixed"]


def history(rng, cap, maxlen, profile):
    """A list of driver actions.  [inside]/[waitq] follow what a correct gate would do (a context
    that is over at a free slot: the select may go either way, counted as 'entered') and only bias
    the choice (release when somebody is inside, cancel / race when somebody waits); picks are
    taken modulo the sets the harness really observes."""
    w_live, w_dead, w_rel, w_canc, w_race, w_probe, p_burst = PROFILES[profile]
    biased = profile != "hostile"
    n = rng.randint(10 if profile in CONTEXT_PROFILES else 3, maxlen)
    acts = []
    inside, waitq = 0, []

    def base(op, **kw):
        d = {"op": op, "missing": False, "pick": 0, "outcome": ""}
        d.update(kw)
        return d

    def start(dead):
        nonlocal inside
        missing = rng.random() < 0.2
        a = base("start", missing=missing)
        if dead:
            a["ctx"] = rng.choice(CTX_KINDS)
            if a["ctx"] == "at":
                a["k"] = rng.choice([1, 2, 3, 3, 4, 5])
        acts.append(a)
        over = dead and a["ctx"] != "at"
        if cap == 0 or inside < cap:
            if not missing and not (over and rng.random() < 0.5):
                inside += 1
        elif not over:
            waitq.append("m" if missing else "g")

    def admit():
        nonlocal inside
        while waitq and inside < cap:
            if waitq.pop(0) == "g":
                inside += 1

    def oldest():
        return 0 if rng.random() < 0.6 else rng.randrange(8)

    if biased and cap > 0 and rng.random() < p_burst:
        for _ in range(min(n, cap + rng.randint(1, 3))):   # straight to a full gate with waiters
            start(False)
    while len(acts) < n:
        x = rng.random() * (w_live + w_dead + w_rel + w_canc + w_race + w_probe)
        if x < w_live:
            op = "start"
        elif x < w_live + w_dead:
            op = "dead"
        elif x < w_live + w_dead + w_rel:
            op = "release"
        elif x < w_live + w_dead + w_rel + w_canc:
            op = "cancel"
        elif x < w_live + w_dead + w_rel + w_canc + w_race:
            op = "race"
        else:
            op = "probe"
        if biased:
            if inside == 0 and not waitq and op in ("release", "cancel", "race"):
                op = "dead" if w_dead > w_live else "start"
            elif op == "release" and not inside:
                op = "start"
            elif op == "cancel" and not waitq:
                op = "start"
            elif op == "race" and not (waitq and inside):
                op = "start"          # builds up the queue the next race needs
        if op in ("start", "dead"):
            start(op == "dead")
        elif op == "release":
            acts.append(base("release", pick=rng.randrange(8), outcome=rng.choice(OUTCOMES)))
            if inside:
                inside -= 1
                admit()
        elif op == "cancel":
            k = oldest()
            acts.append(base("cancel", pick=k))
            if waitq:
                waitq.pop(k % len(waitq))
        elif op == "race":
            k = oldest()
            order = rng.choice([0, 0, 1, 1, 1, 2])
            acts.append(base("race", pick=k, pick2=rng.randrange(8), outcome=rng.choice(OUTCOMES), order=order,
                             delay_us=0 if order == 0 else rng.choice([0, 1, 2, 5, 10, 20, 40, 80, 150])))
            if waitq and inside:
                waitq.pop(k % len(waitq))     # gets the error, or takes the slot: either way off the queue
                if rng.random() < 0.5:
                    inside -= 1
                admit()
            elif inside:
                inside -= 1
        else:
            acts.append(base("probe"))
    return acts


def window_events(cap, w, prev_inside, commanded):
    """The window as gate events, in the fixed order documented in Run/Judge_C09.v."""
    ev = []
    dead_start = set()
    if w["op"] in ("start", "refill"):
        over = w.get("ctx") in ("cancelled", "expired")
        ev += [b"Start %d %s" % (r, cq_bool(over)) for r in w["rids"]]
        if over:
            dead_start = set(w["rids"])
    ev += [b"CtxEnd %d" % r for r in w["ended"] if r not in dead_start]
    ent = set(w["entered"])
    fin_ids = {f["rid"] for f in w["finished"]}

    def leave(f):
        o = commanded.get(f["rid"]) or CLS_OUTCOME.get(f["class"], "ok")
        return b"Leave %d %s" % (f["rid"], CQ_OUTCOME[o])

    for f in w["finished"]:
        if f["rid"] in prev_inside:
            ev.append(leave(f))
    for f in w["finished"]:
        if f["rid"] not in prev_inside and f["class"] == "ctx_error" and f["rid"] not in ent:
            ev.append(b"Cancel %d" % f["rid"])
    for f in w["finished"]:
        if f["rid"] not in prev_inside and not (f["class"] == "ctx_error" and f["rid"] not in ent):
            if cap > 0:
                ev.append(b"Enter %d" % f["rid"])
            ev.append(leave(f))
    if cap > 0:
        ev += [b"Enter %d" % r for r in w["entered"] if r not in fin_ids]
    return ev


class C09(Prop):
    id = "C09"
    engine = "C09"
    judge_module = "Run.Judge_C09"
    prop_module = "Props.C09"
    prop_file = "Props/C09.v"
    coq_targets = ["Props/C09.vo", "Run/Judge_C09.vo"]
    sizes = {"quick": 300, "thorough": 5000}
    design_ref = "DESIGN.md section 6 C09, Appendix A"
    rule = ("one case = one real Engine with limit N in 0..4 (WithRateLimit, or Engine.Inject of the config value "
            "on an engine built with another limit) and a generated history of <= 25 (thorough <= 40) driver actions "
            "(context profiles: >= 10): "
            "start a render (template calling the blocking function gate(id), or a missing template) with a live "
            "context, with a context that is ALREADY over (cancelled before the call / deadline in the past) or with "
            "a context that ends by itself at its k-th use (k in 1..5: Render uses its context 3 times up to the template call, so this is before, in and right after the select, or never); tell a "
            "render that is inside to return / fail in a template function / panic; cancel a waiting render's context; "
            "RACE: end a waiting render's context while a render inside is told to leave (both at once, or 0..150 us "
            "apart in either order; the waiter is the oldest one in 60%); probe; then drain and a refill probe with N "
            "fresh renders that must all be inside together.  Profiles: 40% classic (bursts beyond the limit, releases "
            "while others wait), 15% unbiased, 45% context profiles in equal parts - over-contexts at a gate with free "
            "slots alternating with releases, over-contexts at a full gate, race after race with the queue refilled, "
            "mixed - so that a slot lost per such event exhausts the limit within one history.  The histories are "
            "biased by a counting model of a correct gate; non-trivial = some render was observed waiting, or the "
            "limit is disabled and >= 2 renders were inside together, or a context was over at an enabled gate; "
            "distinct by SHA-1 of the case")
    trusted = [
        "the gate is modelled at the level of events Start(context over?)/CtxEnd/Enter/Leave/Cancel per Render call; "
        "that a buffered Go channel of capacity N admits exactly N pending sends, that select takes a ready case and "
        "may take either of two ready cases, that <-ctx.Done() is ready exactly for a context that is over, and that "
        "deferred functions run on return and on panic is the Go runtime's behaviour: assumed by the model, exercised "
        "(not proved) by the correspondence runs",
        "observation: 'inside' = the template function gate(id) was called and Render has not returned; a render of a "
        "missing template is seen only by its return; 'context over' = the driver cancelled it / started it so, or "
        "the self-ending context (harness type c09Ctx, a context.Context that cancels itself at its k-th "
        "Done/Err/Value/Deadline call) has fired; the emitter orders the events of one settle window "
        "(Start, CtxEnd, Leave, Cancel, pass-through, Enter), see Run/Judge_C09.v",
        "which of the two ready select cases the runtime takes, and whether a cancellation issued a few microseconds "
        "around a release lands before or after the hand-over of the slot, is not controlled: the race actions are "
        "repeated many times per run instead; the self-ending contexts make 'the context ends exactly after the slot "
        "was obtained' deterministic",
    ]
    assumptions = [
        "timing words are observed, never proved: a cancelled waiter, and any render whose context is over, must have "
        "returned (or be inside) within 2 s ('promptly'); a render that may enter must be seen inside within 1 s "
        "of the driver action, the final refill within 3 s; a machine stalled for longer than these bounds would "
        "produce a false alarm",
        "the Go scheduler eventually runs every runnable goroutine (fairness); which waiting render enters next is left "
        "to the runtime and not constrained by the model",
        "panics of template functions are recovered by the harness around Engine.Render (the engine itself does not "
        "recover them); classes of outcomes are compared, never error texts",
        "a slot that is taken and never handed back is not visible at the call that loses it; it is observed through "
        "its consequences in the same history: a render waiting although fewer than N are inside, or the refill "
        "probe at the end not getting N renders inside",
    ]
    not_yet_proved = []

    def generate(self, rng, n, tier):
        maxlen = 25 if tier == "quick" else 40
        cases = []
        for i in range(n):
            cap = i % 5
            x = rng.random()
            if x < 0.40:
                profile = "classic"
            elif x < 0.55:
                profile = "hostile"
            else:
                profile = CONTEXT_PROFILES[(i // 5) % len(CONTEXT_PROFILES)]
                if cap == 0 and rng.random() < 0.7:
                    cap = rng.randint(1, 4)       # the gate is what these profiles are about
            via = rng.random() < 0.25
            cases.append({"cap": cap, "via_inject": via,
                          "init": rng.choice([0, 1, 3, 8]) if via else 0,
                          "profile": profile,
                          "actions": history(rng, cap, maxlen, profile)})
        rng.shuffle(cases)
        return cases

    # ---- observation -> Gallina
    def _tables(self, obs):
        commanded, cancels = {}, []
        for w in obs["windows"]:
            fin_ids = {f["rid"] for f in w["finished"]}
            if w["op"] == "start" and w["missing"]:
                commanded[w["rids"][0]] = "not_found"
            elif w["op"] == "release":
                commanded[w["rids"][0]] = w["outcome"]
            elif w["op"] == "race":
                commanded[w["rids"][1]] = w["outcome"]
            elif w["op"] == "drain":
                for r in w["rids"]:
                    commanded[r] = "ok"
            elif w["op"] in ("cancel", "drain_cancel"):
                for r in w["rids"]:
                    cancels.append((r, r in fin_ids))
        return commanded, cancels

    def emit(self, case, obs):
        cap = case["cap"]
        commanded, cancels = self._tables(obs)
        wins, prev = [], set()
        for w in obs["windows"]:
            evs = window_events(cap, w, prev, commanded)
            prev = set(w["inside"])
            wins.append(b"{| w_events := " + cq_list(evs) +
                        b"; w_entered := " + cq_list([cq_nat(r) for r in w["entered"]]) +
                        b"; w_ended := " + cq_list([cq_nat(r) for r in w["ended"]]) +
                        b"; w_inside := " + cq_list([cq_nat(r) for r in w["inside"]]) +
                        b"; w_waiting := " + cq_list([cq_nat(r) for r in w["waiting"]]) +
                        b"; w_returned := " + cq_list([cq_pair(cq_nat(f["rid"]), CQ_CLS.get(f["class"], b"c_other"))
                                                       for f in w["finished"]]) + b" |}")
        return (b"{| cfg := " + cq_nat(cap) + b"; go_limit := " + cq_nat(max(0, min(obs["limit"], 4999))) +
                b"; wins := " + cq_list(wins) +
                b"; cancels := " + cq_list([cq_pair(cq_nat(r), cq_bool(p)) for r, p in cancels]) +
                b"; commanded := " + cq_list([cq_pair(cq_nat(r), CQ_OUTCOME[o]) for r, o in sorted(commanded.items())]) +
                b"; refill_ok := " + cq_bool(obs["refill_ok"]) + b" |}")

    def nontrivial(self, case, obs):
        ws = obs["windows"]
        if case["cap"] == 0:
            return any(len(w["inside"]) >= 2 for w in ws)
        return any(w["waiting"] or w["ended"] for w in ws)

    def sample(self, case, obs):
        def act(a):
            if a["op"] == "start":
                c = a.get("ctx", "")
                return ("start-missing" if a["missing"] else "start") + \
                    ("" if not c else "[ctx %s%s]" % (c, (" %d" % a.get("k", 1)) if c == "at" else ""))
            if a["op"] == "release":
                return "release#%d:%s" % (a["pick"], a["outcome"])
            if a["op"] == "cancel":
                return "cancel#%d" % a["pick"]
            if a["op"] == "race":
                return "race(cancel#%d, release#%d:%s, %s)" % (
                    a["pick"], a.get("pick2", 0), a["outcome"],
                    ["at once", "release, %d us, cancel", "cancel, %d us, release"][a.get("order", 0) % 3]
                    % (() if a.get("order", 0) % 3 == 0 else (a.get("delay_us", 0),)))
            return a["op"]
        return {"limit": case["cap"], "via_inject": case["via_inject"], "init": case["init"],
                "profile": case.get("profile", ""),
                "actions": [act(a) for a in case["actions"]],
                "observed": ["%s%s%s%s -> returned %s inside %s waiting %s%s" % (
                    w["op"], w["rids"], (":" + w["outcome"]) if w.get("outcome") else "",
                    (" ctx=" + w["ctx"]) if w.get("ctx") else "",
                    ["%d:%s" % (f["rid"], f["class"]) for f in w["finished"]], w["inside"], w["waiting"],
                    (" context over: %s" % w["ended"]) if w["ended"] else "")
                    for w in obs["windows"]],
                "get_rate_limit": obs["limit"], "refill_ok": obs["refill_ok"]}

    @staticmethod
    def _chance(case):
        """Actions whose outcome the Go runtime decides (select between two ready cases, a
        cancellation a few microseconds around a release)."""
        return sum(1 for a in case["actions"]
                   if a["op"] == "race" or (a["op"] == "start" and a.get("ctx") in ("cancelled", "expired")))

    def shrink(self, case):
        # a witness that depends on the runtime's choice needs several attempts to show reliably:
        # candidates keep at least 6 such actions (or all, if there are fewer)
        keep = min(self._chance(case), 6)
        for c in self._shrink(case):
            if self._chance(c) >= keep:
                yield c

    def _shrink(self, case):
        acts = case["actions"]
        n = len(acts)
        if case["via_inject"]:
            yield dict(case, via_inject=False, init=0)
        k = n // 2
        while k >= 1:
            for i in range(0, n, k):
                if acts[:i] + acts[i + k:] != acts:
                    yield dict(case, actions=acts[:i] + acts[i + k:])
            k //= 2
        for i, a in enumerate(acts):
            def repl(b):
                return dict(case, actions=acts[:i] + [b] + acts[i + 1:])
            if a["op"] in ("release", "race") and a["outcome"] != "ok":
                yield repl(dict(a, outcome="ok"))
            if a["op"] == "start" and a["missing"]:
                yield repl(dict(a, missing=False))
            if a["op"] == "start" and a.get("ctx"):
                yield repl({k2: v for k2, v in a.items() if k2 not in ("ctx", "k")})
            if a["op"] == "race":
                yield repl({"op": "release", "missing": False, "pick": a.get("pick2", 0), "outcome": a["outcome"]})
                yield repl({"op": "cancel", "missing": False, "pick": a["pick"], "outcome": ""})

    def model_expr(self):
        return "(reach (cfg c) (flat_map w_events (wins c)), model_states (Some (gate_init (cfg c))) (wins c))"

    def distribution(self, cases, obss):
        d = {"per_limit": {}, "per_profile": {}, "via_inject": 0, "actions": 0, "renders": 0,
             "cancelled_while_waiting": 0,
             "started_with_context_over": 0, "context_over_at_free_slot": 0, "context_over_at_full_gate": 0,
             "context_over_got_error": 0, "context_over_entered": 0,
             "self_ending_contexts": 0, "self_ending_fired": 0,
             "races": 0, "race_waiter_got_error": 0, "race_waiter_took_slot": 0,
             "left_ok": 0, "left_not_found": 0, "left_func_error": 0, "left_panic": 0,
             "max_waiting": 0, "windows": 0, "windows_not_settled": 0, "goroutines_left_blocked": 0}
        for c, o in zip(cases, obss):
            cap = c["cap"]
            d["per_limit"][str(cap)] = d["per_limit"].get(str(cap), 0) + 1
            pr = c.get("profile", "corpus")
            d["per_profile"][pr] = d["per_profile"].get(pr, 0) + 1
            d["via_inject"] += c["via_inject"]
            d["actions"] += len(c["actions"])
            d["goroutines_left_blocked"] += o.get("leftover", 0)
            commanded, cancels = self._tables(o)
            d["cancelled_while_waiting"] += len(cancels)
            prev_inside = 0
            at = set()
            for w in o["windows"]:
                d["windows"] += 1
                d["windows_not_settled"] += not w["settled"]
                d["max_waiting"] = max(d["max_waiting"], len(w["waiting"]))
                fin = {f["rid"]: f["class"] for f in w["finished"]}
                if w["op"] in ("start", "refill"):
                    d["renders"] += len(w["rids"])
                if w["op"] == "start" and w.get("ctx") in ("cancelled", "expired"):
                    r = w["rids"][0]
                    d["started_with_context_over"] += 1
                    if cap > 0:
                        d["context_over_at_full_gate" if prev_inside >= cap else "context_over_at_free_slot"] += 1
                    if fin.get(r) == "ctx_error":
                        d["context_over_got_error"] += 1
                    elif r in w["entered"] or r in fin:
                        d["context_over_entered"] += 1
                if w["op"] == "start" and w.get("ctx") == "at":
                    d["self_ending_contexts"] += 1
                    at.add(w["rids"][0])
                d["self_ending_fired"] += len([r for r in w["ended"] if r in at])
                if w["op"] == "race":
                    d["races"] += 1
                    r = w["rids"][0]
                    if fin.get(r) == "ctx_error":
                        d["race_waiter_got_error"] += 1
                    elif r in w["entered"] or r in fin:
                        d["race_waiter_took_slot"] += 1
                for f in w["finished"]:
                    if f["class"] != "ctx_error":
                        k = "left_" + (commanded.get(f["rid"]) or CLS_OUTCOME.get(f["class"], "ok"))
                        d[k] = d.get(k, 0) + 1
                prev_inside = len(w["inside"])
        return d


PROP = C09()
