# C09 — the render rate limit: generated driver histories against a real Engine,
# observed windows judged by the gate acceptor (Models/Gate.v) inside Coq.
# Histories include callers whose context is already over (at a free and at a full
# gate), contexts that end at a chosen point of Render's own progress, and
# cancellations that race a release.  Callers that ARRIVE TOGETHER (Render calls released by
# one barrier at the same instant): as an action of any history, and - profile "together" - as
# rounds repeated hundreds of times on one engine, with waiting callers cancelled while the gate
# is still full.  Every way a render is started: requests are Engine.Render calls or
# Engine.RenderPartials calls with several partials (blocking / plain / unknown), released partial
# by partial, failing at any partial; engines in both modes (Debug = true reloads per render).
from common import *

OUTCOMES = ["ok", "func_error", "panic"]
CQ_OUTCOME = {"ok": b"o_ok", "not_found": b"o_not_found", "func_error": b"o_func_error", "panic": b"o_panic"}
CQ_CLS = {"ok": b"c_ok", "not_found": b"c_not_found", "error": b"c_error",
          "exec_panic": b"c_exec_panic", "ctx_error": b"c_ctx_error"}
CLS_OUTCOME = {"ok": "ok", "not_found": "not_found", "error": "func_error", "exec_panic": "panic"}


CTX_KINDS = ["cancelled", "expired", "at"]

# Profiles of generated histories: weights of (start live, start with a context that is over or
# ends by itself, release, cancel, race, probe), chance to begin with a burst that fills the gate
# and queues waiters, and how often a picked waiter / leaver is the oldest one.
PROFILES = {
    #             live  dead  rel   canc  race  probe  burst
    "classic":   (0.42, 0.00, 0.32, 0.18, 0.00, 0.08,  0.4),
    "hostile":   (0.30, 0.12, 0.22, 0.18, 0.10, 0.08,  0.0),
    "dead_free": (0.10, 0.50, 0.30, 0.00, 0.04, 0.06,  0.0),   # contexts that are over at a gate with free slots
    "dead_full": (0.12, 0.45, 0.18, 0.08, 0.10, 0.07,  1.0),   # ... at a full gate, slots coming back now and then
    "race":      (0.36, 0.04, 0.06, 0.04, 0.46, 0.04,  1.0),   # cancellation racing a release, again and again
    "mixed":     (0.25, 0.25, 0.20, 0.08, 0.16, 0.06,  0.5),
    "together":  (0.45, 0.05, 0.25, 0.15, 0.05, 0.05,  0.0),   # short history in front of the rounds
    "partials":  (0.34, 0.06, 0.40, 0.08, 0.06, 0.06,  0.3),   # requests for several partials, released partial by partial
}

# Share of the requests that are RenderPartials calls (the others: Render), per profile.
P_PARTIALS = {"partials": 0.8, "together": 0.35}
P_PARTIALS_DEFAULT = 0.25
P_DEBUG = 0.3          # share of the engines with Debug = true


def partials(rng, blocking=False):
    """The partials of one RenderPartials request, 1..4 (rarely 5) kinds: 'g' its template calls the
    blocking function, 't' plain text, 'm' unknown partial (the request ends there with an error;
    what follows is never rendered).  [blocking]: at least one 'g' in front of any 'm'."""
    n = rng.choice([1, 2, 2, 2, 3, 3, 4, 5])
    ps = [rng.choice("ggggggtttm") for _ in range(n)]
    if blocking:
        ps[rng.randrange(n) if "m" not in ps else 0] = "g"
    return ps


def blocking_steps(ps):
    """how often a request with these partials reports from inside before it is over (if every
    blocking partial is told to return normally)"""
    k = 0
    for x in ps:
        if x == "m":
            break
        k += x == "g"
    return k

ROUNDS = {"quick": 120, "thorough": 300}     # rounds per case of the profile "together"
TOGETHER_EVERY = {"quick": 12, "thorough": 36}
PROCS = [0, 0, 8, 4, 2]                       # GOMAXPROCS of such a case (0: all processors)


def shapes(rng, cap, total):
    """1..3 kinds of round that take turns; together [total] rounds."""
    n = rng.randint(1, 3)
    res = []
    for i in range(n):
        pre = 0 if cap <= 1 or rng.random() < 0.5 else rng.randint(1, cap - 1)
        free = cap - pre if cap > 0 else 0
        k = min(8, free + rng.randint(1, 4)) if cap > 0 else rng.randint(2, 6)
        allw = rng.random() < 0.5
        res.append({"pre": pre, "k": k,
                    "cancel": 0 if allw or cap == 0 else rng.randint(1, max(1, k - free)),
                    "pick": rng.randrange(8),
                    "outcome": rng.choice(["ok"] * 5 + ["func_error", "panic"]),
                    "reps": total // n + (1 if i < total % n else 0)})
        if rng.random() < 0.4:       # the callers are requests for several partials
            res[-1]["partials"] = rng.choice([["g", "g"], ["g", "t"], ["t", "g"], ["g", "m"], ["g", "t", "g"],
                                              ["g", "g", "t"], ["t", "g", "g"], ["g"]])
            res[-1]["outcome"] = rng.choice(["ok", "ok", "func_error", "panic"])
    return res
CONTEXT_PROFILES = ["dead_free", "dead_full", "race", "mixed"]


def history(rng, cap, maxlen, profile):
    """A list of driver actions.  [ins]/[waitq] follow what a correct gate would do (a context
    that is over at a free slot: the select may go either way, counted as 'entered') and only bias
    the choice (release when somebody is inside, cancel / race when somebody waits); picks are
    taken modulo the sets the harness really observes.  An entry of [ins] / [waitq] is the number
    of times the request still reports from inside (0: it passes the gate and is gone)."""
    w_live, w_dead, w_rel, w_canc, w_race, w_probe, p_burst = PROFILES[profile]
    biased = profile != "hostile"
    p_volley = 0.5 if profile == "together" else 0.12
    p_part = P_PARTIALS.get(profile, P_PARTIALS_DEFAULT)
    n = rng.randint(10 if profile in CONTEXT_PROFILES or profile == "partials" else 3, maxlen)
    acts = []
    ins, waitq = [], []

    def base(op, **kw):
        d = {"op": op, "missing": False, "pick": 0, "outcome": ""}
        d.update(kw)
        return d

    def arrive(k):
        if cap == 0 or len(ins) < cap:
            if k:
                ins.append(k)
        else:
            waitq.append(k)

    def volley():
        k = rng.randint(2, 4)
        a = base("volley", n=k)
        b = 1
        if rng.random() < p_part:
            a["partials"] = partials(rng, blocking=rng.random() < 0.8)
            b = blocking_steps(a["partials"])
        acts.append(a)
        for _ in range(k):
            arrive(b)

    def start(dead):
        if not dead and rng.random() < p_volley:
            return volley()
        a = base("start")
        if rng.random() < p_part:
            a["partials"] = partials(rng)
            b = blocking_steps(a["partials"])
        else:
            a["missing"] = rng.random() < 0.2
            b = 0 if a["missing"] else 1
        if dead:
            a["ctx"] = rng.choice(CTX_KINDS)
            if a["ctx"] == "at":
                # Render uses its context 3 times up to the template call: k reaches into the later partials
                a["k"] = rng.choice([1, 2, 3, 3, 4, 5] + ([6, 7, 8, 9, 10, 12] if a.get("partials") else []))
        acts.append(a)
        over = dead and a["ctx"] != "at"
        if cap == 0 or len(ins) < cap:
            if b and not (over and rng.random() < 0.5):
                ins.append(b)
        elif not over:
            waitq.append(b)

    def admit():
        while waitq and len(ins) < cap:
            k = waitq.pop(0)
            if k:
                ins.append(k)

    def leave(outcome):
        """one request inside is told its way out"""
        i = rng.randrange(len(ins))
        if outcome == "ok" and ins[i] > 1:
            ins[i] -= 1           # on to its next partial (as if it got its slot again)
        else:
            ins.pop(i)
            admit()

    def oldest():
        return 0 if rng.random() < 0.6 else rng.randrange(8)

    def outcome():
        return rng.choice(OUTCOMES + (["func_error", "panic"] if profile == "partials" else []))

    if biased and cap > 0 and rng.random() < p_burst:
        for _ in range(min(n, cap + rng.randint(1, 3))):   # straight to a full gate with waiters
            start(False)
    while len(acts) < n:
        x = rng.random() * (w_live + w_dead + w_rel + w_canc + w_race + w_probe)
        if x < w_live:
            op = "start"
        elif x < w_live + w_dead:
            op = "dead"
        elif x < w_live + w_dead + w_rel:
            op = "release"
        elif x < w_live + w_dead + w_rel + w_canc:
            op = "cancel"
        elif x < w_live + w_dead + w_rel + w_canc + w_race:
            op = "race"
        else:
            op = "probe"
        if biased:
            if not ins and not waitq and op in ("release", "cancel", "race"):
                op = "dead" if w_dead > w_live else "start"
            elif op == "release" and not ins:
                op = "start"
            elif op == "cancel" and not waitq:
                op = "start"
            elif op == "race" and not (waitq and ins):
                op = "start"          # builds up the queue the next race needs
        if op in ("start", "dead"):
            start(op == "dead")
        elif op == "release":
            o = outcome()
            acts.append(base("release", pick=rng.randrange(8), outcome=o))
            if ins:
                leave(o)
        elif op == "cancel":
            k = oldest()
            acts.append(base("cancel", pick=k))
            if waitq:
                waitq.pop(k % len(waitq))
        elif op == "race":
            k = oldest()
            order = rng.choice([0, 0, 1, 1, 1, 2])
            o = outcome()
            acts.append(base("race", pick=k, pick2=rng.randrange(8), outcome=o, order=order,
                             delay_us=0 if order == 0 else rng.choice([0, 1, 2, 5, 10, 20, 40, 80, 150])))
            if waitq and ins:
                waitq.pop(k % len(waitq))     # gets the error, or takes the slot: either way off the queue
                if rng.random() < 0.5:
                    leave(o)
                admit()
            elif ins:
                leave(o)
        else:
            acts.append(base("probe"))
    return acts


class Emitter:
    """Turns the windows of one history (the case's own, or one round) into request events of
    Models/Gate.v, in the fixed order documented in Run/Judge_C09.v, and collects the tables
    [commanded] (the way out a request was told to take, or - never told - the way out its list
    of partials prescribes: an unknown partial = not found, otherwise ok) and [cancels].
    Names of renders: request * 8 + number of the partial."""

    def __init__(self, cap):
        self.cap = cap
        self.steps, self.pos, self.sub, self.gc = {}, {}, {}, {}
        self.commanded, self.cancels = {}, []
        self.prev = set()

    def name(self, q):
        k = self.sub.get(q, 1)
        self.sub[q] = k + 1
        return q * 8 + min(k, 7)

    def enter(self, q):
        return [b"REnter %d" % q] if self.cap > 0 else []

    def next(self, q):
        self.pos[q] = self.pos.get(q, 0) + 1
        return [b"RNext %d %d" % (q, self.name(q))]

    def walk_in(self, q):
        """the request reported from inside: it is in its next blocking partial, after passing
        through the plain ones in front of it"""
        steps, p = self.steps.get(q, ["g"]), self.pos.get(q, 0)
        self.gc[q] = self.gc.get(q, 0) + 1
        gs = [i for i, k in enumerate(steps) if k == "g"]
        idx = gs[self.gc[q] - 1] if self.gc[q] <= len(gs) else p
        ev = []
        for _ in range(p, idx):
            ev += self.enter(q) + self.next(q)
        return ev + self.enter(q)

    def walk_out(self, q, cls):
        """the request returned without reporting from inside (again): plain partials up to the
        end, or up to an unknown partial"""
        steps, p = self.steps.get(q, ["g"]), self.pos.get(q, 0)
        idx, o = len(steps) - 1, "ok"
        for i in range(p, len(steps)):
            if steps[i] == "m":
                idx, o = i, "not_found"
                break
            if steps[i] == "g":   # cannot be passed unseen: the class has to speak for itself
                idx, o = i, CLS_OUTCOME.get(cls, "ok")
                break
        idx = max(idx, p)
        o = self.commanded.setdefault(q, o)
        ev = []
        for _ in range(p, idx):
            ev += self.enter(q) + self.next(q)
        return ev + self.enter(q) + [b"RReturn %d %s" % (q, CQ_OUTCOME[o])]

    def window(self, w):
        ev = []
        dead_start = set()
        if w["op"] in ("start", "refill"):
            over = w.get("ctx") in ("cancelled", "expired")
            steps = list(w.get("partials") or []) or (["m"] if w.get("missing") else ["g"])
            for q in w["rids"]:
                self.steps[q], self.pos[q] = steps, 0
                ev.append(b"RCall %d %d %s" % (q, q * 8, cq_bool(over)))
            if over:
                dead_start = set(w["rids"])
        ev += [b"REnd %d" % q for q in w["ended"] if q not in dead_start]
        ent = set(w["entered"])
        fin_ids = {f["rid"] for f in w["finished"]}
        moved = list(w.get("moved") or [])
        # what the driver told in this window
        told = {}
        if w["op"] == "release":
            told[w["rids"][0]] = w["outcome"]
        elif w["op"] == "race":
            told[w["rids"][1]] = w["outcome"]
        elif w["op"] == "drain":
            for q in w["rids"]:
                told[q] = w.get("outcome") or "ok"
        elif w["op"] in ("cancel", "drain_cancel"):
            for q in w["rids"]:
                self.cancels.append((q, q in fin_ids))
        for q, o in told.items():
            if q not in moved:
                self.commanded[q] = o
        for q in moved:                    # slot handed back, on to the next partial
            ev += self.next(q)
        done = set()
        for f in w["finished"]:            # were inside: the deferred receive
            q = f["rid"]
            if q in self.prev and q not in moved:
                o = self.commanded.setdefault(q, CLS_OUTCOME.get(f["class"], "ok"))
                ev.append(b"RReturn %d %s" % (q, CQ_OUTCOME[o]))
                done.add(q)
        for f in w["finished"]:            # at the gate: the context error
            q = f["rid"]
            if q not in done and f["class"] == "ctx_error" and q not in ent:
                ev.append(b"RError %d" % q)
                done.add(q)
        for f in w["finished"]:            # through the gate and out within the window
            q = f["rid"]
            if q not in done:
                if q in ent:
                    ev += self.walk_in(q)
                    o = self.commanded.setdefault(q, CLS_OUTCOME.get(f["class"], "ok"))
                    ev.append(b"RReturn %d %s" % (q, CQ_OUTCOME[o]))
                else:
                    ev += self.walk_out(q, f["class"])
        for q in w["entered"]:             # newly inside
            if q not in fin_ids:
                ev += self.walk_in(q)
        self.prev = set(w["inside"])
        return ev


def emit_history(cap, windows):
    em = Emitter(cap)
    return [em.window(w) for w in windows], em.commanded, em.cancels


class C09(Prop):
    id = "C09"
    engine = "C09"
    judge_module = "Run.Judge_C09"
    prop_module = "Props.C09"
    prop_file = "Props/C09.v"
    coq_targets = ["Props/C09.vo", "Run/Judge_C09.vo"]
    sizes = {"quick": 300, "thorough": 5000}
    design_ref = "DESIGN.md section 6 C09, Appendix A"
    rule = ("one case = one real Engine with limit N in 0..4 (WithRateLimit, or Engine.Inject of the config value "
            "on an engine built with another limit), in debug mode (Engine.Debug = true: every render reloads its "
            "template first) in 30% of the cases, and a generated history of <= 25 (thorough <= 40) driver actions "
            "(context profiles: >= 10): "
            "start a REQUEST - Engine.Render (template calling the blocking function gate(id), or a missing template) "
            "or, 25% of the requests (80% in the profile 'partials', 35% in 'together'), Engine.RenderPartials with "
            "1..5 partials, each a partial whose template calls gate(id) (60%), a partial of plain text (30%) or an "
            "unknown partial (10%; the request ends there, later partials are never rendered) - with a live "
            "context, with a context that is ALREADY over (cancelled before the call / deadline in the past) or with "
            "a context that ends by itself at its k-th use (k in 1..5, for partials requests 1..12: Render uses its context 3 times up to the template call, so this is before, in and right after the select of the first or of a later partial, or never); "
            "start 2..4 renders that ARRIVE TOGETHER (their goroutines wait on one barrier, spinning on a start flag, "
            "and call Render / RenderPartials at the same instant; 12% of the live starts, 6% of all actions); tell a "
            "request that is inside (one of its templates is executing) to return / fail in a template function / "
            "panic - a blocking partial that is not the last one and is told to return hands its slot back and the "
            "request goes to the gate again for its next partial, where it may find the slot taken by a waiting "
            "caller, wait, and be cancelled; cancel a waiting request's context; "
            "RACE: end a waiting render's context while a render inside is told to leave (both at once, or 0..150 us "
            "apart in either order; the waiter is the oldest one in 60%); probe; then drain and a refill probe with N "
            "fresh renders that must all be inside together.  Profiles: 26% classic (bursts beyond the limit, releases "
            "while others wait), 11% unbiased, 16% partials (mostly RenderPartials requests, released partial by "
            "partial, 60% of the exits failing), 39% context profiles in equal parts - over-contexts at a gate with free "
            "slots alternating with releases, over-contexts at a full gate, race after race with the queue refilled, "
            "mixed - so that a slot lost per such event exhausts the limit within one history; 1/12 (8%) of the cases "
            "'together': a short history, then ROUNDS on the same engine between drain and refill probe - 120 per case "
            "(quick 25 cases = 3000 rounds, plus 500 rounds of two corpus witnesses; thorough 300 per case, 1/36 of the cases = 139 cases = 41700 rounds) of 1..3 kinds taking turns: p in 0..N-1 renders are put inside "
            "(f = N-p free slots, 1 <= f <= N), k = f+1..f+4 (<= 8) callers arrive together so that f get in and the rest "
            "waits, the contexts of all (50%) or of 1..k-f of the waiting ones are ended while the renders inside are "
            "still held and each must come back with the context error within the bound (10 s) while the gate is still full, "
            "then those inside leave (ok 5/7, failing template function 1/7, panic 1/7), the remaining waiters get in and "
            "leave; in 40% of the kinds the callers are RenderPartials requests with 1..3 partials (then half of the "
            "exits fail), which go through the gate once per partial; limits 1,1,1,2,2,3,4 (8%: disabled, nobody may wait); such cases run one at a time with GOMAXPROCS "
            "16,16,8,4,2 in turn; a round is judged as a history of its own (theorem C09_round_reset), identical round "
            "records are judged once; a round in which a step does not finish within the bound ends the rounds of its case, "
            "and after 5 such cases the later cases of the run drive no rounds (saves time on a broken tree).  The histories are "
            "biased by a counting model of a correct gate; non-trivial = some request was observed waiting, or the "
            "limit is disabled and >= 2 renders were inside together, or a context was over at an enabled gate; "
            "distinct by SHA-1 of the case")
    trusted = [
        "requests: the model of RenderPartials is the loop of pugjs/engine.go - one Render call per partial with the "
        "request's context, return at the first error, a panic of a template function leaves the loop - as request "
        "events RCall/REnd/REnter/RNext/RReturn/RError over the gate (Models/Gate.v, theorem C09_requests_refine: every "
        "accepted request history is an accepted gate history); that nothing but Render touches the slot channel on "
        "behalf of a request is read off the code and exercised by the runs, not proved about the Go source",
        "engine modes: the gate block of Render does not read Engine.Debug; the model has no mode and is compared with "
        "engines in both modes (dbg in the case record is informative); in debug mode every render calls "
        "LoadTemplates(name) after the gate - the harness does not observe the load, only that the bound, the waiting "
        "and the release on every exit are the same",
        "observation of requests: all partials of a request get the same data, the n-th gate(id) call with the id of a "
        "request is its n-th blocking partial; plain and unknown partials are not seen from inside, the emitter infers "
        "that they were passed (each takes and returns a slot in the model) from the list of partials and from how far "
        "the request got; a request told to go on to its next partial is counted as waiting from that moment "
        "(window field moved) although its slot is handed back some microseconds later",
        "the gate is modelled at the level of events Start(context over?)/CtxEnd/Enter/Leave/Cancel per Render call; "
        "that a buffered Go channel of capacity N admits exactly N pending sends, that select takes a ready case and "
        "may take either of two ready cases, that <-ctx.Done() is ready exactly for a context that is over, and that "
        "deferred functions run on return and on panic is the Go runtime's behaviour: assumed by the model, exercised "
        "(not proved) by the correspondence runs",
        "observation: 'inside' = the template function gate(id) was called and Render has not returned; a render of a "
        "missing template is seen only by its return; 'context over' = the driver cancelled it / started it so, or "
        "the self-ending context (harness type c09Ctx, a context.Context that cancels itself at its k-th "
        "Done/Err/Value/Deadline call) has fired; the emitter orders the events of one settle window "
        "(Start, CtxEnd, Leave, Cancel, pass-through, Enter), see Run/Judge_C09.v",
        "which of the two ready select cases the runtime takes, and whether a cancellation issued a few microseconds "
        "around a release lands before or after the hand-over of the slot, is not controlled: the race actions are "
        "repeated many times per run instead; the self-ending contexts make 'the context ends exactly after the slot "
        "was obtained' deterministic",
        "callers that arrive together: the model interleaves (k Start events, then Enter events) - that Render calls "
        "which overlap in time behave like some interleaving of their gate operations is Go's channel semantics, "
        "assumed; how closely the calls really coincide (goroutines released by one store to a flag they spin on, "
        "each then runs the few hundred instructions of Render in front of the gate) is not controlled or measured, "
        "the rounds are repeated hundreds of times per case and under several GOMAXPROCS settings instead",
        "rounds: the harness numbers the renders of every round from 1 and reports rounds with identical records once "
        "(sorted by render number inside a window); the judge runs oracle and acceptor afresh per round.  For the "
        "acceptor this is theorem C09_round_reset together with the check that a round ended with nobody inside and "
        "nobody waiting; that re-numbering the renders is harmless is the shift in that theorem",
    ]
    assumptions = [
        "timing words are observed, never proved: a cancelled waiter, and any render whose context is over, must have "
        "returned (or be inside) within 2 s ('promptly'); a render that may enter must be seen inside within 2 s "
        "of the driver action, the final refill within 3 s; in the rounds every step, the return of a cancelled "
        "waiter included, has 10 s (tens of thousands of steps per run; on this machine, when short of memory, single "
        "threads were seen to stand still for more than 3 s); a machine stalled for longer than these bounds would "
        "produce a false alarm",
        "the Go scheduler eventually runs every runnable goroutine (fairness); which waiting render enters next is left "
        "to the runtime and not constrained by the model",
        "panics of template functions are recovered by the harness around Engine.Render (the engine itself does not "
        "recover them); classes of outcomes are compared, never error texts",
        "oracle for requests with several partials: 'takes no slot' / 'never was inside' for a request that got the "
        "context error is checked from the window on in which it went to the gate for the last time (it was inside, "
        "rightly, for its earlier partials); a slot kept ACROSS partials by a request is not an error the oracle "
        "names by itself - it shows when another caller waits although fewer than N are inside, or at the refill",
        "a slot that is taken and never handed back is not visible at the call that loses it; it is observed through "
        "its consequences in the same history: a render waiting although fewer than N are inside, or the refill "
        "probe at the end not getting N renders inside",
        "a fault that needs two Render calls to be at the gate within the same few instructions shows only in some of "
        "the rounds (measured on such a fault: one round in 20..200 at limit 1 with 4 callers on 16 processors); the "
        "3500 rounds of a quick run make a miss unlikely, they do not exclude it",
    ]
    not_yet_proved = []

    def generate(self, rng, n, tier):
        maxlen = 25 if tier == "quick" else 40
        cases = []
        for i in range(n):
            cap = i % 5
            x = rng.random()
            if i % TOGETHER_EVERY[tier] == 7:
                # callers that arrive together, round after round: 1/12 of the cases (thorough: 1/36, longer)
                cap = rng.choice([1, 1, 1, 2, 2, 3, 4]) if rng.random() < 0.92 else 0
                cases.append({"cap": cap, "via_inject": False, "init": 0, "profile": "together",
                              "debug": rng.random() < P_DEBUG,
                              "actions": history(rng, cap, 6, "together"),
                              "shapes": shapes(rng, cap, ROUNDS[tier]),
                              "procs": PROCS[(i // TOGETHER_EVERY[tier]) % len(PROCS)]})
                continue
            if x < 0.28:
                profile = "classic"
            elif x < 0.40:
                profile = "hostile"
            elif x < 0.58:
                profile = "partials"
                if cap == 0 and rng.random() < 0.7:
                    cap = rng.randint(1, 4)
            else:
                profile = CONTEXT_PROFILES[(i // 5) % len(CONTEXT_PROFILES)]
                if cap == 0 and rng.random() < 0.7:
                    cap = rng.randint(1, 4)       # the gate is what these profiles are about
            via = rng.random() < 0.25
            cases.append({"cap": cap, "via_inject": via,
                          "init": rng.choice([0, 1, 3, 8]) if via else 0,
                          "profile": profile, "debug": rng.random() < P_DEBUG,
                          "actions": history(rng, cap, maxlen, profile)})
        rng.shuffle(cases)
        return cases

    # ---- observation -> Gallina
    def _tables(self, obs):
        return self._tables_of(obs["windows"])

    @staticmethod
    def _tables_of(windows):
        _, commanded, cancels = emit_history(1, windows)
        return commanded, cancels

    def _history_terms(self, cap, windows):
        """(wins, cancels, commanded) of one history - the case's own, or one round - as Gallina."""
        events, commanded, cancels = emit_history(cap, windows)
        wins = []
        for w, evs in zip(windows, events):
            wins.append(b"{| w_events := " + cq_list(evs) +
                        b"; w_entered := " + cq_list([cq_nat(r) for r in w["entered"]]) +
                        b"; w_ended := " + cq_list([cq_nat(r) for r in w["ended"]]) +
                        b"; w_inside := " + cq_list([cq_nat(r) for r in w["inside"]]) +
                        b"; w_waiting := " + cq_list([cq_nat(r) for r in w["waiting"]]) +
                        b"; w_returned := " + cq_list([cq_pair(cq_nat(f["rid"]), CQ_CLS.get(f["class"], b"c_other"))
                                                       for f in w["finished"]]) +
                        b"; w_moved := " + cq_list([cq_nat(r) for r in (w.get("moved") or [])]) + b" |}")
        return (cq_list(wins),
                cq_list([cq_pair(cq_nat(r), cq_bool(p)) for r, p in cancels]),
                cq_list([cq_pair(cq_nat(r), CQ_OUTCOME[o]) for r, o in sorted(commanded.items())]))

    def emit(self, case, obs):
        cap = case["cap"]
        wins, cancels, commanded = self._history_terms(cap, obs["windows"])
        rounds = []
        for r in obs.get("rounds", []):       # the distinct rounds; how often each occurred does not matter to the judge
            rw, rc, rm = self._history_terms(cap, r["windows"])
            rounds.append(b"{| r_wins := " + rw + b"; r_cancels := " + rc + b"; r_commanded := " + rm + b" |}")
        return (b"{| cfg := " + cq_nat(cap) + b"; dbg := " + cq_bool(bool(case.get("debug"))) + b"; go_limit := " + cq_nat(max(0, min(obs["limit"], 4999))) +
                b"; wins := " + wins + b"; cancels := " + cancels + b"; commanded := " + commanded +
                b"; refill_ok := " + cq_bool(obs["refill_ok"]) +
                b"; rounds := " + cq_list(rounds) + b" |}")

    def nontrivial(self, case, obs):
        ws = obs["windows"] + [w for r in obs.get("rounds", []) for w in r["windows"]]
        if case["cap"] == 0:
            return any(len(w["inside"]) >= 2 for w in ws)
        return any(w["waiting"] or w["ended"] for w in ws)

    def sample(self, case, obs):
        def act(a):
            if a["op"] == "start":
                c = a.get("ctx", "")
                return (("partials(%s)" % ",".join(a["partials"])) if a.get("partials") else
                        "start-missing" if a["missing"] else "start") + \
                    ("" if not c else "[ctx %s%s]" % (c, (" %d" % a.get("k", 1)) if c == "at" else ""))
            if a["op"] == "volley":
                return "%d start together%s" % (a.get("n", 2), (" each partials(%s)" % ",".join(a["partials"]))
                                                if a.get("partials") else "")
            if a["op"] == "release":
                return "release#%d:%s" % (a["pick"], a["outcome"])
            if a["op"] == "cancel":
                return "cancel#%d" % a["pick"]
            if a["op"] == "race":
                return "race(cancel#%d, release#%d:%s, %s)" % (
                    a["pick"], a.get("pick2", 0), a["outcome"],
                    ["at once", "release, %d us, cancel", "cancel, %d us, release"][a.get("order", 0) % 3]
                    % (() if a.get("order", 0) % 3 == 0 else (a.get("delay_us", 0),)))
            return a["op"]
        def seen(ws):
            return ["%s%s%s%s%s -> %sreturned %s inside %s waiting %s%s" % (
                w["op"], w["rids"], (":" + w["outcome"]) if w.get("outcome") else "",
                (" partials(%s)" % ",".join(w["partials"])) if w.get("partials") else "",
                (" ctx=" + w["ctx"]) if w.get("ctx") else "",
                ("on to the next partial %s " % w["moved"]) if w.get("moved") else "",
                ["%d:%s" % (f["rid"], f["class"]) for f in w["finished"]], w["inside"], w["waiting"],
                (" context over: %s" % w["ended"]) if w["ended"] else "")
                for w in ws]
        d = {"limit": case["cap"], "via_inject": case["via_inject"], "init": case["init"],
             "engine_debug": bool(case.get("debug")), "profile": case.get("profile", ""),
             "actions": [act(a) for a in case["actions"]],
             "observed": seen(obs["windows"]),
             "get_rate_limit": obs["limit"], "refill_ok": obs["refill_ok"]}
        if case.get("shapes"):
            d["rounds"] = ["%d x (%d inside first, %d %sarrive together, %s of the waiting ones cancelled from #%d, "
                           "those inside leave by %s)" % (sh["reps"], sh["pre"], sh["k"],
                                                          ("requests for partials(%s) " % ",".join(sh["partials"]))
                                                          if sh.get("partials") else "",
                                                          "all" if sh["cancel"] <= 0 else str(sh["cancel"]),
                                                          sh["pick"], sh["outcome"]) for sh in case["shapes"]]
            d["gomaxprocs"] = obs.get("procs")
            d["rounds_run"] = obs.get("rounds_run")
            d["rounds_cut_short"] = obs.get("rounds_cut")
            d["rounds_not_driven"] = obs.get("rounds_off")
            rs = sorted(obs.get("rounds", []), key=lambda r: -r["count"])
            d["rounds_distinct"] = len(rs)
            d["rounds_observed_most_often"] = [{"count": r["count"], "first": r["first"], "shape": r["shape"],
                                                "observed": seen(r["windows"])} for r in rs[:2]]
        return d

    @staticmethod
    def _chance(case):
        """Actions whose outcome the Go runtime decides (select between two ready cases, a
        cancellation a few microseconds around a release)."""
        return sum(1 for a in case["actions"]
                   if a["op"] == "race" or (a["op"] == "start" and a.get("ctx") in ("cancelled", "expired")))

    def _shrink_rounds(self, case):
        """Rounds show a fault only now and then: a candidate never has fewer rounds than 600, so that
        it shows again when the witness is run again.  One kind of round, nothing in front, then
        simpler kinds."""
        shs = case["shapes"]
        total = max(600, sum(sh["reps"] for sh in shs))
        plain = dict(case, actions=[], via_inject=False, init=0)
        if len(shs) > 1 or case["actions"] or shs[0]["reps"] < total:
            for sh in shs:
                yield dict(plain, shapes=[dict(sh, reps=total)])
            yield dict(case, actions=[])
            return
        sh = shs[0]
        free = max(0, case["cap"] - sh["pre"])
        if sh.get("partials"):
            yield dict(case, shapes=[{k: v for k, v in sh.items() if k != "partials"}])
            if len(sh["partials"]) > 1:
                yield dict(case, shapes=[dict(sh, partials=sh["partials"][:-1])])
        if case.get("debug"):
            yield dict(case, debug=False)
        for ch in ({"pre": 0, "k": sh["k"] + sh["pre"]} if sh["pre"] else None,
                   {"outcome": "ok"} if sh["outcome"] != "ok" else None,
                   {"cancel": 0, "pick": 0} if sh["cancel"] > 0 or sh["pick"] else None,
                   {"k": sh["k"] - 1} if sh["k"] - 1 > free else None):
            if ch:
                yield dict(case, shapes=[dict(sh, **ch)])
        if case.get("procs"):
            yield dict(case, procs=0)

    def shrink(self, case):
        if case.get("shapes"):
            # first without the rounds at all (the fault may sit in the history in front of them)
            yield {k: v for k, v in case.items() if k not in ("shapes", "procs")}
            yield from self._shrink_rounds(case)
            return
        # a witness that depends on the runtime's choice needs several attempts to show reliably:
        # candidates keep at least 6 such actions (or all, if there are fewer)
        keep = min(self._chance(case), 6)
        for c in self._shrink(case):
            if self._chance(c) >= keep:
                yield c

    def _shrink(self, case):
        acts = case["actions"]
        n = len(acts)
        if case["via_inject"]:
            yield dict(case, via_inject=False, init=0)
        if case.get("debug"):
            yield dict(case, debug=False)
        k = n // 2
        while k >= 1:
            for i in range(0, n, k):
                if acts[:i] + acts[i + k:] != acts:
                    yield dict(case, actions=acts[:i] + acts[i + k:])
            k //= 2
        for i, a in enumerate(acts):
            def repl(b):
                return dict(case, actions=acts[:i] + [b] + acts[i + 1:])
            if a["op"] in ("release", "race") and a["outcome"] != "ok":
                yield repl(dict(a, outcome="ok"))
            if a["op"] == "start" and a["missing"]:
                yield repl(dict(a, missing=False))
            if a.get("partials"):
                ps = a["partials"]
                yield repl({k2: v for k2, v in a.items() if k2 != "partials"})
                for j in range(len(ps)):
                    if len(ps) > 1:
                        yield repl(dict(a, partials=ps[:j] + ps[j + 1:]))
                    if ps[j] == "t":
                        yield repl(dict(a, partials=ps[:j] + ["g"] + ps[j + 1:]))
            if a["op"] == "volley":
                if a.get("n", 2) > 2:
                    yield repl(dict(a, n=a["n"] - 1))
                yield repl({"op": "start", "missing": False, "pick": 0, "outcome": ""})
            if a["op"] == "start" and a.get("ctx"):
                yield repl({k2: v for k2, v in a.items() if k2 not in ("ctx", "k")})
            if a["op"] == "race":
                yield repl({"op": "release", "missing": False, "pick": a.get("pick2", 0), "outcome": a["outcome"]})
                yield repl({"op": "cancel", "missing": False, "pick": a["pick"], "outcome": ""})

    def model_expr(self):
        return ("(match req_reach (cfg c) (flat_map w_events (wins c)) with Some s => Some (gate s, cur s) | None => None end, "
                "model_states (Some (req_init (cfg c))) (wins c), "
                "map (fun r => (oracle1 (round_case c r), model_states (Some (req_init (cfg c))) (r_wins r))) (rounds c))")

    def distribution(self, cases, obss):
        d = {"per_limit": {}, "per_profile": {}, "via_inject": 0, "actions": 0, "renders": 0,
             "cancelled_while_waiting": 0,
             "started_with_context_over": 0, "context_over_at_free_slot": 0, "context_over_at_full_gate": 0,
             "context_over_got_error": 0, "context_over_entered": 0,
             "self_ending_contexts": 0, "self_ending_fired": 0,
             "races": 0, "race_waiter_got_error": 0, "race_waiter_took_slot": 0,
             "left_ok": 0, "left_not_found": 0, "left_func_error": 0, "left_panic": 0,
             "engines_debug": 0, "engines_debug_with_limit": 0, "cases_with_partials_requests": 0,
             "partials_requests": 0, "partials_requested": 0, "partials_kinds": {"g": 0, "t": 0, "m": 0},
             "partials_requests_went_on_to_next_partial": 0, "partials_requests_waited_again_at_the_gate": 0,
             "partials_requests_ended": {}, "round_partials_requests": 0,
             "max_waiting": 0, "windows": 0, "windows_not_settled": 0, "goroutines_left_blocked": 0,
             "arrivals_together_in_histories": 0,
             "cases_with_rounds": 0, "rounds": 0, "rounds_distinct_records": 0, "rounds_cut_short": 0,
             "rounds_per_gomaxprocs": {}, "round_callers_arrived_together": 0,
             "round_callers_left_waiting": 0, "round_waiters_cancelled_at_full_gate": 0,
             "round_cancelled_waiters_returned_in_time": 0, "round_windows_not_settled": 0}
        for c, o in zip(cases, obss):
            cap = c["cap"]
            d["per_limit"][str(cap)] = d["per_limit"].get(str(cap), 0) + 1
            pr = c.get("profile", "corpus")
            d["per_profile"][pr] = d["per_profile"].get(pr, 0) + 1
            d["via_inject"] += c["via_inject"]
            d["actions"] += len(c["actions"])
            d["engines_debug"] += bool(c.get("debug"))
            d["engines_debug_with_limit"] += bool(c.get("debug")) and cap > 0
            preq = {}
            for w in o["windows"]:
                if w["op"] == "start" and w.get("partials"):
                    for r in w["rids"]:
                        preq[r] = w["partials"]
                    d["partials_requests"] += len(w["rids"])
                    d["partials_requested"] += len(w["rids"]) * len(w["partials"])
                    for x in w["partials"]:
                        d["partials_kinds"][x] = d["partials_kinds"].get(x, 0) + len(w["rids"])
                d["partials_requests_went_on_to_next_partial"] += len(w.get("moved") or [])
                d["partials_requests_waited_again_at_the_gate"] += len([r for r in (w.get("moved") or [])
                                                                       if r in w["waiting"]])
                for f in w["finished"]:
                    if f["rid"] in preq:
                        d["partials_requests_ended"][f["class"]] = d["partials_requests_ended"].get(f["class"], 0) + 1
            d["cases_with_partials_requests"] += bool(preq)
            for r in o.get("rounds", []):
                for w in r["windows"]:
                    if w["op"] == "start" and w.get("partials"):
                        d["round_partials_requests"] += r["count"] * len(w["rids"])
            d["goroutines_left_blocked"] += o.get("leftover", 0)
            commanded, cancels = self._tables(o)
            d["cancelled_while_waiting"] += len(cancels)
            if c.get("shapes"):
                d["cases_with_rounds"] += 1
                d["rounds"] += o.get("rounds_run", 0)
                d["rounds_distinct_records"] += len(o.get("rounds", []))
                d["rounds_cut_short"] += bool(o.get("rounds_cut"))
                d["cases_rounds_not_driven"] = d.get("cases_rounds_not_driven", 0) + bool(o.get("rounds_off"))
                k = str(o.get("procs"))
                d["rounds_per_gomaxprocs"][k] = d["rounds_per_gomaxprocs"].get(k, 0) + o.get("rounds_run", 0)
                for r in o.get("rounds", []):
                    sh = c["shapes"][r["shape"]]
                    d["round_callers_arrived_together"] += r["count"] * sh["k"]
                    for i, w in enumerate(r["windows"]):
                        d["round_windows_not_settled"] += r["count"] * (not w["settled"])
                        if w["op"] == "start" and len(w["rids"]) == sh["k"] and \
                                (i + 1 == len(r["windows"]) or r["windows"][i + 1]["op"] != "start"):
                            d["round_callers_left_waiting"] += r["count"] * len(w["waiting"])
                        if w["op"] == "cancel":
                            fin = {f["rid"] for f in w["finished"] if f["class"] == "ctx_error"}
                            d["round_waiters_cancelled_at_full_gate"] += r["count"] * len(w["rids"])
                            d["round_cancelled_waiters_returned_in_time"] += \
                                r["count"] * len([x for x in w["rids"] if x in fin])
            prev_inside = 0
            at = set()
            for w in o["windows"]:
                d["windows"] += 1
                d["windows_not_settled"] += not w["settled"]
                d["max_waiting"] = max(d["max_waiting"], len(w["waiting"]))
                fin = {f["rid"]: f["class"] for f in w["finished"]}
                if w["op"] in ("start", "refill"):
                    d["renders"] += len(w["rids"])
                if w["op"] == "start" and len(w["rids"]) > 1:
                    d["arrivals_together_in_histories"] += 1
                if w["op"] == "start" and w.get("ctx") in ("cancelled", "expired"):
                    r = w["rids"][0]
                    d["started_with_context_over"] += 1
                    if cap > 0:
                        d["context_over_at_full_gate" if prev_inside >= cap else "context_over_at_free_slot"] += 1
                    if fin.get(r) == "ctx_error":
                        d["context_over_got_error"] += 1
                    elif r in w["entered"] or r in fin:
                        d["context_over_entered"] += 1
                if w["op"] == "start" and w.get("ctx") == "at":
                    d["self_ending_contexts"] += 1
                    at.add(w["rids"][0])
                d["self_ending_fired"] += len([r for r in w["ended"] if r in at])
                if w["op"] == "race":
                    d["races"] += 1
                    r = w["rids"][0]
                    if fin.get(r) == "ctx_error":
                        d["race_waiter_got_error"] += 1
                    elif r in w["entered"] or r in fin:
                        d["race_waiter_took_slot"] += 1
                for f in w["finished"]:
                    if f["class"] != "ctx_error":
                        k = "left_" + (commanded.get(f["rid"]) or CLS_OUTCOME.get(f["class"], "ok"))
                        d[k] = d.get(k, 0) + 1
                prev_inside = len(w["inside"])
        return d


PROP = C09()
