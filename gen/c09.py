# C09 — the render rate limit: generated driver histories against a real Engine,
# observed windows judged by the gate acceptor (Models/Gate.v) inside Coq.
from common import *

OUTCOMES = ["ok", "func_error", "panic"]
CQ_OUTCOME = {"ok": b"o_ok", "not_found": b"o_not_found", "func_error": b"o_func_error", "panic": b"o_panic"}
CQ_CLS = {"ok": b"c_ok", "not_found": b"c_not_found", "error": b"c_error",
          "exec_panic": b"c_exec_panic", "ctx_error": b"c_ctx_error"}
CLS_OUTCOME = {"ok": "ok", "not_found": "not_found", "error": "func_error", "exec_panic": "panic"}


def history(rng, cap, maxlen, hostile):
    """A list of driver actions.  [inside]/[waitq] follow what a correct gate would do and
    only bias the choice (release when somebody is inside, cancel when somebody waits);
    picks are taken modulo the sets the harness really observes."""
    n = rng.randint(3, maxlen)
    acts = []
    inside, waitq = 0, []

    def start():
        nonlocal inside
        missing = rng.random() < 0.2
        acts.append({"op": "start", "missing": missing, "pick": 0, "outcome": ""})
        if cap == 0 or inside < cap:
            if not missing:
                inside += 1
        else:
            waitq.append("m" if missing else "g")

    if not hostile and cap > 0 and rng.random() < 0.4:
        for _ in range(min(n, cap + rng.randint(1, 3))):   # straight to a full gate with waiters
            start()
    while len(acts) < n:
        x = rng.random()
        if hostile:
            op = "start" if x < 0.4 else "release" if x < 0.65 else "cancel" if x < 0.9 else "probe"
        elif x < 0.42 or (inside == 0 and not waitq):
            op = "start"
        elif x < 0.74:
            op = "release" if inside else "start"
        elif x < 0.92:
            op = "cancel" if waitq else "start"
        else:
            op = "probe"
        if op == "start":
            start()
        elif op == "release":
            acts.append({"op": "release", "missing": False, "pick": rng.randrange(8),
                         "outcome": rng.choice(OUTCOMES)})
            if inside:
                inside -= 1
                while waitq and inside < cap:
                    if waitq.pop(0) == "g":
                        inside += 1
        elif op == "cancel":
            k = rng.randrange(8)
            acts.append({"op": "cancel", "missing": False, "pick": k, "outcome": ""})
            if waitq:
                waitq.pop(k % len(waitq))
        else:
            acts.append({"op": "probe", "missing": False, "pick": 0, "outcome": ""})
    return acts


def window_events(cap, w, prev_inside, commanded):
    """The window as gate events, in the fixed order documented in Run/Judge_C09.v."""
    ev = []
    if w["op"] in ("start", "refill"):
        ev += [b"Start %d" % r for r in w["rids"]]
    ent = set(w["entered"])
    fin_ids = {f["rid"] for f in w["finished"]}

    def leave(f):
        o = commanded.get(f["rid"]) or CLS_OUTCOME.get(f["class"], "ok")
        return b"Leave %d %s" % (f["rid"], CQ_OUTCOME[o])

    for f in w["finished"]:
        if f["rid"] in prev_inside:
            ev.append(leave(f))
    for f in w["finished"]:
        if f["rid"] not in prev_inside and f["class"] == "ctx_error" and f["rid"] not in ent:
            ev.append(b"Cancel %d" % f["rid"])
    for f in w["finished"]:
        if f["rid"] not in prev_inside and not (f["class"] == "ctx_error" and f["rid"] not in ent):
            if cap > 0:
                ev.append(b"Enter %d" % f["rid"])
            ev.append(leave(f))
    if cap > 0:
        ev += [b"Enter %d" % r for r in w["entered"] if r not in fin_ids]
    return ev


class C09(Prop):
    id = "C09"
    engine = "C09"
    judge_module = "Run.Judge_C09"
    prop_module = "Props.C09"
    prop_file = "Props/C09.v"
    coq_targets = ["Props/C09.vo", "Run/Judge_C09.vo"]
    sizes = {"quick": 150, "thorough": 5000}
    design_ref = "DESIGN.md section 6 C09, Appendix A"
    rule = ("one case = one real Engine with limit N in 0..4 (WithRateLimit, or Engine.Inject of the config value "
            "on an engine built with another limit) and a generated history of <= 25 (thorough <= 40) driver actions: "
            "start a render (template calling the blocking function gate(id), or a missing template), tell a render "
            "that is inside to return / fail in a template function / panic, cancel a waiting render's context, probe; "
            "then drain and a refill probe with N fresh renders; 80% histories biased by a counting model of a correct "
            "gate (bursts beyond the limit, releases while others wait), 20% unbiased; non-trivial = some render was "
            "observed waiting, or the limit is disabled and >= 2 renders were inside together; distinct by SHA-1 of the case")
    trusted = [
        "the gate is modelled at the level of events Start/Enter/Leave/Cancel per Render call; that a buffered Go "
        "channel of capacity N admits exactly N pending sends, that select takes a ready case, and that deferred "
        "functions run on return and on panic is the Go runtime's behaviour: assumed by the model, exercised "
        "(not proved) by the correspondence runs",
        "observation: 'inside' = the template function gate(id) was called and Render has not returned; a render of a "
        "missing template is seen only by its return; the emitter orders the events of one settle window "
        "(Leave, Cancel, pass-through, Enter), see Run/Judge_C09.v",
    ]
    assumptions = [
        "timing words are observed, never proved: a cancelled waiter must return within 500 ms ('promptly'); a render "
        "that may enter must be seen inside within 200 ms of the driver action, the final refill within 1 s; a machine "
        "stalled for longer than these bounds would produce a false alarm",
        "the Go scheduler eventually runs every runnable goroutine (fairness); which waiting render enters next is left "
        "to the runtime and not constrained by the model",
        "panics of template functions are recovered by the harness around Engine.Render (the engine itself does not "
        "recover them); classes of outcomes are compared, never error texts",
    ]
    not_yet_proved = []

    def generate(self, rng, n, tier):
        maxlen = 25 if tier == "quick" else 40
        cases = []
        for i in range(n):
            cap = i % 5
            hostile = rng.random() < 0.2
            via = rng.random() < 0.25
            cases.append({"cap": cap, "via_inject": via,
                          "init": rng.choice([0, 1, 3, 8]) if via else 0,
                          "actions": history(rng, cap, maxlen, hostile)})
        rng.shuffle(cases)
        return cases

    # ---- observation -> Gallina
    def _tables(self, obs):
        commanded, cancels = {}, []
        for w in obs["windows"]:
            fin_ids = {f["rid"] for f in w["finished"]}
            if w["op"] == "start" and w["missing"]:
                commanded[w["rids"][0]] = "not_found"
            elif w["op"] == "release":
                commanded[w["rids"][0]] = w["outcome"]
            elif w["op"] == "drain":
                for r in w["rids"]:
                    commanded[r] = "ok"
            elif w["op"] in ("cancel", "drain_cancel"):
                for r in w["rids"]:
                    cancels.append((r, r in fin_ids))
        return commanded, cancels

    def emit(self, case, obs):
        cap = case["cap"]
        commanded, cancels = self._tables(obs)
        wins, prev = [], set()
        for w in obs["windows"]:
            evs = window_events(cap, w, prev, commanded)
            prev = set(w["inside"])
            wins.append(b"{| w_events := " + cq_list(evs) +
                        b"; w_inside := " + cq_list([cq_nat(r) for r in w["inside"]]) +
                        b"; w_waiting := " + cq_list([cq_nat(r) for r in w["waiting"]]) +
                        b"; w_returned := " + cq_list([cq_pair(cq_nat(f["rid"]), CQ_CLS.get(f["class"], b"c_other"))
                                                       for f in w["finished"]]) + b" |}")
        return (b"{| cfg := " + cq_nat(cap) + b"; go_limit := " + cq_nat(max(0, min(obs["limit"], 4999))) +
                b"; wins := " + cq_list(wins) +
                b"; cancels := " + cq_list([cq_pair(cq_nat(r), cq_bool(p)) for r, p in cancels]) +
                b"; commanded := " + cq_list([cq_pair(cq_nat(r), CQ_OUTCOME[o]) for r, o in sorted(commanded.items())]) +
                b"; refill_ok := " + cq_bool(obs["refill_ok"]) + b" |}")

    def nontrivial(self, case, obs):
        ws = obs["windows"]
        if case["cap"] == 0:
            return any(len(w["inside"]) >= 2 for w in ws)
        return any(w["waiting"] for w in ws)

    def sample(self, case, obs):
        def act(a):
            if a["op"] == "start":
                return "start-missing" if a["missing"] else "start"
            if a["op"] == "release":
                return "release#%d:%s" % (a["pick"], a["outcome"])
            if a["op"] == "cancel":
                return "cancel#%d" % a["pick"]
            return a["op"]
        return {"limit": case["cap"], "via_inject": case["via_inject"], "init": case["init"],
                "actions": [act(a) for a in case["actions"]],
                "observed": ["%s%s%s -> returned %s inside %s waiting %s" % (
                    w["op"], w["rids"], (":" + w["outcome"]) if w.get("outcome") else "",
                    ["%d:%s" % (f["rid"], f["class"]) for f in w["finished"]], w["inside"], w["waiting"])
                    for w in obs["windows"]],
                "get_rate_limit": obs["limit"], "refill_ok": obs["refill_ok"]}

    def shrink(self, case):
        acts = case["actions"]
        n = len(acts)
        if case["via_inject"]:
            yield dict(case, via_inject=False, init=0)
        k = n // 2
        while k >= 1:
            for i in range(0, n, k):
                if acts[:i] + acts[i + k:] != acts:
                    yield dict(case, actions=acts[:i] + acts[i + k:])
            k //= 2
        for i, a in enumerate(acts):
            if a["op"] == "release" and a["outcome"] != "ok":
                yield dict(case, actions=acts[:i] + [dict(a, outcome="ok")] + acts[i + 1:])
            if a["op"] == "start" and a["missing"]:
                yield dict(case, actions=acts[:i] + [dict(a, missing=False)] + acts[i + 1:])

    def model_expr(self):
        return "(reach (cfg c) (flat_map w_events (wins c)), model_states (Some (gate_init (cfg c))) (wins c))"

    def distribution(self, cases, obss):
        d = {"per_limit": {}, "via_inject": 0, "actions": 0, "renders": 0, "cancelled_while_waiting": 0,
             "left_ok": 0, "left_not_found": 0, "left_func_error": 0, "left_panic": 0,
             "max_waiting": 0, "windows": 0, "windows_not_settled": 0, "goroutines_left_blocked": 0}
        for c, o in zip(cases, obss):
            d["per_limit"][str(c["cap"])] = d["per_limit"].get(str(c["cap"]), 0) + 1
            d["via_inject"] += c["via_inject"]
            d["actions"] += len(c["actions"])
            d["goroutines_left_blocked"] += o.get("leftover", 0)
            commanded, cancels = self._tables(o)
            d["cancelled_while_waiting"] += len(cancels)
            for w in o["windows"]:
                d["windows"] += 1
                d["windows_not_settled"] += not w["settled"]
                d["max_waiting"] = max(d["max_waiting"], len(w["waiting"]))
                if w["op"] in ("start", "refill"):
                    d["renders"] += len(w["rids"])
                for f in w["finished"]:
                    if f["class"] != "ctx_error":
                        k = "left_" + (commanded.get(f["rid"]) or CLS_OUTCOME.get(f["class"], "ok"))
                        d[k] = d.get(k, 0) + 1
        return d


PROP = C09()
