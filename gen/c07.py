# C07 — rendering is a pure, deterministic function of template and data.
#
# Every generated (template, data) pair is rendered by the real engine: twice on one engine, on a
# second engine, on a third engine after a prefix of other renders, once more with freshly built
# equal data, and in three fresh processes (own map hash seeds).  The harness deep-compares the
# caller's data with a pristine copy after the renders.  The judge (Run/Judge_C07.v) demands that
# all outputs are byte-identical and the data untouched, and - for the modelled template shapes -
# that they equal the prediction of Models/Purity.v.
import json
from common import *
import tmpl

FRESH_PROCESSES = 3

# ------------------------------------------------------------------ data
# ('nil',) ('bool',b) ('int',n) ('str',bytes) ('arr',[v]) ('strs',[bytes]) ('ints',[n])
# ('map',[(k,v)]) ('smap',[(k,bytes)]) ('imap',[(k,n)]) ('nmap',[(n,bytes)])
# ('rec',{field:v}) ('prec',{field:v}) ('ptr',v)
REC_FIELDS = ["name", "count", "tags", "items", "attrs", "next"]   # declaration order of c07Rec


def d_go(v):
    t = v[0]
    if t == 'nil':
        return {"t": "nil"}
    if t == 'bool':
        return {"t": "bool", "v": v[1]}
    if t == 'int':
        return {"t": "int", "v": v[1]}
    if t == 'str':
        return {"t": "str", "v": hx(v[1])}
    if t == 'arr':
        return {"t": "arr", "v": [d_go(x) for x in v[1]]}
    if t == 'strs':
        return {"t": "strs", "v": [hx(x) for x in v[1]]}
    if t == 'ints':
        return {"t": "ints", "v": list(v[1])}
    if t == 'map':
        return {"t": "map", "v": [[hx(k), d_go(x)] for k, x in v[1]]}
    if t == 'smap':
        return {"t": "smap", "v": [[hx(k), d_go(('str', x))] for k, x in v[1]]}
    if t == 'imap':
        return {"t": "imap", "v": [[hx(k), d_go(('int', x))] for k, x in v[1]]}
    if t == 'nmap':
        return {"t": "nmap", "v": [[k, hx(x)] for k, x in v[1]]}
    if t in ('rec', 'prec'):
        return {"t": t, "v": [[hx(k), d_go(x)] for k, x in v[1].items()]}
    if t == 'ptr':
        return {"t": "ptr", "v": d_go(v[1])}
    raise ValueError(v)


def ckey(k):
    return b"(KStr " + cq_bytes(k) + b")"


def d_coq(v):
    t = v[0]
    if t == 'nil':
        return b"GNil"
    if t == 'bool':
        return b"(GBool " + cq_bool(v[1]) + b")"
    if t == 'int':
        return b"(GInt " + cq_Z(v[1]) + b")"
    if t == 'str':
        return b"(GStr " + cq_bytes(v[1]) + b")"
    if t == 'arr':
        return b"(GArr " + cq_list([d_coq(x) for x in v[1]]) + b")"
    if t == 'strs':
        return b"(GArr " + cq_list([d_coq(('str', x)) for x in v[1]]) + b")"
    if t == 'ints':
        return b"(GArr " + cq_list([d_coq(('int', x)) for x in v[1]]) + b")"
    if t == 'map':
        return b"(GMap " + cq_list([cq_pair(ckey(k), d_coq(x)) for k, x in v[1]]) + b")"
    if t == 'smap':
        return b"(GMap " + cq_list([cq_pair(ckey(k), d_coq(('str', x))) for k, x in v[1]]) + b")"
    if t == 'imap':
        return b"(GMap " + cq_list([cq_pair(ckey(k), d_coq(('int', x))) for k, x in v[1]]) + b")"
    if t == 'nmap':
        return b"(GMap " + cq_list([cq_pair(b"(KInt " + cq_Z(k) + b")", d_coq(('str', x))) for k, x in v[1]]) + b")"
    if t in ('rec', 'prec'):
        f = v[1]
        zero = {"name": ('str', b""), "count": ('int', 0), "tags": ('arr', []), "items": ('arr', []),
                "attrs": ('map', []), "next": None}
        fs = []
        for name in REC_FIELDS:
            x = f.get(name, zero[name])
            term = b"(GPtr None)" if x is None else d_coq(x)
            fs.append(cq_pair(cq_bytes(name[:1].upper() + name[1:]), term))
        s = b"(GStruct " + cq_list(fs) + b")"
        return b"(GPtr (Some " + s + b"))" if t == 'prec' else s
    if t == 'ptr':
        return b"(GPtr (Some " + d_coq(v[1]) + b"))"
    raise ValueError(v)


def d_plain(v):
    t = v[0]
    if t == 'nil':
        return None
    if t in ('bool', 'int'):
        return v[1]
    if t == 'str':
        return v[1].decode('utf-8', 'replace')
    if t == 'arr':
        return [d_plain(x) for x in v[1]]
    if t == 'strs':
        return [x.decode('utf-8', 'replace') for x in v[1]]
    if t == 'ints':
        return list(v[1])
    if t == 'map':
        return {"go": "map[string]interface{}", "entries": {k: d_plain(x) for k, x in v[1]}}
    if t == 'smap':
        return {"go": "map[string]string", "entries": {k: x.decode('utf-8', 'replace') for k, x in v[1]}}
    if t == 'imap':
        return {"go": "map[string]int", "entries": dict(v[1])}
    if t == 'nmap':
        return {"go": "map[int]string", "entries": {str(k): x.decode('utf-8', 'replace') for k, x in v[1]}}
    if t in ('rec', 'prec'):
        return {"go": "struct" if t == 'rec' else "*struct", "fields": {k: d_plain(x) for k, x in v[1].items()}}
    if t == 'ptr':
        return {"go": "pointer", "to": d_plain(v[1])}
    raise ValueError(v)


def d_kinds(v, acc):
    acc.add(v[0])
    t = v[0]
    if t == 'arr':
        for x in v[1]:
            d_kinds(x, acc)
    elif t == 'map':
        for _, x in v[1]:
            d_kinds(x, acc)
    elif t in ('rec', 'prec'):
        for x in v[1].values():
            d_kinds(x, acc)
    elif t == 'ptr':
        d_kinds(v[1], acc)
    return acc


KEYS = ["a", "b", "c", "d", "e", "f", "g", "h", "A", "B", "Ab", "ab", "aB", "id", "ID", "Id", "url", "k", "K",
        "zz", "Zz", "class", "title", "Title", "x1", "x2", "x10", "data-x", "aria-label", "href", "n", "N",
        "key", "Key", "_u", "z9", "alt", "Alt", "m1", "m2", "q", "Q", "r", "s", "t", "u", "v", "w"]
STR_ALPHABET = ["a", "b", "c", "X", "Y", "0", "1", "9", " ", " ", "<", ">", "&", '"', "'", "/", "\\", "é", "-",
                "_", ".", ",", "=", "\n", "\t", "ü", "{", "}"]
TOP_EXTRA = ["foo", "Foo", "bar", "Bar", "title", "Title", "n", "N", "count", "Count", "M", "O", "Items", "q", "zeta"]


def g_str(rng, maxlen=8):
    return "".join(rng.choice(STR_ALPHABET) for _ in range(rng.choice([0, 1, 2, 3, 5, maxlen]))).encode()


def g_int(rng):
    r = rng.random()
    if r < 0.7:
        return rng.randint(-20, 120)
    if r < 0.997:
        return rng.randint(-10 ** 9, 10 ** 9)
    return rng.choice([10 ** 10, 2 ** 40, -(10 ** 12)])       # Number.String() leaves plain decimal: unmodelled


def g_scalar(rng):
    r = rng.random()
    if r < 0.45:
        return ('str', g_str(rng))
    if r < 0.75:
        return ('int', g_int(rng))
    if r < 0.9:
        return ('bool', rng.random() < 0.5)
    return ('nil',)


def g_keys(rng, n):
    return rng.sample(KEYS, min(n, len(KEYS)))


def g_size(rng, tier):
    r = rng.random()
    if r < 0.08:
        return rng.choice([0, 1])
    if r < 0.75:
        return rng.randint(2, 7)
    if r < 0.95:
        return rng.randint(8, 14)           # more than one bucket: not only rotations of one order
    return rng.randint(15, 30 if tier == "quick" else 48)


def g_value(rng, depth, tier):
    r = rng.random()
    if depth <= 0 or r < 0.6:
        return g_scalar(rng)
    if r < 0.72:
        return ('arr', [g_value(rng, depth - 1, tier) for _ in range(rng.randint(0, 4))])
    if r < 0.78:
        return ('strs', [g_str(rng) for _ in range(rng.randint(0, 4))])
    if r < 0.82:
        return ('ints', [g_int(rng) for _ in range(rng.randint(0, 4))])
    if r < 0.94:
        return g_maplike(rng, depth - 1, tier, small=True)
    return g_rec(rng, depth - 1, tier)


def g_rec(rng, depth, tier):
    f = {}
    if rng.random() < 0.8:
        f["name"] = ('str', g_str(rng))
    if rng.random() < 0.7:
        f["count"] = ('int', g_int(rng))
    if rng.random() < 0.6:
        f["tags"] = ('strs', [g_str(rng, 4) for _ in range(rng.randint(0, 4))])
    if rng.random() < 0.5:
        f["items"] = ('arr', [g_scalar(rng) for _ in range(rng.randint(0, 4))])
    if rng.random() < 0.5:
        f["attrs"] = ('map', [(k, g_scalar(rng)) for k in g_keys(rng, rng.randint(0, 5))])
    if depth > 0 and rng.random() < 0.3:
        f["next"] = g_rec(rng, depth - 1, tier)
        f["next"] = ('prec', f["next"][1])
    return (rng.choice(['rec', 'prec']), f)


def g_maplike(rng, depth, tier, small=False):
    n = rng.randint(0, 4) if small else g_size(rng, tier)
    ks = g_keys(rng, n)
    r = rng.random()
    if r < 0.55:
        return ('map', [(k, g_value(rng, depth, tier)) for k in ks])
    if r < 0.68:
        return ('smap', [(k, g_str(rng)) for k in ks])
    if r < 0.78:
        return ('imap', [(k, g_int(rng)) for k in ks])
    if r < 0.86:
        return ('nmap', [(i, g_str(rng)) for i in rng.sample(range(-3, 40), min(n, 12))])
    if r < 0.93:
        return ('ptr', ('map', [(k, g_value(rng, depth, tier)) for k in ks]))
    return g_rec(rng, depth, tier)


def g_items(rng, tier):
    r = rng.random()
    n = rng.choice([0, 1, 2, 3, 5, 8])
    if r < 0.5:
        return ('arr', [g_scalar(rng) for _ in range(n)])
    if r < 0.7:
        return ('strs', [g_str(rng, 4) for _ in range(n)])
    if r < 0.85:
        return ('ints', [g_int(rng) for _ in range(n)])
    if r < 0.93:
        return ('ptr', ('arr', [g_scalar(rng) for _ in range(n)]))
    return ('arr', [g_value(rng, 1, tier) for _ in range(n)])


def g_data(rng, tier):
    top = [("m", g_maplike(rng, 2, tier)), ("o", g_maplike(rng, 1, tier, small=rng.random() < 0.6)),
           ("items", g_items(rng, tier))]
    for k in rng.sample(TOP_EXTRA, rng.randint(0, 6)):
        top.append((k, g_value(rng, 1, tier)))
    rng.shuffle(top)
    d = ('map', top)
    if rng.random() < 0.08:
        d = ('ptr', d)
    return d


# ------------------------------------------------------------------ templates
def code(src, buffer=False, esc=True, inline=False):
    return {"type": "Code", "val": src, "buffer": buffer, "mustEscape": esc, "isInline": inline}


def text(s):
    return {"type": "Text", "val": s}


def block(nodes):
    return {"type": "Block", "nodes": nodes}


def each(obj, body, val="v", key="k"):
    return {"type": "Each", "obj": obj, "val": val, "key": key, "block": block(body)}


def tag(name, attrs=(), ablocks=(), body=()):
    return {"type": "Tag", "name": name, "isInline": False, "selfClosing": False,
            "attrs": [{"name": a, "val": v, "mustEscape": True} for a, v in attrs],
            "attributeBlocks": [{"type": "AttributeBlock", "val": a} for a in ablocks], "block": block(list(body))}


def each_kv(obj):
    return each(obj, [text("["), code("k", True, True, True), text("="), code("v", True, True, True), text("]")])


def shape_nodes(sh):
    k = sh[0]
    if k == "each":
        return [each_kv("m")]
    if k == "attrs":
        return [tag("div", ablocks=["m"])]
    if k == "json":
        return [code("JSON.stringify(m)", True, False)]
    if k == "keys":
        return [code("Object.keys(m).join(',')", True, True)]
    if k == "forin":
        return [code("for (k in m) { k }")]
    if k == "var":
        return [code(sh[1], True, True)]
    if k == "keys_each":
        return [code("var ks = Object.keys(m)"), each_kv("m")]
    if k == "assign_each":
        return [code("var t = {zz: 1}"), code("var u = Object.assign(t, m)"), each_kv("t")]
    if k == "push":
        return [code("items.push(9)"), code("items.join(',')", True, True), code("JSON.stringify(items)", True, False)]
    if k == "sort":
        return [code("items.sort()"), code("items.join(',')", True, True)]
    if k == "setkey":
        return [code("m.k = 1"), code("JSON.stringify(m)", True, False)]
    if k == "objassign":
        return [code("var u = Object.assign(m, o)"), code("JSON.stringify(m)", True, False)]
    raise ValueError(sh)


def shape_coq(sh):
    k = sh[0]
    names = {"each": b"ShEach", "attrs": b"ShAttrs", "json": b"ShJson", "keys": b"ShKeys", "forin": b"ShForIn",
             "keys_each": b"ShKeysEach", "assign_each": b"ShAssignEach", "push": b"ShPush", "sort": b"ShSort",
             "setkey": b"ShSetKey", "objassign": b"ShObjAssign"}
    if k == "var":
        return b"(Some (ShVar " + cq_bytes(sh[1]) + b"))"
    if k == "free":
        return b"None"
    return b"(Some " + names[k] + b")"


# statements for the free-form (oracle-only) mutation-heavy templates
# (no statement may close a reference cycle - items never refers to a map, m never to o: printing a
#  cyclic object recurses until the Go runtime kills the process with a stack overflow)
FREE_STMTS = [
    "items.push(9)", "items.sort()", "items.pop()", "items.shift()", "items.unshift('u')", "var sp = items.splice(1)",
    "var sl = items.slice(1)", "m.k = 1", "m.a = items", "o.z = items", "var u = Object.assign(m, o)",
    "var u2 = Object.assign(o, m)", "var ks = Object.keys(m)", "var ko = Object.keys(o)", "m.zz = 'w'",
    "var g = {x: 1, y: items}", "var u3 = Object.assign(g, m)", "items.push('s')", "foo = 1",
    "var foo = 'shadow'", "title = items", "o.items = items", "var x = m.a", "var y = m.attrs", "y.q = 1",
    "var tg = m.tags", "tg.sort()", "tg.push('t')", "var it = m.items", "it.push(1)", "it.sort()", "m.name = 'nn'",
    "$global.c = 1", "$global.it = items",
]
FREE_PRINTS = [
    code("JSON.stringify(m)", True, False), code("JSON.stringify(o)", True, False),
    code("JSON.stringify(items)", True, False), code("items.join(',')", True, True), code("m", True, True),
    code("o", True, True), code("Object.keys(m).join(',')", True, True), code("foo", True, True),
    code("title", True, True), code("items.length", True, True), code("Object.keys(o).join('|')", True, True),
]


def free_nodes(rng):
    nodes = []
    for _ in range(rng.randint(1, 7)):
        r = rng.random()
        if r < 0.55:
            nodes.append(code(rng.choice(FREE_STMTS)))
        elif r < 0.75:
            nodes.append(rng.choice(FREE_PRINTS))
        elif r < 0.85:
            nodes.append(each_kv(rng.choice(["m", "o"])))
        elif r < 0.92:
            nodes.append(tag("p", attrs=[("x", "'1'")], ablocks=[rng.choice(["m", "o"])]))
        elif r < 0.96:
            nodes.append(code("for (k in %s) { k }" % rng.choice(["m", "o"])))
        else:
            nodes.append({"type": "Mixin", "name": "mx", "args": None, "call": False, "attrs": [], "attributeBlocks": [],
                          "block": block([tag("i", ablocks=["attributes"])])})
            names = rng.sample(["a", "b", "c", "d", "e", "f", "g"], rng.randint(2, 6))
            nodes.append({"type": "Mixin", "name": "mx", "args": "", "call": True, "attributeBlocks": [], "block": None,
                          "attrs": [{"name": a, "val": "'%d'" % i, "mustEscape": True} for i, a in enumerate(names)]})
    for _ in range(rng.randint(1, 3)):
        nodes.append(rng.choice(FREE_PRINTS))
    return nodes


SHAPES = ["each", "attrs", "json", "keys", "forin", "var", "keys_each", "assign_each", "push", "sort", "setkey",
          "objassign"]


def ast(nodes):
    return json.dumps(block(nodes)).encode()


def top_names(data):
    d = data[1] if data[0] == 'ptr' else data
    return [k for k, _ in d[1]]


def g_case(rng, tier):
    data = g_data(rng, tier)
    r = rng.random()
    if r < 0.72:
        k = rng.choice(SHAPES)
        if k == "var":
            names = top_names(data)
            x = rng.choice(names)
            if rng.random() < 0.5:
                x = x[:1].lower() + x[1:]
            sh = ("var", x)
        else:
            sh = (k,)
        nodes = shape_nodes(sh)
    else:
        sh = ("free",)
        nodes = free_nodes(rng)
    files = {"t": nodes}
    # other templates for the prefix renders: mutation-heavy and key-caching ones over the same names
    others = {}
    for i in range(rng.randint(0, 3)):
        others["p%d" % i] = free_nodes(rng) if rng.random() < 0.7 else shape_nodes((rng.choice(
            ["each", "attrs", "json", "keys_each", "assign_each", "push", "sort", "setkey", "objassign"]),))
    prefix = []
    for _ in range(rng.randint(0, 4) if others or rng.random() < 0.5 else 0):
        name = rng.choice(sorted(others) + ["t"])
        pdata = data if rng.random() < 0.5 else g_data(rng, tier)
        prefix.append({"render": name, "data": pdata})
    files.update(others)
    return {"shape": list(sh), "nodes": {n: v for n, v in files.items()}, "data": data, "prefix": prefix}


def to_harness(case, single):
    return {"files": {hx(n): hx(ast(v)) for n, v in case["nodes"].items()}, "render": hx("t"),
            "data": d_go(tuplify(case["data"])), "single": single,
            "prefix": [] if single else [{"render": hx(p["render"]), "data": d_go(tuplify(p["data"]))}
                                         for p in case["prefix"]]}


def tuplify(v):
    """cases travel through JSON in replays/corpus: bring lists back to the tuple form"""
    if isinstance(v, tuple):
        v = list(v)
    t = v[0]
    if t == 'nil':
        return ('nil',)
    if t in ('bool', 'int'):
        return (t, v[1])
    if t == 'str':
        return ('str', tob(v[1]))
    if t == 'arr':
        return ('arr', [tuplify(x) for x in v[1]])
    if t == 'strs':
        return ('strs', [tob(x) for x in v[1]])
    if t == 'ints':
        return ('ints', list(v[1]))
    if t == 'map':
        return ('map', [(k, tuplify(x)) for k, x in v[1]])
    if t == 'smap':
        return ('smap', [(k, tob(x)) for k, x in v[1]])
    if t == 'imap':
        return ('imap', [(k, x) for k, x in v[1]])
    if t == 'nmap':
        return ('nmap', [(k, tob(x)) for k, x in v[1]])
    if t in ('rec', 'prec'):
        return (t, {k: tuplify(x) for k, x in v[1].items()})
    if t == 'ptr':
        return ('ptr', tuplify(v[1]))
    raise ValueError(v)


def tob(x):
    if isinstance(x, bytes):
        return x
    if isinstance(x, dict):          # {"hex": ...} form used in JSON files
        return unhx(x["hex"])
    return x.encode('utf-8')


def jsonable(v):
    """tuple form -> JSON-friendly form (bytes as {"hex":..}) for replays and corpus"""
    t = v[0]
    hb = lambda b_: {"hex": hx(b_)}
    if t == 'nil':
        return ['nil']
    if t in ('bool', 'int'):
        return [t, v[1]]
    if t == 'str':
        return ['str', hb(v[1])]
    if t == 'arr':
        return ['arr', [jsonable(x) for x in v[1]]]
    if t == 'strs':
        return ['strs', [hb(x) for x in v[1]]]
    if t == 'ints':
        return ['ints', list(v[1])]
    if t == 'map':
        return ['map', [[k, jsonable(x)] for k, x in v[1]]]
    if t == 'smap':
        return ['smap', [[k, hb(x)] for k, x in v[1]]]
    if t == 'imap':
        return ['imap', [[k, x] for k, x in v[1]]]
    if t == 'nmap':
        return ['nmap', [[k, hb(x)] for k, x in v[1]]]
    if t in ('rec', 'prec'):
        return [t, {k: jsonable(x) for k, x in v[1].items()}]
    if t == 'ptr':
        return ['ptr', jsonable(v[1])]
    raise ValueError(v)


def case_json(case):
    return {"shape": case["shape"], "nodes": case["nodes"], "data": jsonable(tuplify(case["data"])),
            "prefix": [{"render": p["render"], "data": jsonable(tuplify(p["data"]))} for p in case["prefix"]]}


class C07(Prop):
    id = "C07"
    engine = "C07"
    judge_module = "Run.Judge_C07"
    prop_module = "Props.C07"
    prop_file = "Props/C07.v"
    coq_targets = ["Props/C07.vo", "Run/Judge_C07.vo"]
    sizes = {"quick": 320, "thorough": 6000}
    shard = 200
    design_ref = "DESIGN.md section 6 C07, section 7 F-C05-c / F-C07-b"
    rule = ("(template, data) pairs: 72% one of 12 modelled shapes (each k,v / &attributes / JSON.stringify / "
            "Object.keys / for-in / top-level name / Object.keys then each / Object.assign into an ordered literal "
            "then each / push / sort / x.k = v / Object.assign) and 28% free-form mutation-heavy statement lists "
            "(push, pop, shift, unshift, sort, splice, slice, member assignment, Object.assign, $global, mixin "
            "attributes) judged by the oracle alone; data built from Go map[string]interface{}, map[string]string, "
            "map[string]int, map[int]string, []interface{}, []string, []int, structs, pointers to structs, slices "
            "and maps, 0-48 keys (more than 8: several hash buckets), first-letter case collisions among keys "
            "(Foo/foo, A/a, Key/key); each pair rendered 5 times in one process (twice on one engine, second "
            "engine, third engine after 0-4 other renders incl. mutation-heavy ones on the same data, freshly built "
            "equal data) and once in each of 3 fresh processes; non-trivial = the rendered map-like value has at "
            "least 2 keys or the template mutates; distinct by SHA-1 of the case")
    trusted = [
        "the Go map iteration oracle pi of the theorems is an arbitrary function returning a permutation of the "
        "entries it is given (Section hypothesis perm_oracle); the runtime's real iteration orders are sampled by "
        "the correspondence check (8 renders per case, 4 processes)",
        "Template.execute / state.walk enter the history theorem as Section variables (new_exec, run_exec, output: "
        "arbitrary functions of the template and the converted data); that Render reads nothing else is checked by "
        "the correspondence renders after a prefix of other renders",
        "reflect.DeepEqual against a second, independently built copy of the data is the harness's oracle for "
        "'input untouched'",
        "lowerFirst is modelled on an ASCII first byte (generators use ASCII first letters)",
    ]
    assumptions = ["perm_oracle pi: every map range visits each entry exactly once, in some order"]

    def generate(self, rng, n, tier):
        return [case_json(g_case(rng, tier)) for _ in range(n)]

    # one full run + FRESH_PROCESSES single-render runs, each a process of its own
    def run(self, binary, cases, tmp, tier):
        full = run_harness(binary, self.engine, [to_harness(c, False) for c in cases])
        fresh = [run_harness(binary, self.engine, [to_harness(c, True) for c in cases])
                 for _ in range(FRESH_PROCESSES)]
        obss = []
        for i, o in enumerate(full):
            if o["load"] != "ok":
                raise BuildError("generated template does not load (case %d)" % i,
                                 json.dumps(cases[i])[:3000] + "\n" + o.get("msg", ""))
            o = dict(o)
            o["fresh"] = [f[i]["r"][0] for f in fresh]
            o["fresh_untouched"] = all(f[i]["untouched"] for f in fresh)
            obss.append(o)
        return obss

    @staticmethod
    def outs(obs):
        return list(obs["r"]) + list(obs["fresh"])

    def emit(self, case, obs):
        outs = [cq_opt(cq_bytes(unhx(r["out"]))) if r["class"] == "ok" else b"None" for r in self.outs(obs)]
        untouched = obs["untouched"] and obs["prefix_untouched"] and obs["fresh_untouched"]
        return (b"{| c_shape := " + shape_coq(tuple(case["shape"])) + b"; c_data := " + d_coq(tuplify(case["data"])) +
                b"; c_outs := " + cq_list(outs) + b"; c_untouched := " + cq_bool(untouched) + b" |}")

    def nontrivial(self, case, obs):
        d = tuplify(case["data"])
        if d[0] == 'ptr':
            d = d[1]
        m = dict(d[1]).get("m")
        if case["shape"][0] in ("free", "push", "sort", "setkey", "objassign", "assign_each"):
            return True
        if m is None:
            return False
        if m[0] == 'ptr':
            m = m[1]
        return m[0] in ('rec', 'prec') or len(m[1]) >= 2

    def sample(self, case, obs):
        outs = self.outs(obs)
        return {"shape": case["shape"], "template": case["nodes"]["t"], "data": d_plain(tuplify(case["data"])),
                "prefix_renders": [p["render"] for p in case["prefix"]],
                "go_outputs_distinct": len({(r["class"], r["out"]) for r in outs}), "renders": len(outs),
                "go_output": unhx(outs[0]["out"]).decode("utf-8", "replace")[:300] if outs[0]["class"] == "ok" else outs[0]["class"],
                "data_untouched": obs["untouched"] and obs["prefix_untouched"] and obs["fresh_untouched"]}

    def shrink(self, case):
        # fewer prefix renders, fewer other templates, fewer top-level keys, fewer entries of m / o
        for i in range(len(case["prefix"])):
            c = dict(case)
            c["prefix"] = case["prefix"][:i] + case["prefix"][i + 1:]
            yield c
        used = {p["render"] for p in case["prefix"]} | {"t"}
        for n in case["nodes"]:
            if n not in used:
                c = dict(case)
                c["nodes"] = {a: b_ for a, b_ in case["nodes"].items() if a != n}
                yield c
        if case["shape"][0] == "free" and len(case["nodes"]["t"]) > 1:
            for i in range(len(case["nodes"]["t"])):
                c = dict(case)
                c["nodes"] = dict(case["nodes"])
                c["nodes"]["t"] = case["nodes"]["t"][:i] + case["nodes"]["t"][i + 1:]
                yield c
        d = case["data"]
        inner = d[1] if d[0] == 'ptr' else d
        wrap = (lambda x: ['ptr', x]) if d[0] == 'ptr' else (lambda x: x)
        if d[0] == 'ptr':
            c = dict(case)
            c["data"] = inner
            yield c
        top = inner[1]
        for i, (k, v) in enumerate(top):
            if k not in ("m", "o", "items"):
                c = dict(case)
                c["data"] = wrap(['map', top[:i] + top[i + 1:]])
                yield c
        for i, (k, v) in enumerate(top):
            if v[0] in ('map', 'smap', 'imap', 'nmap') and len(v[1]) > 0:
                for j in range(len(v[1])):
                    c = dict(case)
                    c["data"] = wrap(['map', top[:i] + [[k, [v[0], v[1][:j] + v[1][j + 1:]]]] + top[i + 1:]])
                    yield c
            elif v[0] in ('arr', 'strs', 'ints') and len(v[1]) > 0:
                for j in range(len(v[1])):
                    c = dict(case)
                    c["data"] = wrap(['map', top[:i] + [[k, [v[0], v[1][:j] + v[1][j + 1:]]]] + top[i + 1:]])
                    yield c

    def model_expr(self):
        return "(model07 c, oracle07 c, dom_data (c_data c), c_outs c)"

    def distribution(self, cases, obss):
        d = {"shape": {}, "m_kind": {}, "m_keys": {"0-1": 0, "2-8": 0, "9+": 0}, "data_kinds": {},
             "with_prefix": 0, "prefix_renders": 0, "go_exec_error": 0, "first_letter_collisions": 0,
             "renders_per_case": 5 + FRESH_PROCESSES, "fresh_processes": FRESH_PROCESSES}
        for c, o in zip(cases, obss):
            d["shape"][c["shape"][0]] = d["shape"].get(c["shape"][0], 0) + 1
            data = tuplify(c["data"])
            for k in d_kinds(data, set()):
                d["data_kinds"][k] = d["data_kinds"].get(k, 0) + 1
            inner = data[1] if data[0] == 'ptr' else data
            names = [k for k, _ in inner[1]]
            m = dict(inner[1]).get("m")
            if m is not None:
                mm = m[1] if m[0] == 'ptr' else m
                d["m_kind"][m[0]] = d["m_kind"].get(m[0], 0) + 1
                n = len(mm[1])
                d["m_keys"]["0-1" if n < 2 else "2-8" if n <= 8 else "9+"] += 1
                if mm[0] in ('map', 'smap', 'imap'):
                    names = names + ["m." + k for k, _ in mm[1]]
            low = [x[:-1] + x[-1:] for x in names]
            folded = [(x.rsplit(".", 1)[0] if "." in x else "", (x.rsplit(".", 1)[-1][:1].lower() + x.rsplit(".", 1)[-1][1:]))
                      for x in names]
            d["first_letter_collisions"] += len(folded) != len(set(folded))
            d["with_prefix"] += bool(c["prefix"])
            d["prefix_renders"] += len(c["prefix"])
            d["go_exec_error"] += any(r["class"] != "ok" for r in self.outs(o))
        return d


PROP = C07()
