# C07 — rendering is a pure, deterministic function of template and data.
#
# Every generated (template, data) pair is rendered by the real engine in processes of its own: in one
# process as the very first render, again on the same engine, on a second engine, then - after a HISTORY
# of other renders (other templates, the same template with other data, on any of three engine
# instances) - on a third engine, with freshly built equal data, on an engine created only then, on an
# engine whose template directory holds the template ALONE and on an engine whose directory lists the
# template and its SIBLINGS in the other order; and once in each of three more processes that render
# nothing else (own map hash seeds; one per directory layout).  The harness deep-compares the caller's
# data with a pristine copy after the renders.
# What Engine.Render returns is an io.Reader - "the output" is what the caller reads from it, whenever it
# reads it.  Besides the renders read at once the harness KEEPS results: the reader stays unread (or
# partly read) while the process goes on rendering (same pair, other data, other templates, same and
# other engines) and is read when everything is over, in several orders.
# The judge (Run/Judge_C07.v) demands that all outputs are byte-identical and the data untouched, and -
# where a model covers the template - that they equal its prediction: Models/Purity.v for the 12
# order-sensitive shapes, the executor model (Pug.Compile + Tmpl.Exec, run on the template ALONE) for the
# templates given as pug trees.
#
# Template families:
#   shapes   the 12 order-sensitive sites (each / &attributes / JSON.stringify / Object.keys / ...)
#   acc      STATE BUILT DURING A RENDER: an object or array created by a literal ({} [] {zz: 1} ..) - or the
#            $global object every render starts with - is filled in loops and under conditions with keys and
#            values taken from the data, then enumerated / serialised / read at keys this render may not have set
#   free     statement lists mutating data-derived objects, literals, $global, variables read before they are
#            set, mixin definitions and calls (also a call without a definition in this template)
#   mix      PAGE-LOCAL MIXINS: the template defines 1-3 mixins under everyday names (item, row, card, ...),
#            calls them with arguments, attributes and blocks taken from the data - and sometimes calls a
#            name it does not define
# SIBLINGS = template files of the same engine directory (same directory as the rendered template,
# sub-directories, the parent directory) that are never rendered: they define mixins of the SAME names
# with other bodies and parameters, call mixins with blocks, switch doctype / raw text mode - everything
# a translator carries from one file to the next if it is not created per file.
# The point of acc / free together with the HISTORY: whatever a render leaves behind anywhere in the process
# (engine, package-level variable, pool, cache) and a later render picks up makes r3..r5 differ from r0 and
# from the single-render processes.
# OBJECT-MODEL DATA: page data may already hold values of the engine's own object model - what the caller got
# from pugjs.Convert (*pugjs.Array, *pugjs.Map, pugjs.String / Number / Bool / Nil), Go slices []pugjs.Object and
# maps map[string]pugjs.Object of such values - anywhere: as a whole, as items / m / o, nested in lists and maps.
# The caller keeps these values (a cache of converted data, values built for template functions): they are
# handed to EVERY render of the pair and are part of the deep comparison with the pristine copy.  Every slice
# the harness builds is a window into a longer array (0-2 marked elements behind its end) that is compared too.
# ENGINES OF ONE PROCESS: the engines of the pair share one function table (standard functions + sometimes
# zero-argument functions under names the templates read like constants: motto, claim, brand, lang, year);
# ALIEN engines live in the same process with function tables of their own - a name the template reads is a
# function in one engine and a variable of the page data in the other - over the same template files or
# over other files under the same names.  They are created and loaded before the pair's first engine exists,
# or before the history, render right after loading and in between the other renders.  Every alien render is
# repeated in a process that holds only that engine: the two outputs must be equal.
# KEYS THAT ARE NOT STRINGS / STRUCT TYPES WITHOUT A NAME: page data holds Go maps keyed by bool, named bool, int8,
# uint16, int64, float64, a small struct, an array, a named string type and interface{} (keys of several dynamic
# types) - convert names such entries fmt.Sprint(key); the judge gets that name computed by this file (kname) - and
# values of struct types that have no name of their own: types made by reflect.StructOf from a per-value field list
# (what `struct{Title string}` literals are: Name() and PkgPath() are empty) and five types declared inside functions
# of the harness, all called main.View, with different fields.  Since g_data makes the data of every render (pair,
# history, alien engines), one process sees several such types one after the other.
# NOT THE FIRST RENDER: one more process per case renders the first two history / late renders with other data (on
# the same or on a second engine instance) and THEN the pair, once: what the first render of a process' life
# leaves behind for the others (a table filled at first sight of a type, a key, a name) is then not the pair's own.
# A template is stored either as raw pug AST JSON (list of nodes) or as {"tree": <tmpl.py pug tuples>};
# only the tree form is handed to the executor model.
import json
from common import *
import tmpl

FRESH_PROCESSES = 3
FULL_RENDERS = 8          # r0..r7 of harness/c07.go
N_ENGINES = 6             # e1 e2 e3, the late engine, the engine over t alone, the engine over the other listing order
ENGINE_ALONE = 4

# ------------------------------------------------------------------ data
# ('nil',) ('bool',b) ('int',n) ('str',bytes) ('arr',[v]) ('strs',[bytes]) ('ints',[n])
# ('map',[(k,v)]) ('smap',[(k,bytes)]) ('imap',[(k,n)]) ('nmap',[(n,bytes)])
# ('rec',{field:v}) ('prec',{field:v}) ('ptr',v)
# ('kmap',[(key,v)],kind) map with keys that are not strings      ('st',[(Field,v)],ty,is_ptr) struct without a type name
REC_FIELDS = ["name", "count", "tags", "items", "attrs", "next"]   # declaration order of c07Rec


def d_go(v):
    t = v[0]
    if t == 'nil':
        return {"t": "nil"}
    if t == 'bool':
        return {"t": "bool", "v": v[1]}
    if t == 'int':
        return {"t": "int", "v": v[1]}
    if t == 'str':
        return {"t": "str", "v": hx(v[1])}
    if t == 'arr':
        return {"t": "arr", "v": [d_go(x) for x in v[1]]}
    if t == 'strs':
        return {"t": "strs", "v": [hx(x) for x in v[1]]}
    if t == 'ints':
        return {"t": "ints", "v": list(v[1])}
    if t == 'map':
        return {"t": "map", "v": [[hx(k), d_go(x)] for k, x in v[1]]}
    if t == 'smap':
        return {"t": "smap", "v": [[hx(k), d_go(('str', x))] for k, x in v[1]]}
    if t == 'imap':
        return {"t": "imap", "v": [[hx(k), d_go(('int', x))] for k, x in v[1]]}
    if t == 'nmap':
        return {"t": "nmap", "v": [[k, hx(x)] for k, x in v[1]]}
    if t in ('rec', 'prec'):
        return {"t": t, "v": [[hx(k), d_go(x)] for k, x in v[1].items()]}
    if t == 'ptr':
        return {"t": "ptr", "v": d_go(v[1])}
    if t == 'kmap':
        return {"t": "kmap", "v": {"k": v[2], "e": [[kkey_go(v[2], k), d_go(x)] for k, x in v[1]]}}
    if t == 'st':
        return {"t": "st", "v": {"ty": v[2], "ptr": bool(v[3]), "f": [[hx(k), d_go(x)] for k, x in v[1]]}}
    if t == 'obj':
        return {"t": "obj", "v": d_go(v[1])}
    if t == 'objs':
        return {"t": "objs", "v": [d_go(x) for x in v[1]]}
    if t == 'omap':
        return {"t": "omap", "v": [[hx(k), d_go(x)] for k, x in v[1]]}
    raise ValueError(v)


def ckey(k):
    return b"(KStr " + cq_bytes(k) + b")"


def d_coq(v):
    t = v[0]
    if t == 'nil':
        return b"GNil"
    if t == 'bool':
        return b"(GBool " + cq_bool(v[1]) + b")"
    if t == 'int':
        return b"(GInt " + cq_Z(v[1]) + b")"
    if t == 'str':
        return b"(GStr " + cq_bytes(v[1]) + b")"
    if t == 'arr':
        return b"(GArr " + cq_list([d_coq(x) for x in v[1]]) + b")"
    if t == 'strs':
        return b"(GArr " + cq_list([d_coq(('str', x)) for x in v[1]]) + b")"
    if t == 'ints':
        return b"(GArr " + cq_list([d_coq(('int', x)) for x in v[1]]) + b")"
    if t == 'map':
        return b"(GMap " + cq_list([cq_pair(ckey(k), d_coq(x)) for k, x in v[1]]) + b")"
    if t == 'smap':
        return b"(GMap " + cq_list([cq_pair(ckey(k), d_coq(('str', x))) for k, x in v[1]]) + b")"
    if t == 'imap':
        return b"(GMap " + cq_list([cq_pair(ckey(k), d_coq(('int', x))) for k, x in v[1]]) + b")"
    if t == 'nmap':
        return b"(GMap " + cq_list([cq_pair(b"(KInt " + cq_Z(k) + b")", d_coq(('str', x))) for k, x in v[1]]) + b")"
    if t in ('rec', 'prec'):
        f = v[1]
        zero = {"name": ('str', b""), "count": ('int', 0), "tags": ('arr', []), "items": ('arr', []),
                "attrs": ('map', []), "next": None}
        fs = []
        for name in REC_FIELDS:
            x = f.get(name, zero[name])
            term = b"(GPtr None)" if x is None else d_coq(x)
            fs.append(cq_pair(cq_bytes(name[:1].upper() + name[1:]), term))
        s = b"(GStruct " + cq_list(fs) + b")"
        return b"(GPtr (Some " + s + b"))" if t == 'prec' else s
    if t == 'ptr':
        return b"(GPtr (Some " + d_coq(v[1]) + b"))"
    # a key that is not a string names its entry by fmt.Sprint(key) (computed here, by kname, from the key's
    # description - not taken from the engine)
    if t == 'kmap':
        return b"(GMap " + cq_list([cq_pair(ckey(kname(v[2], k)), d_coq(x)) for k, x in v[1]]) + b")"
    if t == 'st':
        s = b"(GStruct " + cq_list([cq_pair(cq_bytes(k), d_coq(x)) for k, x in v[1]]) + b")"
        return b"(GPtr (Some " + s + b"))" if v[3] else s
    # values of the engine's own object model stand for the Go value they were converted from: a render
    # converts its data, and converting a converted value is the identity on what a template can see
    if t == 'obj':
        return d_coq(v[1])
    if t == 'objs':
        return b"(GArr " + cq_list([d_coq(x) for x in v[1]]) + b")"
    if t == 'omap':
        return b"(GMap " + cq_list([cq_pair(ckey(k), d_coq(x)) for k, x in v[1]]) + b")"
    raise ValueError(v)


def d_plain(v):
    t = v[0]
    if t == 'nil':
        return None
    if t in ('bool', 'int'):
        return v[1]
    if t == 'str':
        return v[1].decode('utf-8', 'replace')
    if t == 'arr':
        return [d_plain(x) for x in v[1]]
    if t == 'strs':
        return [x.decode('utf-8', 'replace') for x in v[1]]
    if t == 'ints':
        return list(v[1])
    if t == 'map':
        return {"go": "map[string]interface{}", "entries": {k: d_plain(x) for k, x in v[1]}}
    if t == 'smap':
        return {"go": "map[string]string", "entries": {k: x.decode('utf-8', 'replace') for k, x in v[1]}}
    if t == 'imap':
        return {"go": "map[string]int", "entries": dict(v[1])}
    if t == 'nmap':
        return {"go": "map[int]string", "entries": {str(k): x.decode('utf-8', 'replace') for k, x in v[1]}}
    if t in ('rec', 'prec'):
        return {"go": "struct" if t == 'rec' else "*struct", "fields": {k: d_plain(x) for k, x in v[1].items()}}
    if t == 'ptr':
        return {"go": "pointer", "to": d_plain(v[1])}
    if t == 'kmap':
        return {"go": KM_GO[v[2]], "entries": {kname(v[2], k): d_plain(x) for k, x in v[1]}}
    if t == 'st':
        return {"go": ("*" if v[3] else "") + ("reflect.StructOf type (no name)" if v[2] < 0 else
                                               "function-local type View no. %d" % v[2]),
                "fields": {k: d_plain(x) for k, x in v[1]}}
    if t == 'obj':
        return {"go": "pugjs.Convert(..)", "of": d_plain(v[1])}
    if t == 'objs':
        return {"go": "[]pugjs.Object", "items": [d_plain(x) for x in v[1]]}
    if t == 'omap':
        return {"go": "map[string]pugjs.Object", "entries": {k: d_plain(x) for k, x in v[1]}}
    raise ValueError(v)


def d_kinds(v, acc):
    acc.add(v[0])
    t = v[0]
    if t == 'arr':
        for x in v[1]:
            d_kinds(x, acc)
    elif t == 'map':
        for _, x in v[1]:
            d_kinds(x, acc)
    elif t in ('rec', 'prec'):
        for x in v[1].values():
            d_kinds(x, acc)
    elif t in ('ptr', 'obj'):
        d_kinds(v[1], acc)
    elif t in ('kmap', 'st'):
        for _, x in v[1]:
            d_kinds(x, acc)
    elif t == 'objs':
        for x in v[1]:
            d_kinds(x, acc)
    elif t == 'omap':
        for _, x in v[1]:
            d_kinds(x, acc)
    return acc


KEYS = ["a", "b", "c", "d", "e", "f", "g", "h", "A", "B", "Ab", "ab", "aB", "id", "ID", "Id", "url", "k", "K",
        "zz", "Zz", "class", "title", "Title", "x1", "x2", "x10", "data-x", "aria-label", "href", "n", "N",
        "key", "Key", "_u", "z9", "alt", "Alt", "m1", "m2", "q", "Q", "r", "s", "t", "u", "v", "w"]
STR_ALPHABET = ["a", "b", "c", "X", "Y", "0", "1", "9", " ", " ", "<", ">", "&", '"', "'", "/", "\\", "é", "-",
                "_", ".", ",", "=", "\n", "\t", "ü", "{", "}"]
TOP_EXTRA = ["foo", "Foo", "bar", "Bar", "title", "Title", "n", "N", "count", "Count", "M", "O", "Items", "q", "zeta"]
# names that templates only READ, like constants (`= motto`, `if lang`, title=brand): in one engine such a name is
# a zero-argument template function, in another one a variable of the page data
CONSTS = ["motto", "claim", "brand", "lang", "year"]


def g_str(rng, maxlen=8):
    return "".join(rng.choice(STR_ALPHABET) for _ in range(rng.choice([0, 1, 2, 3, 5, maxlen]))).encode()


def g_int(rng):
    r = rng.random()
    if r < 0.7:
        return rng.randint(-20, 120)
    if r < 0.997:
        return rng.randint(-10 ** 9, 10 ** 9)
    return rng.choice([10 ** 10, 2 ** 40, -(10 ** 12)])       # Number.String() leaves plain decimal: unmodelled


def g_scalar(rng):
    r = rng.random()
    if r < 0.45:
        return ('str', g_str(rng))
    if r < 0.75:
        return ('int', g_int(rng))
    if r < 0.9:
        return ('bool', rng.random() < 0.5)
    return ('nil',)


def g_keys(rng, n):
    return rng.sample(KEYS, min(n, len(KEYS)))


def g_size(rng, tier):
    r = rng.random()
    if r < 0.08:
        return rng.choice([0, 1])
    if r < 0.75:
        return rng.randint(2, 7)
    if r < 0.95:
        return rng.randint(8, 14)           # more than one bucket: not only rotations of one order
    return rng.randint(15, 30 if tier == "quick" else 48)


def g_value(rng, depth, tier):
    r = rng.random()
    if depth <= 0 or r < 0.6:
        return g_scalar(rng)
    if r < 0.72:
        return ('arr', [g_value(rng, depth - 1, tier) for _ in range(rng.randint(0, 4))])
    if r < 0.78:
        return ('strs', [g_str(rng) for _ in range(rng.randint(0, 4))])
    if r < 0.82:
        return ('ints', [g_int(rng) for _ in range(rng.randint(0, 4))])
    if r < 0.94:
        return g_maplike(rng, depth - 1, tier, small=True)
    if r < 0.97:
        return g_struct(rng, depth - 1, tier)
    return g_rec(rng, depth - 1, tier)


def g_rec(rng, depth, tier):
    f = {}
    if rng.random() < 0.8:
        f["name"] = ('str', g_str(rng))
    if rng.random() < 0.7:
        f["count"] = ('int', g_int(rng))
    if rng.random() < 0.6:
        f["tags"] = ('strs', [g_str(rng, 4) for _ in range(rng.randint(0, 4))])
    if rng.random() < 0.5:
        f["items"] = ('arr', [g_scalar(rng) for _ in range(rng.randint(0, 4))])
    if rng.random() < 0.5:
        f["attrs"] = ('map', [(k, g_scalar(rng)) for k in g_keys(rng, rng.randint(0, 5))])
    if depth > 0 and rng.random() < 0.3:
        f["next"] = g_rec(rng, depth - 1, tier)
        f["next"] = ('prec', f["next"][1])
    return (rng.choice(['rec', 'prec']), f)


def g_maplike(rng, depth, tier, small=False):
    n = rng.randint(0, 4) if small else g_size(rng, tier)
    ks = g_keys(rng, n)
    r = rng.random()
    if r < 0.44:
        return ('map', [(k, g_value(rng, depth, tier)) for k in ks])
    if r < 0.53:
        return ('smap', [(k, g_str(rng)) for k in ks])
    if r < 0.60:
        return ('imap', [(k, g_int(rng)) for k in ks])
    if r < 0.65:
        return ('nmap', [(i, g_str(rng)) for i in rng.sample(range(-3, 40), min(n, 12))])
    if r < 0.78:
        return g_kmap(rng, depth, tier, small)
    if r < 0.83:
        return ('ptr', ('map', [(k, g_value(rng, depth, tier)) for k in ks]))
    if r < 0.96:
        return g_struct(rng, depth, tier)
    return g_rec(rng, depth, tier)


# ---- maps whose keys are not strings: ('kmap', [(key, v)], kind)
# convert (types.go) names such an entry fmt.Sprint(key); kname computes that text from the key's description
KM_GO = {"bool": "map[bool]interface{}", "bs": "map[bool]string", "nb": "map[c07Flag]interface{} (named bool)",
         "i8": "map[int8]interface{}", "u16": "map[uint16]interface{}", "i64": "map[int64]interface{}",
         "f64": "map[float64]interface{}", "sk": "map[struct{A int; B string}]interface{}",
         "ak": "map[[2]int]interface{}", "ns": "map[c07Name]interface{} (named string type)",
         "ik": "map[interface{}]interface{}"}
KM_KINDS = ["bool", "bs", "nb", "i8", "u16", "i64", "f64", "sk", "ak", "ns", "ik"]
KM_WORDS = ["x", "y", "ab", "k1", "red", "on", "off", "n", "zz", "q7"]


def kname(kind, k):
    """fmt.Sprint(key)"""
    if kind in ("bool", "bs", "nb"):
        return "true" if k else "false"
    if kind in ("i8", "u16", "i64"):
        return str(k)
    if kind == "f64":                    # quarters of small integers: %v prints them in plain decimal
        return str(int(k)) if float(k) == int(k) else repr(float(k))
    if kind == "sk":
        return "{%d %s}" % (k[0], k[1])
    if kind == "ak":
        return "[%d %d]" % (k[0], k[1])
    if kind == "ns":
        return k
    if kind == "ik":
        return kname({"bool": "bool", "int": "i64", "str": "ns"}[k[0]], k[1])
    raise ValueError(kind)


def kkey_go(kind, k):
    if kind == "ik":
        return d_go((k[0], k[1].encode() if k[0] == 'str' else k[1]))
    return k


def g_kkey(rng, kind):
    if kind in ("bool", "bs", "nb"):
        return rng.random() < 0.5
    if kind == "i8":
        return rng.randint(-128, 127)
    if kind == "u16":
        return rng.choice([0, 1, 2, 7, 10, 255, 256, 65535, rng.randint(0, 65535)])
    if kind == "i64":
        return rng.choice([rng.randint(-9, 30), rng.randint(-10 ** 12, 10 ** 12)])
    if kind == "f64":
        return rng.randint(-40, 400) / 4.0
    if kind == "sk":
        return [rng.randint(-3, 12), rng.choice(KM_WORDS)]
    if kind == "ak":
        return [rng.randint(-3, 12), rng.randint(0, 3)]
    if kind == "ns":
        return rng.choice(KM_WORDS + KEYS[:8])
    if kind == "ik":
        r = rng.random()
        return ['bool', rng.random() < 0.5] if r < 0.3 else ['int', rng.randint(-5, 40)] if r < 0.65 else \
            ['str', rng.choice(KM_WORDS)]
    raise ValueError(kind)


def g_kmap(rng, depth, tier, small=False):
    kind = rng.choice(KM_KINDS)
    want = 2 if kind in ("bool", "bs", "nb") else rng.choice([2, 2, 3, 4, 6] if small else [2, 3, 4, 6, 9, 12])
    if rng.random() < 0.06:
        want = rng.choice([0, 1])
    ents, seen = [], set()
    for _ in range(want * 4):
        if len(ents) >= want:
            break
        k = g_kkey(rng, kind)
        nm = kname(kind, k)
        if nm in seen:                   # two keys of one map never print alike (1 and "1" in a map[interface{}])
            continue
        seen.add(nm)
        ents.append((k, ('str', g_str(rng)) if kind == "bs" else g_value(rng, min(depth, 1), tier)))
    return ('kmap', ents, kind)


# ---- struct types that have no name of their own: ('st', [(Field, v)], ty, is_pointer)
# ty = -1: the type is made by reflect.StructOf from the fields (string / int / bool / []string fields for such
# values, interface{} otherwise) - the Go type of a `struct{Title string; ...}` literal: no name, no package path;
# ty >= 0: one of the harness' types declared inside functions - different types, all called View in package main
ST_FIELDS = ["Title", "Name", "ID", "Count", "Label", "Tags", "Items", "Attrs", "Url", "Price", "Qty", "Sku", "Note",
             "Kind", "Flag", "Rank", "A", "B", "X"]
LOCAL_TYPES = [[("Title", "str"), ("Count", "int")],
               [("Name", "str"), ("Tags", "strs"), ("Count", "int")],
               [("ID", "int"), ("Label", "str"), ("Items", "arr"), ("Attrs", "map")],
               [("Label", "str")],
               [("Count", "int"), ("Title", "str")]]


def g_field(rng, kind):
    if kind == "str":
        return ('str', g_str(rng) or b"s")
    if kind == "int":
        return ('int', rng.randint(1, 99))
    if kind == "strs":
        return ('strs', [g_str(rng, 4) for _ in range(rng.randint(0, 3))])
    if kind == "arr":
        return ('arr', [g_scalar(rng) for _ in range(rng.randint(0, 3))])
    return ('map', [(k, g_scalar(rng)) for k in g_keys(rng, rng.randint(0, 3))])


def g_struct(rng, depth, tier):
    ptr = rng.random() < 0.3
    if rng.random() < 0.35:
        ty = rng.randrange(len(LOCAL_TYPES))
        return ('st', [(n, g_field(rng, k)) for n, k in LOCAL_TYPES[ty]], ty, ptr)
    names = rng.sample(ST_FIELDS, rng.choice([1, 1, 2, 2, 3, 4, 6]))
    fs = []
    for n in names:
        r = rng.random()
        fs.append((n, g_field(rng, "str") if r < 0.4 else g_field(rng, "int") if r < 0.6 else
                   g_value(rng, min(depth, 1), tier)))
    return ('st', fs, -1, ptr)


def kinds_of(v, tag, acc=None):
    """all sub-values of the data with that tag"""
    acc = [] if acc is None else acc
    t = v[0]
    if t == tag:
        acc.append(v)
    if t in ('arr', 'objs'):
        for x in v[1]:
            kinds_of(x, tag, acc)
    elif t in ('map', 'omap', 'kmap', 'st'):
        for _, x in v[1]:
            kinds_of(x, tag, acc)
    elif t in ('rec', 'prec'):
        for x in v[1].values():
            kinds_of(x, tag, acc)
    elif t in ('ptr', 'obj'):
        kinds_of(v[1], tag, acc)
    return acc


def g_items(rng, tier):
    r = rng.random()
    n = rng.choice([0, 1, 2, 3, 5, 8])
    if r < 0.5:
        return ('arr', [g_scalar(rng) for _ in range(n)])
    if r < 0.7:
        return ('strs', [g_str(rng, 4) for _ in range(n)])
    if r < 0.85:
        return ('ints', [g_int(rng) for _ in range(n)])
    if r < 0.93:
        return ('ptr', ('arr', [g_scalar(rng) for _ in range(n)]))
    return ('arr', [g_value(rng, 1, tier) for _ in range(n)])


def g_data(rng, tier):
    top = [("m", g_maplike(rng, 2, tier)), ("o", g_maplike(rng, 1, tier, small=rng.random() < 0.6)),
           ("items", g_items(rng, tier))]
    for k in rng.sample(TOP_EXTRA, rng.randint(0, 6)):
        top.append((k, g_value(rng, 1, tier)))
    rng.shuffle(top)
    d = ('map', top)
    if rng.random() < 0.08:
        d = ('ptr', d)
    return d


# ---- values of the engine's own object model in the data
# ('obj', v)    what the caller got from pugjs.Convert(v): *pugjs.Array for slices, *pugjs.Map for maps and structs (a
#               struct's fields are converted on first access), pugjs.String / Number / Bool / Nil for scalars
# ('objs', [v]) a Go slice []pugjs.Object of such values      ('omap', [(k, v)]) a Go map map[string]pugjs.Object
OBJ_KINDS = ('obj', 'objs', 'omap')


def objectify(rng, v, p):
    """the same data with (more or less, by p) of its values held as pugjs objects; what a template can see of the
    data stays what it was"""
    t = v[0]
    r = rng.random()
    if t in ('arr', 'strs', 'ints'):
        elems = [('str', x) for x in v[1]] if t == 'strs' else [('int', x) for x in v[1]] if t == 'ints' else v[1]
        if r < p * 0.55:
            return ('objs', [objectify(rng, x, p * 0.4) for x in elems])
        if r < p:
            return ('obj', v)
        if t == 'arr':
            return ('arr', [objectify(rng, x, p * 0.6) for x in v[1]])
        return v
    if t == 'map':
        if r < p * 0.5:
            return ('obj', v)
        if r < p * 0.8:
            return ('omap', list(v[1]))
        return ('map', [(k, objectify(rng, x, p * 0.6)) for k, x in v[1]])
    if t in ('smap', 'imap', 'nmap'):
        return ('obj', v) if r < p * 0.4 else v
    if t in ('rec', 'prec', 'str', 'int', 'bool', 'nil'):
        return ('obj', v) if r < p * 0.3 else v
    return v


def objectify_data(rng, data):
    if data[0] != 'map':
        return data
    top = [(k, objectify(rng, x, 0.9 if k == "items" else 0.75 if k in ("m", "o") else 0.35)) for k, x in data[1]]
    if not any(has_objects(x) for _, x in top):
        top = [(k, (('objs', [('str', y) for y in x[1]]) if x[0] == 'strs' else ('obj', x)) if k == "items" else x)
               for k, x in top]
    d = ('map', top)
    return ('obj', d) if rng.random() < 0.06 else d


def has_objects(v):
    return bool(d_kinds(v, set()) & set(OBJ_KINDS))


def erase_objects(v):
    """the plain Go data a value with pugjs objects in it was made from"""
    t = v[0]
    if t == 'obj':
        return erase_objects(v[1])
    if t == 'objs':
        return ('arr', [erase_objects(x) for x in v[1]])
    if t == 'omap':
        return ('map', [(k, erase_objects(x)) for k, x in v[1]])
    if t == 'arr':
        return ('arr', [erase_objects(x) for x in v[1]])
    if t == 'map':
        return ('map', [(k, erase_objects(x)) for k, x in v[1]])
    if t in ('rec', 'prec'):
        return (t, {k: erase_objects(x) for k, x in v[1].items()})
    if t == 'ptr':
        return ('ptr', erase_objects(v[1]))
    return v


def top_of(data):
    """the top-level map description inside a pointer / a converted object"""
    while data[0] in ('ptr', 'obj'):
        data = data[1]
    return data


def lower_nested(v, top=True):
    """the same data with every map key below the top level starting in lower case (entries whose lowered key
    is already taken are dropped): no object of such data holds two keys that differ only in the case of the
    first letter, whatever a template merges - the executor model's domain (Run/Judge_C07.v fold_clash)"""
    t = v[0]
    if t == 'arr':
        return ('arr', [lower_nested(x, False) for x in v[1]])
    if t in ('map', 'smap', 'imap'):
        out, seen = [], set()
        for k, x in v[1]:
            k2 = k if top else k[:1].lower() + k[1:]
            if k2 in seen:
                continue
            seen.add(k2)
            out.append((k2, lower_nested(x, False) if t == 'map' else x))
        return (t, out)
    if t in ('rec', 'prec'):
        return (t, {k: lower_nested(x, False) for k, x in v[1].items()})
    if t in ('ptr', 'obj'):
        return (t, lower_nested(v[1], top))
    if t in ('kmap', 'st'):
        return (t, [(k, lower_nested(x, False)) for k, x in v[1]]) + tuple(v[2:])
    return v


# ------------------------------------------------------------------ templates
def code(src, buffer=False, esc=True, inline=False):
    return {"type": "Code", "val": src, "buffer": buffer, "mustEscape": esc, "isInline": inline}


def text(s):
    return {"type": "Text", "val": s}


def block(nodes):
    return {"type": "Block", "nodes": nodes}


def each(obj, body, val="v", key="k"):
    return {"type": "Each", "obj": obj, "val": val, "key": key, "block": block(body)}


def tag(name, attrs=(), ablocks=(), body=()):
    return {"type": "Tag", "name": name, "isInline": False, "selfClosing": False,
            "attrs": [{"name": a, "val": v, "mustEscape": True} for a, v in attrs],
            "attributeBlocks": [{"type": "AttributeBlock", "val": a} for a in ablocks], "block": block(list(body))}


def each_kv(obj):
    return each(obj, [text("["), code("k", True, True, True), text("="), code("v", True, True, True), text("]")])


def shape_nodes(sh):
    k = sh[0]
    if k == "each":
        return [each_kv("m")]
    if k == "attrs":
        return [tag("div", ablocks=["m"])]
    if k == "json":
        return [code("JSON.stringify(m)", True, False)]
    if k == "keys":
        return [code("Object.keys(m).join(',')", True, True)]
    if k == "forin":
        return [code("for (k in m) { k }")]
    if k == "var":
        return [code(sh[1], True, True)]
    if k == "keys_each":
        return [code("var ks = Object.keys(m)"), each_kv("m")]
    if k == "assign_each":
        return [code("var t = {zz: 1}"), code("var u = Object.assign(t, m)"), each_kv("t")]
    if k == "push":
        return [code("items.push(9)"), code("items.join(',')", True, True), code("JSON.stringify(items)", True, False)]
    if k == "sort":
        return [code("items.sort()"), code("items.join(',')", True, True)]
    if k == "setkey":
        return [code("m.k = 1"), code("JSON.stringify(m)", True, False)]
    if k == "objassign":
        return [code("var u = Object.assign(m, o)"), code("JSON.stringify(m)", True, False)]
    if k == "itag":
        # pug's `#{tg} b`: a tag whose name is computed - the one place where the translator decides about
        # escaping BEFORE it has seen a code node of this file (no model covers it: judged by the oracle alone)
        return [{"type": "InterpolatedTag", "expr": "tg", "isInline": False, "selfClosing": False, "attrs": [],
                 "attributeBlocks": [], "block": block([text("b")])}, code("title", True, True)]
    raise ValueError(sh)


def shape_coq(sh):
    k = sh[0]
    names = {"each": b"ShEach", "attrs": b"ShAttrs", "json": b"ShJson", "keys": b"ShKeys", "forin": b"ShForIn",
             "keys_each": b"ShKeysEach", "assign_each": b"ShAssignEach", "push": b"ShPush", "sort": b"ShSort",
             "setkey": b"ShSetKey", "objassign": b"ShObjAssign"}
    if k == "var":
        return b"(Some (ShVar " + cq_bytes(sh[1]) + b"))"
    if k in TREE_FAMILIES or k == "itag":
        return b"None"
    return b"(Some " + names[k] + b")"


# ---- pug trees (tmpl.py tuple forms; only str / int / bool / None / lists inside, so that a tree
# ---- survives the JSON round trip of replays and corpus files unchanged)
def I(x):
    return ('id', x)


def D(e, *names):
    for n in names:
        e = ('dot', e, n)
    return e


def CALL(f, *args):
    return ('call', f, list(args))


def MC(obj, meth, *args):
    return CALL(D(obj, meth), *args)


def N(n):
    return ('num', n)


def S(x):
    return ('str', x)


def ASG(l, r):
    return ('expr', ('assign', l, r))


def VAR(x, e):
    return ('vars', [('var', x, e)])


def EX(e):
    return ('expr', e)


def t_stmt(st):
    """- <statement>"""
    return ('code', [st], True, False)


def t_print(e, esc=True, inline=False):
    """= e  /  != e"""
    return ('code', [('expr', e)], esc, inline)


def t_text(x):
    return ('text', x)


def t_each_kv(obj):
    return ('each', 'v', 'k', obj, [t_text("["), t_print(I('k'), True, True), t_text("="), t_print(I('v'), True, True),
                                    t_text("]")])


def t_tag(name, attrs=(), ablocks=(), body=()):
    return ('tag', name, False, [(a, v, True) for a, v in attrs], list(ablocks), list(body))


def t_if(test, body):
    return ('cond', test, list(body), None)


def JSONS(e):
    return MC(I('JSON'), 'stringify', e)


def OKEYS(e):
    return MC(I('Object'), 'keys', e)


def OASSIGN(*a):
    return MC(I('Object'), 'assign', *a)


# statements for the free-form mutation-heavy templates
# (no statement may close a reference cycle - items never refers to a map, m never to o, a literal never
#  to itself: printing a cyclic object recurses until the Go runtime kills the process with a stack overflow)
m_, o_, items_ = I('m'), I('o'), I('items')
FREE_STMTS = [
    EX(MC(items_, 'push', N(9))), EX(MC(items_, 'sort')), EX(MC(items_, 'pop')), EX(MC(items_, 'shift')),
    EX(MC(items_, 'unshift', S('u'))), VAR('sp', MC(items_, 'splice', N(1))), VAR('sl', MC(items_, 'slice', N(1))),
    ASG(D(m_, 'k'), N(1)), ASG(D(m_, 'a'), items_), ASG(D(o_, 'z'), items_), VAR('u', OASSIGN(m_, o_)),
    VAR('u2', OASSIGN(o_, m_)), VAR('ks', OKEYS(m_)), VAR('ko', OKEYS(o_)), ASG(D(m_, 'zz'), S('w')),
    VAR('g', ('obj', [('x', N(1)), ('y', items_)])), VAR('u3', OASSIGN(I('g'), m_)), EX(MC(items_, 'push', S('s'))),
    ASG(I('foo'), N(1)), VAR('foo', S('shadow')), ASG(I('title'), items_), ASG(D(o_, 'items'), items_),
    VAR('x', D(m_, 'a')), VAR('y', D(m_, 'attrs')), ASG(D(I('y'), 'q'), N(1)), VAR('tg', D(m_, 'tags')),
    EX(MC(I('tg'), 'sort')), EX(MC(I('tg'), 'push', S('t'))), VAR('it', D(m_, 'items')), EX(MC(I('it'), 'push', N(1))),
    EX(MC(I('it'), 'sort')), ASG(D(m_, 'name'), S('nn')), ASG(D(I('global'), 'c'), N(1)),
    ASG(D(I('global'), 'it'), items_),
    # objects and arrays created by literals, filled from the data
    VAR('e', ('obj', [])), VAR('e', ('obj', [])), VAR('l', ('arr', [])), ASG(D(I('e'), 'k'), D(m_, 'a')),
    ASG(('idx', I('e'), D(m_, 'name')), N(1)), ASG(('idx', I('e'), ('idx', items_, N(0))), S('i0')),
    ASG(D(I('e'), 'its'), items_), EX(MC(I('l'), 'push', D(o_, 'a'))), EX(MC(I('l'), 'push', D(items_, 'length'))),
    VAR('e2', OASSIGN(('obj', []), o_)), ASG(D(I('global'), 'e'), I('e')),
]
FREE_PRINTS = [
    t_print(JSONS(m_), False), t_print(JSONS(o_), False), t_print(JSONS(items_), False),
    t_print(MC(items_, 'join', S(','))), t_print(m_), t_print(o_), t_print(MC(OKEYS(m_), 'join', S(','))),
    t_print(I('foo')), t_print(I('title')), t_print(D(items_, 'length')), t_print(MC(OKEYS(o_), 'join', S('|'))),
    t_print(JSONS(I('e')), False), t_print(JSONS(I('l')), False), t_print(D(I('global'), 'c')),
    t_print(JSONS(I('e2')), False), t_print(D(I('e'), 'k')),
]


# statements that write IN PLACE into objects that come from the data
WRITE_STMTS = [
    EX(MC(items_, 'sort')), EX(MC(items_, 'sort')), EX(MC(items_, 'push', N(9))), EX(MC(items_, 'pop')),
    EX(MC(items_, 'shift')), EX(MC(items_, 'unshift', S('u'))), VAR('sp', MC(items_, 'splice', N(1))),
    ASG(D(m_, 'k'), N(1)), ASG(D(m_, 'zz'), S('w')), VAR('u', OASSIGN(m_, o_)), VAR('u2', OASSIGN(o_, m_)),
    ASG(D(o_, 'z'), items_),
]


def free_nodes(rng, writes=False):
    nodes = []
    for _ in range(rng.randint(1, 7)):
        r = rng.random()
        if writes and r < 0.35:
            nodes.append(t_stmt(rng.choice(WRITE_STMTS)))
        elif r < 0.57:
            nodes.append(t_stmt(rng.choice(FREE_STMTS)))
        elif r < 0.77:
            nodes.append(rng.choice(FREE_PRINTS))
        elif r < 0.88:
            nodes.append(t_each_kv(rng.choice([m_, o_, I('e')])))
        elif r < 0.95:
            nodes.append(t_tag("p", attrs=[("x", S('1'))], ablocks=[rng.choice(["m", "o"])]))
        else:
            # a mixin definition and a call of it - or only one of the two: a call without a definition renders
            # nothing, whatever other templates and earlier renders have defined under that name
            names = rng.sample(["a", "b", "c", "d", "e", "f", "g"], rng.randint(2, 6))
            which = rng.random()
            if which < 0.75:
                body = [t_tag("i", ablocks=["attributes"])] if rng.random() < 0.7 else [t_text("M"), t_print(JSONS(m_), False)]
                nodes.append(('mixin', 'mx', [], body))
            if which > 0.25:
                nodes.append(('call', 'mx', [], [(a, S(str(i)), True) for i, a in enumerate(names)], []))
    for _ in range(rng.randint(1, 3)):
        nodes.append(rng.choice(FREE_PRINTS))
    # `e[i] = x` on a variable that is not set yet makes Go print the failed action as text (deterministic, but no
    # model covers it): most of the time the literal comes first
    first = [i for i, n in enumerate(nodes) if n[0] == 'code' and n[1][0][0] == 'expr' and n[1][0][1][0] == 'assign'
             and n[1][0][1][1][0] == 'idx']
    if first and rng.random() < 0.9:
        nodes.insert(rng.randint(0, first[0]), t_stmt(VAR('e', ('obj', []))))
    return nodes


# ---- acc: state built during one render.  Whatever such a template prints is determined by the literal it
# ---- starts from and by the data of THIS render; anything a render leaves behind in an object that a later
# ---- literal evaluates to, or in any other place that outlives the render, shows up here.
def acc_nodes(rng):
    acc = I('acc')
    r = rng.random()
    kind = 'map'
    if r < 0.45:
        lit = ('obj', [])
    elif r < 0.55:
        lit = ('obj', [('zz', N(1))])
    elif r < 0.62:
        lit = ('obj', [('a', S('x')), ('k', N(2))])
    elif r < 0.72:
        lit = OASSIGN(('obj', []), o_)
    elif r < 0.92:
        lit, kind = ('arr', []), 'arr'
    else:
        lit, kind = ('arr', [S('u')]), 'arr'
    nodes = [t_stmt(VAR('acc', lit))]
    if kind == 'map' and rng.random() < 0.2:
        # the per-render object every template starts with: $global
        acc, nodes = I('global'), []
    v, k = I('v'), I('k')
    for _ in range(rng.choice([1, 1, 1, 2])):
        src = rng.choice([items_, items_, m_, o_, OKEYS(m_)])
        body = []
        for _ in range(rng.choice([1, 1, 2])):
            if kind == 'map':
                # (pugjs cannot load `x[i] = y` with a bare identifier on the right: the right-hand sides are
                #  literals and compound expressions)
                st = rng.choice([ASG(('idx', acc, v), ('bool', True)), ASG(('idx', acc, v), ('bin', '+', k, S(''))),
                                 ASG(('idx', acc, k), ('arr', [v])), ASG(('idx', acc, k), ('cond', v, v, N(0))),
                                 ASG(('idx', acc, ('bin', '+', S('p'), v)), N(1)),
                                 ASG(('idx', acc, v), D(items_, 'length')), ASG(('idx', acc, v), N(1)),
                                 ASG(D(acc, 'last'), v)])
            else:
                st = rng.choice([EX(MC(acc, 'push', v)), EX(MC(acc, 'push', k)), EX(MC(acc, 'unshift', v)),
                                 EX(MC(acc, 'push', v))])
            if rng.random() < 0.25:
                test = rng.choice([v, ('bin', '==', v, S('a')), ('bin', '>', k, N(0)), ('un', '!', v)])
                body.append(t_if(test, [t_stmt(st)]))
            else:
                body.append(t_stmt(st))
        nodes.append(('each', 'v', 'k', src, body))
    if rng.random() < 0.4:
        test = rng.choice([I('foo'), I('title'), I('n'), I('count'), D(m_, 'a'), D(items_, 'length'), D(o_, 'k'),
                           ('bin', '>', D(items_, 'length'), N(2))])
        st = ASG(D(acc, 'flag'), N(1)) if kind == 'map' else EX(MC(acc, 'push', S('f')))
        nodes.append(t_if(test, [t_stmt(st)]))
    if rng.random() < 0.2:
        nodes.append(t_stmt(VAR('b', ('obj', []))))
        nodes.append(t_stmt(ASG(D(I('b'), 'inner'), acc)))
        nodes.append(t_print(JSONS(I('b')), False))
    if kind == 'map':
        prints = [t_each_kv(acc), t_print(JSONS(acc), False), t_print(MC(OKEYS(acc), 'join', S(','))),
                  t_print(D(acc, 'zz')), t_print(D(acc, 'flag')), t_print(D(acc, 'a')), t_print(acc),
                  t_each_kv(acc), t_print(JSONS(acc), False)]
    else:
        prints = [t_print(MC(acc, 'join', S(','))), t_print(JSONS(acc), False), t_print(D(acc, 'length')),
                  t_each_kv(acc), t_print(JSONS(acc), False)]
    for p_ in rng.sample(prints, rng.randint(1, 3)):
        nodes.append(p_)
    return nodes


# ---- mix: page-local mixins.  What a call renders is decided by the definitions of THIS file alone.
MIXIN_NAMES = ["item", "row", "card", "badge", "mx"]
MIXIN_PARAMS = ["label", "n"]


def mixin_body(rng, params, marker):
    """body of a mixin definition; `marker` tells the definitions of different files apart"""
    body = [t_text(marker)]
    for p_ in params:
        if rng.random() < 0.8:
            body.append(t_print(I(p_), True, True))
            body.append(t_text(";"))
    r = rng.random()
    if r < 0.35:
        body.append(t_tag(rng.choice(["i", "li", "b"]), ablocks=["attributes"], body=[t_text(marker.lower())]))
    elif r < 0.5:
        body.append(t_print(D(I('attributes'), 'x'), True, True))
    elif r < 0.6:
        body.append(t_print(D(items_, 'length'), True, True))
    if rng.random() < 0.35:
        body.append(t_text("("))
        body.append(('mixinblock',))
        body.append(t_text(")"))
    return body


def mixin_def(rng, name, marker):
    params = rng.choice([[], ["label"], ["label"], ["label", "n"], ["n"]])
    return ('mixin', name, list(params), mixin_body(rng, params, marker))


def mixin_call(rng, name, nparams=None):
    argpool = [S('x'), D(m_, 'a'), D(items_, 'length'), I('title'), I('foo'), N(7), ('idx', items_, N(0)), D(o_, 'k')]
    n = rng.choice([0, 1, 1, 2]) if nparams is None else nparams
    args = [rng.choice(argpool) for _ in range(n)]
    attrs = [(a, rng.choice([S(str(i)), D(items_, 'length'), S('v')]), True)
             for i, a in enumerate(rng.sample(["x", "y", "id", "c"], rng.choice([0, 0, 1, 2])))]
    blk = [t_text(rng.choice(["blk", "B", "<b>"]))] if rng.random() < 0.3 else []
    return ('call', name, args, attrs, blk)


def mix_nodes(rng):
    names = rng.sample(MIXIN_NAMES, rng.randint(1, 3))
    marker = rng.choice("ABCDEFGH") + str(rng.randint(0, 9)) + ":"
    nodes, arity = [], {}
    for nm in names:
        d = mixin_def(rng, nm, marker + nm[:1])
        arity[nm] = len(d[2])
        nodes.append(d)
    for _ in range(rng.randint(1, 4)):
        r = rng.random()
        if r < 0.62:
            nm = rng.choice(names)
            nodes.append(mixin_call(rng, nm, arity[nm] if rng.random() < 0.85 else None))
        elif r < 0.72:
            # a name this file does not define: renders nothing, whatever other files define under it
            rest = [x for x in MIXIN_NAMES if x not in names]
            if rest:
                nodes.append(mixin_call(rng, rng.choice(rest)))
        elif r < 0.84:
            nm = rng.choice(names)
            nodes.append(('each', 'v', 'k', items_, [('call', nm, [I('v'), I('k')][:arity[nm]], [], [])]))
        elif r < 0.92:
            nodes.append(t_tag("ul", body=[mixin_call(rng, rng.choice(names))]))
        else:
            nodes.append(rng.choice(FREE_PRINTS[:11]))
    if not any(n[0] in ('call', 'each', 'tag') for n in nodes):
        nodes.append(mixin_call(rng, names[0], arity[names[0]]))
    return nodes


def tree_mixin_names(nodes, acc=None):
    """names of the mixins a pug tree defines or calls"""
    acc = [] if acc is None else acc
    for n in nodes:
        k = n[0]
        if k in ('mixin', 'call'):
            if n[1] not in acc:
                acc.append(n[1])
            tree_mixin_names(n[3] if k == 'mixin' else n[4], acc)
        elif k == 'tag':
            tree_mixin_names(n[5], acc)
        elif k == 'each':
            tree_mixin_names(n[4], acc)
        elif k == 'cond':
            tree_mixin_names(n[2], acc)
    return acc


def sibling_nodes(rng, names):
    """a template that is never rendered: what it defines must not reach the rendered template.  `names` = the
    mixin names the rendered template defines or calls"""
    marker = "S" + str(rng.randint(0, 99)) + ":"
    nodes = []
    if rng.random() < 0.3:
        nodes.append(('doctype', rng.choice(["html", "xml", "transitional", "strict", "1.1"])))
    pool = list(names) + [x for x in rng.sample(MIXIN_NAMES, 2) if x not in names]
    rng.shuffle(pool)
    for nm in pool[:rng.randint(1, max(1, len(pool)))]:
        nodes.append(mixin_def(rng, nm, marker + nm[:1].upper()))
    for _ in range(rng.randint(0, 3)):
        r = rng.random()
        if r < 0.5:
            nm = rng.choice(pool)
            c = mixin_call(rng, nm)
            if rng.random() < 0.5:      # a call with a block: the translator numbers these
                c = c[:4] + ([t_text("sb"), t_print(D(m_, 'a'))],)
            nodes.append(c)
        elif r < 0.7:
            # raw text mode: the content of script / style elements
            nodes.append(t_tag(rng.choice(["script", "style"]), body=[t_text("var a = '<&>';")]))
        elif r < 0.85:
            nodes.append(rng.choice(FREE_PRINTS[:11]))
        else:
            nodes.append(t_stmt(rng.choice(FREE_STMTS[:16])))
    if rng.random() < 0.25:
        rng.shuffle(nodes)
    if rng.random() < 0.4:
        # the last code node of the file is an unescaped one (raw mode when the translator leaves the file)
        nodes.append(rng.choice([t_print(JSONS(m_), False), t_print(I('title'), False), t_print(JSONS(items_), False)]))
    return nodes


def g_siblings(rng, tree, tdir, always):
    """0-3 sibling files: in the rendered template's directory, in a sub-directory of it, in another directory"""
    if not always and rng.random() < 0.45:
        return {}
    names = tree_mixin_names(tree) if tree is not None else []
    sibs = {}
    for i in range(rng.choice([1, 1, 2, 2, 3])):
        r = rng.random()
        here = tdir + "/" if tdir else ""
        if r < 0.6:
            path = here + "s%d" % i
        elif r < 0.8:
            path = here + "d%d/s%d" % (i, i)
        elif tdir:
            path = "s%d" % i            # the parent directory of the rendered template's directory
        else:
            path = "e%d/s%d" % (i % 2, i)
        sibs[path] = {"tree": sibling_nodes(rng, names)}
    return sibs


# ---- results that are read later
def g_hold(rng, p_hold):
    """(hold, pre): 0 = the result is read at once; 1 = kept unread; 2 = the first `pre` bytes at once, the rest kept"""
    r = rng.random()
    if r >= p_hold:
        return 0, 0
    if r < p_hold * 0.75:
        return 1, 0
    return 2, rng.choice([1, 2, 5, 16])


def g_late(rng, tier, data, others):
    """the renders after r7: renders of the pair whose result is kept unread, and after each of them renders
    that differ from it (other data, other templates) on the same and on other engines"""
    r = rng.random()
    n = 0 if r < 0.15 else rng.randint(1, 3) if r < 0.7 else rng.randint(4, 8)
    late = []
    for _ in range(n):
        r = rng.random()
        if r < 0.4:
            h, pre = g_hold(rng, 0.85)
            late.append({"pair": True, "on": rng.randrange(N_ENGINES), "hold": h, "pre": pre})
        else:
            other_tpl = bool(others) and rng.random() < 0.5
            name = rng.choice(sorted(others)) if other_tpl else "t"
            on = rng.choice([0, 1, 2, 3, 5]) if other_tpl else rng.randrange(N_ENGINES)
            h, pre = g_hold(rng, 0.5)
            late.append({"render": name, "data": data if other_tpl and rng.random() < 0.5 else g_data(rng, tier),
                         "on": on, "hold": h, "pre": pre})
    # a kept result of the pair is followed by at least one render of something else
    kept = [i for i, x in enumerate(late) if x.get("pair") and x["hold"]]
    if kept and all(x.get("pair") for x in late[kept[-1] + 1:]):
        late.append({"render": "t", "data": g_data(rng, tier), "on": late[kept[-1]]["on"], "hold": 0, "pre": 0})
    return late


# ---- names read like constants
def const_reads(rng, names):
    """nodes that read the names in value position: printed, tested, as an attribute value, inside an expression,
    as a mixin argument"""
    nodes = []
    for c in names:
        r = rng.random()
        if r < 0.45:
            nodes.append(t_print(I(c), True, rng.random() < 0.5))
        elif r < 0.6:
            nodes.append(t_if(I(c), [t_text("y:" + c)]))
        elif r < 0.75:
            nodes.append(t_tag("a", attrs=[("title", I(c))], body=[t_text("l")]))
        elif r < 0.9:
            nodes.append(t_print(('bin', '+', I(c), S('!'))))
        else:
            nodes.append(t_print(I(c), False))
    return nodes


def with_const_reads(rng, tree, p=0.55):
    """the tree with 1-2 such reads put somewhere at its top level (by p); returns (tree, names read)"""
    if rng.random() >= p:
        return tree, []
    names = rng.sample(CONSTS, rng.choice([1, 1, 2]))
    tree = list(tree)
    for n in const_reads(rng, names):
        tree.insert(rng.randint(0, len(tree)), n)
    return tree, names


def tree_consts(nodes):
    """the CONSTS names a stored template (tree or raw AST) mentions"""
    text = json.dumps(nodes)
    return [c for c in CONSTS if '"%s"' % c in text or ("'%s'" % c) in text]


def g_const(rng):
    """what a constant-like template function returns"""
    r = rng.random()
    if r < 0.6:
        return ('str', rng.choice([b"fn", b"F<1>", b"from function", b"f&g", b""]) + g_str(rng, 3))
    if r < 0.8:
        return ('int', rng.randint(0, 99))
    if r < 0.9:
        return ('bool', rng.random() < 0.5)
    return ('strs', [g_str(rng, 3) for _ in range(rng.randint(0, 3))])


def g_engines(rng, tier, data, files, reads):
    """(funcs, aliens): the function table of the pair's engines beyond the standard functions, and the other
    engines of the process: own function tables - differing from the pair's in names the templates read -
    over the same template files, or over other files under the same names"""
    funcs = {}
    if rng.random() < (0.35 if reads else 0.05):
        for c in (reads if reads and rng.random() < 0.85 else rng.sample(CONSTS, rng.randint(1, 2))):
            if rng.random() < 0.8:
                funcs[c] = g_const(rng)
    aliens = []
    if rng.random() < (0.55 if reads else 0.3):
        for _ in range(rng.choice([1, 1, 1, 2])):
            af = dict(funcs)
            for c in (reads or rng.sample(CONSTS, 1)):
                if rng.random() < 0.75:       # function in one engine, variable in the other
                    if c in af:
                        del af[c]
                    else:
                        af[c] = g_const(rng)
            if rng.random() < 0.3:
                for c in rng.sample(CONSTS + ["title", "foo", "n", "count", "q"], rng.randint(1, 2)):
                    af.setdefault(c, g_const(rng))
            if af == funcs:
                c = rng.choice(CONSTS)
                if c in af:
                    del af[c]
                else:
                    af[c] = g_const(rng)
            afiles = dict(files)
            r = rng.random()
            if r < 0.3:
                # another template set: other files under the same names
                for n in rng.sample(sorted(afiles), rng.randint(1, len(afiles))):
                    afiles[n] = g_other(rng) if rng.random() < 0.7 else {"tree": const_reads(rng, reads or CONSTS[:2])}
            warm = []
            if rng.random() < 0.6:
                warm.append({"render": rng.choice(sorted(afiles)), "data": data if rng.random() < 0.5 else g_data(rng, tier),
                             "hold": 0, "pre": 0})
            aliens.append({"funcs": af, "files": afiles, "first": rng.random() < 0.5, "warm": warm})
    return funcs, aliens


def g_alien_requests(rng, tier, data, aliens, prefix, late):
    """0-2 renders by the alien engines among the renders of the history and of the late phase"""
    for _ in range(rng.choice([0, 1, 1, 2])):
        k = rng.randrange(len(aliens))
        h, pre = g_hold(rng, 0.3)
        rq = {"render": rng.choice(sorted(aliens[k]["files"])), "data": data if rng.random() < 0.5 else g_data(rng, tier),
              "on": 100 + k, "hold": h, "pre": pre}
        l = prefix if rng.random() < 0.6 else late
        l.insert(rng.randint(0, len(l)), rq)


SHAPES = ["each", "attrs", "json", "keys", "forin", "var", "keys_each", "assign_each", "push", "sort", "setkey",
          "objassign"]
TREE_FAMILIES = ("acc", "free", "mix")


def ast(nodes):
    return json.dumps(block(nodes)).encode()


def tpl_ast(entry):
    """pug AST JSON nodes of a stored template"""
    if isinstance(entry, dict):
        return [tmpl.pug_json(n) for n in entry["tree"]]
    return entry


def tpl_tree(entry):
    return entry["tree"] if isinstance(entry, dict) else None


def top_names(data):
    return [k for k, _ in top_of(data)[1]]


def g_other(rng):
    r = rng.random()
    if r < 0.35:
        return {"tree": acc_nodes(rng)}
    if r < 0.7:
        return {"tree": free_nodes(rng)}
    if r < 0.82:
        return {"tree": mix_nodes(rng)}
    return shape_nodes((rng.choice(["each", "attrs", "json", "keys_each", "assign_each", "push", "sort", "setkey",
                                    "objassign"]),))


def g_history(rng, tier, data, others, stateful):
    """the renders that happen in the process between the first and the later renders of the pair: other
    templates and the SAME template with OTHER data, each on any of the process' three engine instances"""
    r = rng.random()
    if stateful:
        n = 0 if r < 0.1 else rng.randint(1, 4) if r < 0.78 else rng.randint(5, 12) if r < 0.95 else \
            rng.randint(15, 25 if tier == "quick" else 60)
    else:
        n = 0 if (r < 0.3 or not others and r < 0.5) else rng.randint(1, 4) if r < 0.95 else rng.randint(5, 12)
    hist = []
    for _ in range(n):
        name = "t" if (not others or rng.random() < (0.5 if stateful else 0.25)) else rng.choice(sorted(others))
        pdata = data if rng.random() < (0.2 if stateful else 0.5) else g_data(rng, tier)
        h, pre = g_hold(rng, 0.3 if n <= 12 else 0.1)
        hist.append({"render": name, "data": pdata, "on": rng.randint(0, 2), "hold": h, "pre": pre})
    return hist


MUTATING_SHAPES = ["push", "sort", "sort", "sort", "setkey", "objassign", "assign_each", "keys_each"]


def g_case(rng, tier):
    data = g_data(rng, tier)
    # OBJECT-MODEL DATA: 30% of the cases hold part of their data as pugjs objects; their templates are
    # mostly the ones that write in place
    objects = rng.random() < 0.32
    r = rng.random()
    reads = []
    if objects:
        r = rng.choice([0.0] * 9 + [0.5] * 3 + [0.7] * 6 + [0.9] * 2)
    if r < 0.42:
        k = rng.choice(MUTATING_SHAPES) if objects else rng.choice(SHAPES + ["itag", "itag", "var"])
        if k == "itag":
            top = data[1][1] if data[0] == 'ptr' else data[1]
            top.append(("tg", ('str', rng.choice([b"a&b", b"x<y", b"p", b"q\"r", b"i>j", b"e&m"]))))
        if k == "var":
            names = top_names(data)
            x = rng.choice(names)
            if rng.random() < 0.5:
                x = x[:1].lower() + x[1:]
            if rng.random() < 0.45:
                x = rng.choice(CONSTS)       # a name read like a constant
                reads = [x]
            sh = ("var", x)
        else:
            sh = (k,)
        if k == "sort":
            # a list worth sorting: at least two elements
            top = data[1][1] if data[0] == 'ptr' else data[1]
            for i, (key, v) in enumerate(top):
                while key == "items" and len((v[1] if v[0] == 'ptr' else v)[1]) < 2:
                    v = g_items(rng, tier)
                    top[i] = (key, v)
        entry = shape_nodes(sh)
    elif r < 0.65:
        sh = ("acc",)
        tree, reads = with_const_reads(rng, acc_nodes(rng))
        entry = {"tree": tree}
    elif r < 0.82:
        sh = ("free",)
        tree, reads = with_const_reads(rng, free_nodes(rng, writes=objects))
        entry = {"tree": tree}
    else:
        sh = ("mix",)
        tree, reads = with_const_reads(rng, mix_nodes(rng))
        entry = {"tree": tree}
    # the names read like constants are variables of the page data (60% each; the rest stays unset)
    top = data[1][1] if data[0] == 'ptr' else data[1]
    for c in reads + ([rng.choice(CONSTS)] if rng.random() < 0.1 else []):
        if rng.random() < 0.6 and c not in [k for k, _ in top]:
            top.insert(rng.randint(0, len(top)), (c, rng.choice([('str', b"data:" + g_str(rng, 3)), g_scalar(rng)])))
    if sh[0] in TREE_FAMILIES and rng.random() < 0.85:
        data = lower_nested(data)
    if objects:
        data = objectify_data(rng, data)
    files = {"t": entry}
    # other templates for the history renders: state-building, mutation-heavy and key-caching ones over the same names
    others = {}
    for i in range(rng.randint(0, 3)):
        o = g_other(rng)
        if isinstance(o, dict) and reads and rng.random() < 0.4:
            o = {"tree": o["tree"] + const_reads(rng, reads[:1])}
        others["p%d" % i] = o
    prefix = g_history(rng, tier, data, others, sh[0] in TREE_FAMILIES)
    files.update(others)
    # where the rendered template lives, and the files around it that are never rendered
    tdir = "sub" if rng.random() < 0.2 else ""
    siblings = g_siblings(rng, tpl_tree(entry), tdir, sh[0] in ("mix", "itag") or tree_has_mixin(entry))
    late = g_late(rng, tier, data, others)
    hold_first = rng.random() < 0.6
    if hold_first and not late and not any(p["data"] != data or p["render"] != "t" for p in prefix):
        # the kept result must see a render of something else before it is read
        late = [{"render": "t", "data": g_data(rng, tier), "on": 0, "hold": 0, "pre": 0}]
    # the engines of the process: function tables, alien engines and their renders
    funcs, aliens = g_engines(rng, tier, data, files, reads)
    if aliens:
        g_alien_requests(rng, tier, data, aliens, prefix, late)
    return {"shape": list(sh), "nodes": files, "data": data, "prefix": prefix, "tdir": tdir, "siblings": siblings,
            "late": late, "hold_first": hold_first, "t_first": rng.random() < 0.5,
            "read_seed": rng.choice([0, 1, 1, rng.randint(2, 10 ** 6), rng.randint(2, 10 ** 6)]),
            "read_step": rng.choice([0, 0, 0, 0, 1, 3, 7, 64]), "funcs": funcs, "aliens": aliens}


def is_alien_req(case, p):
    return p.get("on", 0) >= 100 and bool(case.get("aliens"))


def n_alien_renders(case):
    return (sum(len(a.get("warm", [])) for a in case.get("aliens", []))
            + sum(1 for p in list(case["prefix"]) + list(case.get("late", [])) if is_alien_req(case, p)))


def tree_has_mixin(entry):
    tree = tpl_tree(entry)
    return tree is not None and bool(tree_mixin_names(tree))


def t_path(case):
    return (case.get("tdir") or "") + ("/" if case.get("tdir") else "") + "t"


def funcs_go(funcs):
    return {k: d_go(tuplify(v)) for k, v in (funcs or {}).items()}


def alien_go(case, a):
    tp = t_path(case)
    return {"funcs": funcs_go(a.get("funcs")), "first": bool(a.get("first")),
            "files": {hx(tp if n == "t" else n): hx(ast(tpl_ast(v))) for n, v in a["files"].items()},
            "warm": [req_go(case, p) for p in a.get("warm", [])]}


def req_go(case, p):
    if p.get("pair"):
        return {"pair": True, "on": p.get("on", 0), "hold": p.get("hold", 0), "pre": p.get("pre", 0)}
    name = t_path(case) if p["render"] == "t" else p["render"]
    return {"render": hx(name), "data": d_go(tuplify(p["data"])), "on": p.get("on", 2), "hold": p.get("hold", 0),
            "pre": p.get("pre", 0)}


def before_reqs(case):
    """the renders that come first in the process where the pair is NOT the first render of the process' life: the
    first two renders of the history / the late phase (by the pair's engines) whose data is not the pair's"""
    reqs = [p for p in list(case["prefix"]) + list(case.get("late", []))
            if not p.get("pair") and not is_alien_req(case, p) and p["data"] != case["data"]]
    return reqs[:2]


def to_harness(case):
    tp = t_path(case)
    return {"before": [req_go(case, p) for p in before_reqs(case)],
            "files": {hx(tp if n == "t" else n): hx(ast(tpl_ast(v))) for n, v in case["nodes"].items()},
            "siblings": {hx(n): hx(ast(tpl_ast(v))) for n, v in case.get("siblings", {}).items()},
            "render": hx(tp), "data": d_go(tuplify(case["data"])), "single": False, "fresh": FRESH_PROCESSES,
            "prefix": [req_go(case, p) for p in case["prefix"]],
            "late": [req_go(case, p) for p in case.get("late", [])],
            "hold_first": bool(case.get("hold_first")), "t_first": bool(case.get("t_first")),
            "read_seed": case.get("read_seed", 0), "read_step": case.get("read_step", 0),
            "funcs": funcs_go(case.get("funcs")), "aliens": [alien_go(case, a) for a in case.get("aliens", [])]}


def tuplify(v):
    """cases travel through JSON in replays/corpus: bring lists back to the tuple form"""
    if isinstance(v, tuple):
        v = list(v)
    t = v[0]
    if t == 'nil':
        return ('nil',)
    if t in ('bool', 'int'):
        return (t, v[1])
    if t == 'str':
        return ('str', tob(v[1]))
    if t == 'arr':
        return ('arr', [tuplify(x) for x in v[1]])
    if t == 'strs':
        return ('strs', [tob(x) for x in v[1]])
    if t == 'ints':
        return ('ints', list(v[1]))
    if t == 'map':
        return ('map', [(k, tuplify(x)) for k, x in v[1]])
    if t == 'smap':
        return ('smap', [(k, tob(x)) for k, x in v[1]])
    if t == 'imap':
        return ('imap', [(k, x) for k, x in v[1]])
    if t == 'nmap':
        return ('nmap', [(k, tob(x)) for k, x in v[1]])
    if t in ('rec', 'prec'):
        return (t, {k: tuplify(x) for k, x in v[1].items()})
    if t in ('ptr', 'obj'):
        return (t, tuplify(v[1]))
    if t in ('kmap', 'st'):
        return (t, [(k, tuplify(x)) for k, x in v[1]]) + tuple(v[2:])
    if t == 'objs':
        return ('objs', [tuplify(x) for x in v[1]])
    if t == 'omap':
        return ('omap', [(k, tuplify(x)) for k, x in v[1]])
    raise ValueError(v)


def tob(x):
    if isinstance(x, bytes):
        return x
    if isinstance(x, dict):          # {"hex": ...} form used in JSON files
        return unhx(x["hex"])
    return x.encode('utf-8')


def jsonable(v):
    """tuple form -> JSON-friendly form (bytes as {"hex":..}) for replays and corpus"""
    t = v[0]
    hb = lambda b_: {"hex": hx(b_)}
    if t == 'nil':
        return ['nil']
    if t in ('bool', 'int'):
        return [t, v[1]]
    if t == 'str':
        return ['str', hb(v[1])]
    if t == 'arr':
        return ['arr', [jsonable(x) for x in v[1]]]
    if t == 'strs':
        return ['strs', [hb(x) for x in v[1]]]
    if t == 'ints':
        return ['ints', list(v[1])]
    if t == 'map':
        return ['map', [[k, jsonable(x)] for k, x in v[1]]]
    if t == 'smap':
        return ['smap', [[k, hb(x)] for k, x in v[1]]]
    if t == 'imap':
        return ['imap', [[k, x] for k, x in v[1]]]
    if t == 'nmap':
        return ['nmap', [[k, hb(x)] for k, x in v[1]]]
    if t in ('rec', 'prec'):
        return [t, {k: jsonable(x) for k, x in v[1].items()}]
    if t in ('ptr', 'obj'):
        return [t, jsonable(v[1])]
    if t in ('kmap', 'st'):
        return [t, [[k, jsonable(x)] for k, x in v[1]]] + list(v[2:])
    if t == 'objs':
        return ['objs', [jsonable(x) for x in v[1]]]
    if t == 'omap':
        return ['omap', [[k, jsonable(x)] for k, x in v[1]]]
    raise ValueError(v)


def req_json(p):
    if p.get("pair"):
        return {"pair": True, "on": p.get("on", 0), "hold": p.get("hold", 0), "pre": p.get("pre", 0)}
    return {"render": p["render"], "data": jsonable(tuplify(p["data"])), "on": p.get("on", 2),
            "hold": p.get("hold", 0), "pre": p.get("pre", 0)}


def case_json(case):
    c = {"shape": case["shape"], "nodes": case["nodes"], "data": jsonable(tuplify(case["data"])),
         "prefix": [req_json(p) for p in case["prefix"]], "tdir": case.get("tdir", ""),
         "siblings": case.get("siblings", {}), "late": [req_json(p) for p in case.get("late", [])],
         "hold_first": bool(case.get("hold_first")), "t_first": bool(case.get("t_first")),
         "read_seed": case.get("read_seed", 0), "read_step": case.get("read_step", 0),
         "funcs": {k: jsonable(tuplify(v)) for k, v in case.get("funcs", {}).items()},
         "aliens": [{"funcs": {k: jsonable(tuplify(v)) for k, v in a.get("funcs", {}).items()}, "files": a["files"],
                     "first": bool(a.get("first")), "warm": [req_json(p) for p in a.get("warm", [])]}
                    for a in case.get("aliens", [])]}
    return json.loads(json.dumps(c))      # exactly what a replay file holds (tuples become lists)


def shrink_tree(nodes):
    """smaller pug trees: drop a top-level node, unwrap / thin out the body of an each or a conditional"""
    for i in range(len(nodes)):
        yield nodes[:i] + nodes[i + 1:]
    for i, n in enumerate(nodes):
        if n[0] == 'each':
            body = n[4]
            for j in range(len(body)):
                if len(body) > 1:
                    yield nodes[:i] + [list(n[:4]) + [body[:j] + body[j + 1:]]] + nodes[i + 1:]
            for j, x in enumerate(body):
                if x[0] == 'cond':
                    yield nodes[:i] + [list(n[:4]) + [body[:j] + list(x[2]) + body[j + 1:]]] + nodes[i + 1:]
        elif n[0] == 'cond':
            yield nodes[:i] + list(n[2]) + nodes[i + 1:]


class C07(Prop):
    id = "C07"
    engine = "C07"
    judge_module = "Run.Judge_C07"
    prop_module = "Props.C07"
    prop_file = "Props/C07.v"
    coq_targets = ["Props/C07.vo", "Run/Judge_C07.vo"]
    sizes = {"quick": 300, "thorough": 4000}
    shard = 100
    design_ref = "DESIGN.md section 6 C07, section 7 F-C05-c / F-C07-b"
    rule = ("(template, data) pairs. Templates: 42% (45% when the data holds pugjs objects) one of 12 order-sensitive shapes modelled by Models/Purity.v (each k,v / "
            "&attributes / JSON.stringify / Object.keys / for-in / top-level name - 45% of them a name read like a constant - / Object.keys then each / Object.assign "
            "into an ordered literal then each / push / sort (a list of at least 2 elements) / x.k = v / Object.assign) or 'itag' = a tag with a computed "
            "name (#{tg}, tg a string with or without & < > \") as the first node - where the translator decides about "
            "escaping before it has seen a code node of the file; judged by the oracle alone; 23% 'acc' = state built during "
            "the render: an object or array created by a literal ({} / {zz: 1} / {a: 'x', k: 2} / Object.assign({}, o) / "
            "[] / ['u'], or - 14% of acc - the $global object every render starts with) is filled inside 1-2 each-loops over items / m / o / Object.keys(m) (acc[v] = true, acc[v] = k + '', "
            "acc[k] = [v], acc[k] = v ? v : 0, acc['p' + v] = 1, acc.last = v, acc.push(v), acc.unshift(v), 25% under a "
            "condition on v or k) and under a condition on the data, optionally "
            "nested into a second literal, then enumerated (each k,v), serialised (JSON.stringify, String()), listed "
            "(Object.keys / join / length) or read at keys the render may not have set (acc.zz, acc.flag, acc.a); 17% "
            "'free' statement lists (push, pop, shift, unshift, sort, splice, slice, member and index assignment, "
            "Object.assign, literals {} [] filled from the data, $global, variable shadowing, mixin attributes; with pugjs objects in "
            "the data 35% of the statements are in-place writes into items / m / o); 18% 'mix' = "
            "page-local mixins: 1-3 definitions under the names item / row / card / badge / mx (0-2 parameters; body = a "
            "marker text, the parameters, &attributes on a tag or attributes.x or items.length, optionally the block) and "
            "1-4 calls with arguments, attributes and blocks from the data (inside each-loops and tags; 10% of them call a "
            "name the file does NOT define). 55% of the acc / free / mix templates READ 1-2 of the names motto / claim / "
            "brand / lang / year like constants (printed, tested, as an attribute value, inside an expression); 60% of these names are "
            "variables of the page data, the others stay unset. acc, free and mix "
            "are pug trees judged by the oracle and predicted by the executor model run on the template ALONE (Pug.Compile + Tmpl.Exec; it "
            "declines use-before-definition, execution errors, function tables beyond the standard one and data in which two key names differ only in the case "
            "of the first letter - for 85% of the acc/free/mix cases the keys below the top level are lower-cased). "
            "Data: Go map[string]interface{}, map[string]string, map[string]int, map[int]string, []interface{}, "
            "[]string, []int, structs, pointers to structs, slices and maps, 0-48 keys (more than 8: several hash "
            "buckets), first-letter case collisions among keys (Foo/foo, A/a, Key/key). "
            "KEYS THAT ARE NOT STRINGS (13% of all map-like values - m, o and nested ones -, a third of the cases): Go maps keyed by bool "
            "(map[bool]interface{}, map[bool]string), a named bool type, int8, uint16, int64, float64 (quarters), a struct {A int; B string}, "
            "[2]int, a named string type, interface{} with bool / int / string keys mixed; 2-12 entries (6%: 0-1) whose keys all print "
            "differently under fmt.Sprint; the judge is given the entry names fmt.Sprint(key) as computed by the generator (kname), the "
            "oracle needs no names. STRUCT TYPES WITHOUT A NAME (13% of the map-like values + 3% of nested values, half of the "
            "cases): values and pointers (30%) of types built by reflect.StructOf from 1-6 of 19 field names with string / int / "
            "bool / []string / interface{} fields (65%; no name, no package path - the type of a struct literal) or of one of five "
            "types declared inside functions of the harness that are all called main.View (fields Title,Count / Name,Tags,Count / "
            "ID,Label,Items,Attrs / Label / Count,Title). The data of the pair, of each history / late render and of each alien "
            "render is generated independently, so a process converts several such types one after the other, in the order the case says. "
            "OBJECT-MODEL DATA (32% of the cases): values of the data are held as objects of the engine's own model - "
            "items in 90% of these cases (half of them a Go slice []pugjs.Object whose elements are pugjs.String / Number / Bool / Nil / *Map / *Array, "
            "the others the *pugjs.Array the caller got from pugjs.Convert), m and o in 60% each (*pugjs.Map from pugjs.Convert of a map or a struct - "
            "a struct's fields are converted on first access -, or map[string]pugjs.Object; otherwise their elements with 45%), other top-level values "
            "with 35%, the whole data in 6% (pugjs.Convert(map)); the same objects are handed to every render of the pair "
            "(r4 and the fresh processes build equal ones), the templates of these cases are 45% writing shapes (sort x3, push, "
            "setkey, objassign, assign_each, keys_each), 15% acc, 30% free with in-place writes, 10% mix. Every slice the harness "
            "builds ([]interface{}, []string, []int, []pugjs.Object) has len mod 3 marked elements of spare capacity behind its end; "
            "'untouched' = reflect.DeepEqual with an independently built copy AND equal contents of all spare elements. "
            "The judge sees an object as the Go value it was converted from (gen/c07.py d_coq). "
            "SIBLINGS: the rendered template is the file t (20%: sub/t) of template/page; every mix and itag case, every case "
            "whose template uses a mixin and 55% of the others get 1-3 sibling files that are never rendered - 60% in "
            "the template's directory, 20% in a sub-directory of it, 20% in its parent / another directory - each defining "
            "1-5 mixins, first of all the names the template defines or calls, with OTHER bodies and parameter lists, "
            "plus calls with blocks, script/style elements, doctypes, prints and statements, 40% ending in an unescaped "
            "code node (the translator leaves the file in raw mode); the 0-3 "
            "templates of the history (35% acc, 35% free, 12% mix, 18% shapes; 40% of the trees read a constant-like name the template reads) are siblings too. Three directory layouts "
            "per case: MAIN (template + history templates + siblings), ALONE (the template and nothing else), OTHER (the "
            "files of MAIN listed in the other order: in one of the two the template's entry comes before every sibling "
            "entry in os.File.Readdir, in the other after - the harness creates the files in the matching order and "
            "renames sibling entries until the listing it reads back says so; a run in which fewer than 80% of the "
            "cases with siblings got both orders is a check error). "
            "ENGINES: all engines of the pair (6 in the full process, 1 in each fresh process) have the standard function table plus - 35% of the cases whose "
            "template reads a constant-like name, 5% of the others - 1-2 zero-argument functions under such names (returning a string, "
            "number, bool or list built anew per call). ALIEN ENGINES (55% of the cases whose template reads such a name, 30% of the "
            "others; 1, in a quarter 2): further engine instances of the same process with a function table that DIFFERS from "
            "the pair's - each name the template reads is with 75% a function in exactly one of the two tables, 30% get more "
            "functions under other names (also title / foo / n / count / q) - over a directory of their own holding the SAME template "
            "files (70%) or other templates under the same names (30%); half of them are created and loaded BEFORE the pair's "
            "first engine exists (r0 is then not the first render of the process - the fresh processes are), the others after r2; 60% "
            "render once right after loading, and 0-2 renders of the history / the late phase are theirs (30% kept unread). Every "
            "alien render is repeated by the harness in a process that holds ONLY that engine (its files, its function "
            "table) and renders only that request; the pair (output in the full process, output in its own process) must be "
            "equal. An engine that fails to load is observed as class load_error for each of its renders (a template that "
            "loads in no process at all is a check error). "
            "NOT THE FIRST RENDER: every case that has a history / late render (by the pair's engines) with other data - 95% - "
            "gets a 5th process: it renders the first two such requests (on the engine that renders the pair, or - odd engine "
            "number - on a second instance created there) and then the pair, once; that output is judged with the others. "
            "Every case runs in 4-5 processes "
            "of its own plus one per alien render (the harness re-executes itself per case: nothing is shared between cases, a replay is "
            "self-contained): process 1 renders the pair 8 times and reads each result at once - r0 as the first render of the pair's engines, r1 again "
            "on the same engine, r2 on a second engine instance, then the HISTORY, r3 on a third engine, r4 with freshly "
            "built equal data on the first engine, r5 on an engine created only then, r6 on an engine over ALONE, r7 on an "
            "engine over OTHER; processes 2-4 render the pair "
            "exactly once, over MAIN, ALONE and OTHER, with no other engine in the process. HISTORY = 0-60 renders (acc/free/mix: 10% none, 68% 1-4, 17% 5-12, 5% 15-25 quick / 15-60 "
            "thorough; shapes: 0-12) of the same template with OTHER data (acc/free/mix: half of the entries, 80% of those "
            "with fresh random data) or of the other templates over the same variable "
            "names, each on a randomly chosen one of the three engine instances. "
            "KEPT RESULTS (Render returns an io.Reader; the output is what the caller reads, whenever it reads): in 60% of "
            "the cases the pair is rendered once more right after r0 and that reader is read LAST of all; 30% of the "
            "history renders (10% in long histories) and, after r7, a LATE phase of 0-8 renders (85%: 1-8; 40% the pair on any of the 6 engines - 85% "
            "of them kept -, 60% the same template with other data or another template, half of them kept; a kept result "
            "of the pair is always followed by a render of something else) keep their reader unread - a quarter of the "
            "kept ones after reading the first 1/2/5/16 bytes - while the process goes on rendering; when all renders are "
            "over the kept readers are read oldest first (20%) / newest first (40%) / in a pseudo-random permutation (40%), "
            "each to its end or (50%) round-robin 1/3/7/64 bytes at a time. Kept results of the pair are judged with "
            "r0..r7; every other kept render is repeated at the end with freshly built equal data, read at once, and the "
            "two outputs must be equal. A process the Go runtime kills (stack "
            "exhaustion on a self-referential object, ...) is observed as class 'crash' for each of its renders. non-trivial = acc / free / mix / mutating "
            "shape, alien engines or own functions, or the rendered map-like value has at least 2 keys; distinct by SHA-1 of the case")
    trusted = [
        "the Go map iteration oracle pi of the theorems is an arbitrary function returning a permutation of the "
        "entries it is given (Section hypothesis perm_oracle); the runtime's real iteration orders are sampled by "
        "the correspondence check (11-12 renders read at once per case, 4-5 processes)",
        "Template.execute / state.walk enter the history theorems as Section variables (new_exec, run_exec, output: "
        "arbitrary functions of the template and the converted data ALONE); that a render reads nothing else - no "
        "engine field, no package-level variable, pool or cache written by an earlier render in the process - is not "
        "proved but checked by the correspondence renders: r0 (nothing rendered before by the pair's engines) and the three "
        "single-render processes against r1..r7 (after renders of the same and other templates with the same and "
        "other data on the same and other engine instances), on templates whose output exposes per-render state "
        "(objects built from literals, $global, variables, mixin attributes)",
        "the translator (renderState: Parse + TokenToTemplate) enters C07_sibling_independent / "
        "C07_listing_order_independent as an arbitrary function `translate` of ONE file (Models/Purity.v load), and "
        "C07_other_engines_independent as a function of the file and the configuration (function table) of ITS engine "
        "(load_cfg); that "
        "compileDir really gives every file a translator of its own - that nothing (mixin table, block counter, "
        "doctype, raw mode, function table, finished translations) is carried from one file to the next or from one engine of the "
        "process to another - is not proved but checked: the "
        "engine over the template alone (r6, process 3) against engines over the template among siblings that define "
        "the same mixin names differently, in both listing orders (r0-r5, r7, processes 2 and 4); the pair's engines in a "
        "process where engines with other function tables were loaded before them against the processes without such engines; "
        "every render of an alien engine against the same render in a process of its own",
        "the result buffer enters C07_late_read_independent as a heap cell allocated by the render and never written "
        "again (Models/Purity.v rstep); that the io.Reader Engine.Render returns does not share storage with anything "
        "a later render writes is checked by the kept results (read after up to 60+8 further renders, in several orders)",
        "the conversion enters C07_input_untouched as mconvert, which copies EVERY cell of the caller's data; that the Go "
        "convert does so for every kind of value - Go slices, maps, structs, pointers, and values that already are "
        "pugjs objects (Engine.Render: convertData since the repair F-C07-d) - is not derived from the Go source but checked: "
        "reflect.DeepEqual of the caller's data (pugjs objects included, down to their unexported fields) with an "
        "independently built copy, and of the spare capacity behind every slice, after all renders of a process",
        "an object of the engine's model in the data is described to the judge by the Go value it was converted from "
        "(pugjs.Convert is applied by the harness; what Convert makes of that value is the engine's own code, and "
        "converting a converted value again shows a template the same members)",
        "the directory listing order is whatever os.File.Readdir returns on the file system of TMPDIR; the harness "
        "reads it back with the same call and reports per layout whether the template came before / after all siblings "
        "(distribution.listed_before_all_siblings_and_after_all_siblings)",
        "the executor model Pug.Compile + Tmpl.Exec (shared with C01-C06) predicts the acc / free / mix templates from the "
        "template and the data alone; it starts every render from a heap holding only the converted data and an "
        "empty $global, and every literal allocates a new heap cell; `x[i] = e` is run as the call x.__assign(i, e) "
        "(the action text pugjs emits for both, Run/Judge_C07.v rw_node); its panics are not used as predictions; it knows "
        "the standard function table only (cases whose engines have more functions are judged by the oracle alone)",
        "reflect.DeepEqual against a second, independently built copy of the data is the harness's oracle for "
        "'input untouched'",
        "lowerFirst is modelled on an ASCII first byte (generators use ASCII first letters)",
        "the name of a map entry whose key is not a string is fmt.Sprint(key) (Models/Purity.v key_text for int keys); for "
        "the other key kinds (bool, sized ints, float64, struct, array, named types, interface{}) the generator computes "
        "that text itself (gen/c07.py kname: true/false, decimal, quarters in plain decimal, {A B}, [a b]) and hands it to the "
        "judge as a string key - the property's oracle (all outputs equal) does not use it",
        "the member names of a struct are lowerFirst of its field names, per VALUE (Run/Judge_C07.v dval_of works on the field "
        "list of each GStruct); that the Go conversion does not take them from anything keyed by less than the type itself "
        "(type name, package path) is checked: reflect.StructOf types and same-named function-local types with different "
        "fields follow each other in one process, and the extra process in which another render comes before the pair",
        "process isolation: the harness binary re-executes itself (os/exec) once per case, per single render, per "
        "alien render and for the process in which the pair is not the first render",
    ]
    assumptions = ["perm_oracle pi: every map range visits each entry exactly once, in some order",
                   "a render's execution state is a function of (template, converted data) - Section variables "
                   "new_exec / run_exec / output of C07_history_independent, C07_engine_independent, "
                   "C07_process_history_independent, C07_late_read_independent; sampled, not proved (see trusted)",
                   "a compiled template is a function of its own file and of its own engine's function table - variable "
                   "translate of C07_sibling_independent / C07_listing_order_independent / C07_other_engines_independent; "
                   "sampled, not proved (see trusted)",
                   "template names (paths below template/page) are pairwise distinct - NoDup hypothesis of "
                   "C07_listing_order_independent",
                   "two keys of one Go map never print alike under fmt.Sprint (the generator drops such keys: 1 and \"1\" in a "
                   "map[interface{}] really collapse into one entry chosen by iteration order - convert's documented naming)",
                   "the conversion copies every cell of the caller's data (mconvert; keep = nothing in "
                   "C07_copy_all_untouched) - C07_shared_object_refuted shows what a conversion that keeps a cell does"]
    not_yet_proved = [
        "that the Go executor keeps no state between renders (package-level variables, pools, caches) is outside "
        "the Coq development: the theorems quantify over an executor that is a function of template and data; the "
        "correspondence check samples it with histories of up to 60 renders per case",
        "that the Go translator is created per file with the function table of its engine, that the returned reader owns "
        "its bytes and that convert copies every value of the caller are modelled "
        "(load / load_cfg, rstep, mconvert) but not derived from the Go source; the variants load_shared / load_all_memo / "
        "rstep_pooled / mconvert_keep are refuted "
        "(C07_shared_translator_refuted, C07_translation_memo_refuted, C07_pooled_buffer_refuted, "
        "C07_shared_object_refuted) and the real code is sampled by the sibling "
        "layouts, the alien engines, the kept results and the object-model data",
        "the naming of map entries with non-string keys and of struct members is part of the data description handed to "
        "the models (key_text / lower_first per value), not a theorem about convert: no Coq statement says that a table of "
        "member names keyed by the type's name would be wrong - the check samples it (several unnamed / same-named struct "
        "types per process, every non-string key kind with >= 2 entries, rendered 12 times in 5 processes)",
        "template functions other than zero-argument constants (functions with arguments, functions returning the "
        "same object on every call) are not generated; the package-level debugMode / loggerInstance of pugjs "
        "(setLoggerInfos) are shared by all engines of a process - engines with different Debug settings are not part of this check",
        "concurrent renders (two goroutines rendering at the same time) and RenderPartials (several results in one "
        "map) are not part of this check; results are kept and read on one goroutine",
        "debug mode (Engine.Debug: a filtered load per render) is not part of this check",
    ]

    def generate(self, rng, n, tier):
        return [case_json(g_case(rng, tier)) for _ in range(n)]

    # the harness gives every case processes of its own: 1 full sequence + FRESH_PROCESSES single renders
    def run(self, binary, cases, tmp, tier):
        obss = run_harness(binary, self.engine, [to_harness(c) for c in cases])
        for i, o in enumerate(obss):
            if len(o["r"]) != FULL_RENDERS or len(o["fresh"]) != FRESH_PROCESSES + bool(before_reqs(cases[i])):
                raise BuildError("harness returned %d+%d renders (case %d)" % (len(o["r"]), len(o.get("fresh") or []), i), "")
            # an engine that does not load is an observation (class load_error) - but a template that loads nowhere,
            # not even in the processes that hold nothing else, is a defect of the generator
            if all(r["class"] == "load_error" for r in o["r"] + o["fresh"]):
                raise BuildError("generated template does not load (case %d)" % i,
                                 json.dumps(cases[i])[:3000] + "\n" + o.get("msg", ""))
            if len(o["alien"]) != len(o["alien_ref"]) or len(o["alien"]) != n_alien_renders(cases[i]):
                raise BuildError("harness returned %d+%d renders by alien engines, expected %d (case %d)"
                                 % (len(o["alien"]), len(o["alien_ref"]), n_alien_renders(cases[i]), i), "")
            c = cases[i]
            reqs = [p for p in list(c["prefix"]) + list(c.get("late", [])) if not is_alien_req(c, p)]
            want_held = bool(c.get("hold_first")) + sum(1 for p in reqs if p.get("pair"))
            want_pairs = sum(1 for p in reqs if not p.get("pair") and p.get("hold"))
            if len(o["held"]) != want_held or len(o["pairs"]) != want_pairs:
                raise BuildError("harness returned %d kept results of the pair and %d of other renders, expected %d "
                                 "and %d (case %d)" % (len(o["held"]), len(o["pairs"]), want_held, want_pairs, i), "")
        # the check claims both listing orders: say so if the file system does not give them
        with_sibs = [o for c, o in zip(cases, obss) if c.get("siblings")]
        both = sum(1 for o in with_sibs if (o["main"]["t_before_all"] and o["other"]["t_after_all"])
                   or (o["main"]["t_after_all"] and o["other"]["t_before_all"]))
        if len(with_sibs) >= 20 and both * 10 < len(with_sibs) * 8:
            raise BuildError("the rendered template was listed before AND after its siblings in only %d of %d "
                             "cases with siblings" % (both, len(with_sibs)), "")
        return obss

    @staticmethod
    def outs(obs):
        return list(obs["r"]) + list(obs["fresh"]) + list(obs.get("held", []))

    def emit(self, case, obs):
        outs = [cq_opt(cq_bytes(unhx(r["out"]))) if r["class"] == "ok" else b"None" for r in self.outs(obs)]
        untouched = obs["untouched"] and obs["prefix_untouched"] and obs["fresh_untouched"]
        ob = lambda r: cq_opt(cq_bytes(unhx(r["out"]))) if r["class"] == "ok" else b"None"
        pairs = [cq_pair(ob(a), ob(b_)) for a, b_ in obs.get("pairs", [])]
        # a render by an alien engine in the full process / the same render in a process holding only that engine
        pairs += [cq_pair(ob(a), ob(b_)) for a, b_ in zip(obs.get("alien", []), obs.get("alien_ref", []))]
        tree = tpl_tree(case["nodes"]["t"])
        return (b"{| c_shape := " + shape_coq(tuple(case["shape"])) +
                b"; c_tmpl := " + cq_opt(None if tree is None else cq_list([tmpl.pug_coq(n) for n in tree])) +
                b"; c_data := " + d_coq(tuplify(case["data"])) +
                b"; c_funcs := " + cq_list([cq_bytes(k) for k in sorted(case.get("funcs", {}))]) +
                b"; c_outs := " + cq_list(outs) + b"; c_pairs := " + cq_list(pairs) +
                b"; c_untouched := " + cq_bool(untouched) + b" |}")

    def nontrivial(self, case, obs):
        d = top_of(tuplify(case["data"]))
        m = dict(d[1]).get("m")
        if case["shape"][0] in ("free", "acc", "mix", "push", "sort", "setkey", "objassign", "assign_each"):
            return True
        if case.get("aliens") or case.get("funcs"):
            return True
        if m is None:
            return False
        m = top_of(m)
        return m[0] in ('rec', 'prec', 'st') or len(m[1]) >= 2

    def sample(self, case, obs):
        outs = self.outs(obs)
        return {"shape": case["shape"], "template": tpl_ast(case["nodes"]["t"]), "data": d_plain(tuplify(case["data"])),
                "template_path": t_path(case),
                "siblings": {n: tpl_ast(v) for n, v in list(case.get("siblings", {}).items())[:2]},
                "listing": {"main": obs.get("main"), "other": obs.get("other")},
                "history": [self.req_plain(case, p) for p in case["prefix"]],
                "late": [self.req_plain(case, p) for p in case.get("late", [])],
                "kept_first": bool(case.get("hold_first")), "read_seed": case.get("read_seed", 0),
                "read_step": case.get("read_step", 0),
                "kept_results_of_pair": len(obs.get("held", [])), "kept_results_of_other_renders": len(obs.get("pairs", [])),
                "go_outputs_distinct": len({(r["class"], r["out"]) for r in outs}), "renders": len(outs),
                "go_output": unhx(outs[0]["out"]).decode("utf-8", "replace")[:300] if outs[0]["class"] == "ok" else outs[0]["class"],
                "data_untouched": obs["untouched"] and obs["prefix_untouched"] and obs["fresh_untouched"],
                "functions_of_the_pair_engines": sorted(case.get("funcs", {})),
                "alien_engines": [{"functions": sorted(a.get("funcs", {})), "created_first": bool(a.get("first")),
                                   "same_files_as_pair": a["files"] == case["nodes"]} for a in case.get("aliens", [])],
                "alien_renders": len(obs.get("alien", []))}

    @staticmethod
    def req_plain(case, p):
        how = ["read at once", "kept unread", "first %d bytes read, rest kept" % p.get("pre", 0)][p.get("hold", 0)]
        if p.get("pair"):
            return {"render": "t", "engine": p.get("on", 0), "data": "same", "result": how}
        if is_alien_req(case, p):
            return {"render": p["render"], "engine": "alien %d" % (p["on"] - 100),
                    "data": "same" if p["data"] == case["data"] else "other", "result": how}
        return {"render": p["render"], "engine": p.get("on", 2),
                "data": "same" if p["data"] == case["data"] else "other", "result": how}

    def shrink(self, case):
        # no siblings / fewer siblings / the plain location, fewer late renders, nothing kept, then:
        # shorter history, fewer other templates, smaller template, fewer top-level keys, fewer entries of m / o
        # no alien engines / fewer / created later / without warm renders / over the pair's files; no own functions;
        # plain Go data instead of pugjs objects
        aliens = case.get("aliens", [])
        if aliens:
            c = dict(case)
            c["aliens"] = []
            c["prefix"] = [p for p in case["prefix"] if not is_alien_req(case, p)]
            c["late"] = [p for p in case.get("late", []) if not is_alien_req(case, p)]
            yield c
            if len(aliens) > 1:
                for i in range(len(aliens)):
                    keep = lambda p: not is_alien_req(case, p) or (p["on"] - 100) % len(aliens) != i
                    fix = lambda p: dict(p, on=100) if is_alien_req(case, p) else p
                    c = dict(case)
                    c["aliens"] = aliens[:i] + aliens[i + 1:]
                    c["prefix"] = [fix(p) for p in case["prefix"] if keep(p)]
                    c["late"] = [fix(p) for p in case.get("late", []) if keep(p)]
                    yield c
            for i, a in enumerate(aliens):
                if a.get("warm"):
                    c = dict(case)
                    c["aliens"] = aliens[:i] + [dict(a, warm=[])] + aliens[i + 1:]
                    yield c
                if a["files"] != case["nodes"]:
                    c = dict(case)
                    c["aliens"] = aliens[:i] + [dict(a, files=case["nodes"])] + aliens[i + 1:]
                    yield c
                if len(a["files"]) > 1:
                    used_a = {p["render"] for p in a.get("warm", [])} | {p["render"] for p in case["prefix"] + case.get("late", [])
                                                                         if is_alien_req(case, p)}
                    for n_ in a["files"]:
                        if n_ not in used_a:
                            c = dict(case)
                            c["aliens"] = aliens[:i] + [dict(a, files={x: y for x, y in a["files"].items() if x != n_})] + aliens[i + 1:]
                            yield c
                for fn in a.get("funcs", {}):
                    c = dict(case)
                    c["aliens"] = aliens[:i] + [dict(a, funcs={x: y for x, y in a["funcs"].items() if x != fn})] + aliens[i + 1:]
                    yield c
            for key in ("prefix", "late"):
                for i, p in enumerate(case.get(key, [])):
                    if is_alien_req(case, p):
                        c = dict(case)
                        c[key] = case[key][:i] + case[key][i + 1:]
                        yield c
        if case.get("funcs"):
            for fn in case["funcs"]:
                c = dict(case)
                c["funcs"] = {x: y for x, y in case["funcs"].items() if x != fn}
                yield c
        if has_objects(tuplify(case["data"])):
            c = dict(case)
            c["data"] = jsonable(erase_objects(tuplify(case["data"])))
            yield c
            d0 = tuplify(case["data"])
            if d0[0] == 'obj':
                c = dict(case)
                c["data"] = jsonable(d0[1])
                yield c
            elif d0[0] == 'map':
                for i, (k, v) in enumerate(d0[1]):
                    if has_objects(v):
                        c = dict(case)
                        c["data"] = jsonable(('map', d0[1][:i] + [(k, erase_objects(v))] + d0[1][i + 1:]))
                        yield c
        sibs = case.get("siblings", {})
        if sibs:
            c = dict(case)
            c["siblings"] = {}
            yield c
            if len(sibs) > 1:
                for k in sibs:
                    c = dict(case)
                    c["siblings"] = {a: b_ for a, b_ in sibs.items() if a != k}
                    yield c
            for k, v in sibs.items():
                tree = tpl_tree(v)
                if tree is not None and len(tree) > 1:
                    for cand in shrink_tree(tree):
                        c = dict(case)
                        c["siblings"] = dict(sibs)
                        c["siblings"][k] = {"tree": cand}
                        yield c
            for k in sibs:
                if "/" in k and k.rsplit("/", 1)[-1] not in sibs and not case.get("tdir"):
                    c = dict(case)
                    c["siblings"] = {(a.rsplit("/", 1)[-1] if a == k else a): b_ for a, b_ in sibs.items()}
                    yield c
        if case.get("tdir") and all(k.startswith(case["tdir"] + "/") for k in sibs):
            c = dict(case)
            c["tdir"] = ""
            c["siblings"] = {k[len(case["tdir"]) + 1:]: v for k, v in sibs.items()}
            yield c
        late = case.get("late", [])
        if late:
            c = dict(case)
            c["late"] = []
            yield c
            for i in range(len(late)):
                c = dict(case)
                c["late"] = late[:i] + late[i + 1:]
                yield c
        if case.get("hold_first"):
            c = dict(case)
            c["hold_first"] = False
            yield c
        for key in ("prefix", "late"):
            for i, p in enumerate(case.get(key, [])):
                if p.get("hold"):
                    c = dict(case)
                    c[key] = list(case[key])
                    c[key][i] = dict(p, hold=0, pre=0)
                    yield c
                elif p.get("on"):
                    c = dict(case)
                    c[key] = list(case[key])
                    c[key][i] = dict(p, on=0)
                    yield c
        if case.get("read_step"):
            c = dict(case)
            c["read_step"] = 0
            yield c
        if case.get("read_seed"):
            c = dict(case)
            c["read_seed"] = 0
            yield c
        n = len(case["prefix"])
        if n:
            c = dict(case)
            c["prefix"] = []
            yield c
        used0 = {p["render"] for p in case["prefix"] + case.get("late", []) if not p.get("pair")} | {"t"}
        if any(k not in used0 for k in case["nodes"]):
            c = dict(case)
            c["nodes"] = {a: b_ for a, b_ in case["nodes"].items() if a in used0}
            yield c
        if n > 4:
            for c_ in (case["prefix"][:n // 2], case["prefix"][n // 2:]):
                c = dict(case)
                c["prefix"] = c_
                yield c
        for i in range(n):
            c = dict(case)
            c["prefix"] = case["prefix"][:i] + case["prefix"][i + 1:]
            yield c
        used = {p["render"] for p in case["prefix"] + case.get("late", []) if not p.get("pair")} | {"t"}
        for n_ in case["nodes"]:
            if n_ not in used:
                c = dict(case)
                c["nodes"] = {a: b_ for a, b_ in case["nodes"].items() if a != n_}
                yield c
        for name in sorted(used):
            entry = case["nodes"].get(name)
            tree = tpl_tree(entry) if entry is not None else None
            if tree is not None and len(tree) > 1:
                for cand in shrink_tree(tree):
                    c = dict(case)
                    c["nodes"] = dict(case["nodes"])
                    c["nodes"][name] = {"tree": cand}
                    yield c
            elif name == "t" and case["shape"][0] == "free" and entry is not None and len(entry) > 1:
                for i in range(len(entry)):
                    c = dict(case)
                    c["nodes"] = dict(case["nodes"])
                    c["nodes"]["t"] = entry[:i] + entry[i + 1:]
                    yield c
        # the data of a history render: the pair's own data instead of other data is simpler
        d = case["data"]
        inner = d[1] if d[0] in ('ptr', 'obj') else d
        wrap = (lambda x: [d[0], x]) if d[0] in ('ptr', 'obj') else (lambda x: x)
        if d[0] in ('ptr', 'obj'):
            c = dict(case)
            c["data"] = inner
            yield c
        top = inner[1]
        for i, (k, v) in enumerate(top):
            if k not in ("m", "o", "items"):
                c = dict(case)
                c["data"] = wrap(['map', top[:i] + top[i + 1:]])
                yield c
        for i, (k, v) in enumerate(top):
            if v[0] in ('map', 'smap', 'imap', 'nmap', 'omap', 'kmap') and len(v[1]) > 0:
                for j in range(len(v[1])):
                    c = dict(case)
                    c["data"] = wrap(['map', top[:i] + [[k, [v[0], v[1][:j] + v[1][j + 1:]] + list(v[2:])]] + top[i + 1:]])
                    yield c
            elif v[0] in ('arr', 'strs', 'ints', 'objs') and len(v[1]) > 0:
                for j in range(len(v[1])):
                    c = dict(case)
                    c["data"] = wrap(['map', top[:i] + [[k, [v[0], v[1][:j] + v[1][j + 1:]]]] + top[i + 1:]])
                    yield c
            elif v[0] == 'obj' and v[1][0] in ('arr', 'strs', 'ints', 'map', 'smap', 'imap') and len(v[1][1]) > 0:
                w = v[1]
                for j in range(len(w[1])):
                    c = dict(case)
                    c["data"] = wrap(['map', top[:i] + [[k, ['obj', [w[0], w[1][:j] + w[1][j + 1:]]]]] + top[i + 1:]])
                    yield c
        # smaller data in the history renders
        for pi_, p in enumerate(case["prefix"]):
            pd = p.get("data")
            if pd is None or pd[0] != 'map':
                continue
            ptop = pd[1]
            for i, (k, v) in enumerate(ptop):
                cand = None
                if k not in ("m", "o", "items"):
                    cand = ptop[:i] + ptop[i + 1:]
                elif v[0] in ('map', 'smap', 'imap', 'nmap', 'arr', 'strs', 'ints') and len(v[1]) > 1:
                    cand = ptop[:i] + [[k, [v[0], v[1][:len(v[1]) // 2]]]] + ptop[i + 1:]
                if cand is not None:
                    c = dict(case)
                    c["prefix"] = list(case["prefix"])
                    c["prefix"][pi_] = dict(p, data=['map', cand])
                    yield c

    def model_expr(self):
        return "(model07 c, oracle07 c, dom_data (c_data c), c_outs c)"

    def distribution(self, cases, obss):
        d = {"shape": {}, "m_kind": {}, "m_keys": {"0-1": 0, "2-8": 0, "9+": 0}, "data_kinds": {},
             "with_history": 0, "history_renders": 0, "history_len": {"0": 0, "1-4": 0, "5-12": 0, "13+": 0},
             "history_same_template_other_data": 0, "history_other_engine": 0,
             "state_building_templates_with_history_of_same_template_other_data": 0,
             "go_exec_error": 0, "first_letter_collisions": 0,
             "renders_read_at_once_per_case": "%d-%d" % (FULL_RENDERS + FRESH_PROCESSES, FULL_RENDERS + FRESH_PROCESSES + 1),
             "processes_per_case": "%d-%d" % (1 + FRESH_PROCESSES, 2 + FRESH_PROCESSES),
             "template_in_subdirectory": 0, "with_siblings": 0, "sibling_files": 0,
             "siblings_defining_a_mixin_name_the_template_uses": 0, "sibling_in_other_directory": 0,
             "listed_before_all_siblings_and_after_all_siblings": 0,
             "kept_results_of_the_pair": 0, "kept_results_of_other_renders": 0, "partly_read_then_kept": 0,
             "cases_with_kept_result": 0, "late_renders": 0, "read_order": {"oldest_first": 0, "newest_first": 0,
                                                                            "permuted": 0}, "read_round_robin": 0,
             # values of the engine's own object model in the data
             "cases_with_pugjs_objects_in_data": 0, "object_kinds": {"obj": 0, "objs": 0, "omap": 0},
             "items_is_a_slice_of_pugjs_objects": 0, "items_is_a_converted_array": 0, "m_or_o_is_a_converted_map": 0,
             "whole_data_is_a_converted_map": 0, "objects_in_data_and_template_writes_in_place": 0,
             "objects_in_data_and_template_sorts": 0,
             # engines with other function tables / template sets
             "templates_reading_a_constant_like_name": 0, "pair_engines_with_own_functions": 0,
             "cases_with_alien_engines": 0, "alien_engines": 0, "alien_engines_created_first": 0,
             "alien_engines_over_other_files_under_the_same_names": 0,
             "name_read_by_the_template_is_function_in_one_engine_and_variable_in_another": 0,
             "... and that other engine is created first": 0,
             "alien_renders": 0, "alien_renders_ok_in_both_processes": 0, "alien_renders_kept_unread": 0,
             "engine_load_errors_observed": 0,
             # keys that are not strings / struct types without a name
             "cases_with_non_string_keyed_map": 0, "non_string_key_kinds": {}, "... rendered map (m or o) is one with >= 2 entries": 0,
             "cases_with_unnamed_or_local_struct_type": 0, "distinct_such_struct_types_per_process": {"0": 0, "1": 0, "2-3": 0, "4+": 0},
             "cases_with_process_where_pair_is_not_first_render": 0,
             "... and the renders before it convert another unnamed/local struct type than the pair's data": 0}
        for c, o in zip(cases, obss):
            dt = tuplify(c["data"])
            kinds = d_kinds(dt, set())
            if kinds & set(OBJ_KINDS):
                d["cases_with_pugjs_objects_in_data"] += 1
                for k in OBJ_KINDS:
                    d["object_kinds"][k] += k in kinds
                tp = dict(top_of(dt)[1])
                it = tp.get("items", ('nil',))
                d["items_is_a_slice_of_pugjs_objects"] += it[0] == 'objs'
                d["items_is_a_converted_array"] += it[0] == 'obj'
                d["m_or_o_is_a_converted_map"] += any(tp.get(x, ('nil',))[0] in ('obj', 'omap') for x in ("m", "o"))
                d["whole_data_is_a_converted_map"] += dt[0] == 'obj'
                src = json.dumps(tpl_ast(c["nodes"]["t"]))
                writes = any(w in src for w in (".sort(", ".push(", ".pop(", ".shift(", ".unshift(", ".splice(", " = ",
                                                "Object.assign("))
                d["objects_in_data_and_template_writes_in_place"] += writes
                d["objects_in_data_and_template_sorts"] += ".sort(" in src
            reads = tree_consts(tpl_ast(c["nodes"]["t"]))
            d["templates_reading_a_constant_like_name"] += bool(reads)
            d["pair_engines_with_own_functions"] += bool(c.get("funcs"))
            al = c.get("aliens", [])
            d["cases_with_alien_engines"] += bool(al)
            d["alien_engines"] += len(al)
            d["alien_engines_created_first"] += sum(1 for a in al if a.get("first"))
            d["alien_engines_over_other_files_under_the_same_names"] += sum(1 for a in al if a["files"] != c["nodes"])
            pf = set(c.get("funcs", {}))
            differ = [a for a in al if any((x in pf) != (x in a.get("funcs", {})) for x in reads)]
            d["name_read_by_the_template_is_function_in_one_engine_and_variable_in_another"] += bool(differ)
            d["... and that other engine is created first"] += any(a.get("first") for a in differ)
            d["alien_renders"] += len(o.get("alien", []))
            d["alien_renders_ok_in_both_processes"] += sum(1 for a, b_ in zip(o.get("alien", []), o.get("alien_ref", []))
                                                           if a["class"] == "ok" and b_["class"] == "ok")
            d["alien_renders_kept_unread"] += sum(1 for p in list(c["prefix"]) + list(c.get("late", []))
                                                  if is_alien_req(c, p) and p.get("hold"))
            d["engine_load_errors_observed"] += any(r["class"] == "load_error" for r in self.outs(o) + list(o.get("alien", []))
                                                    + list(o.get("alien_ref", [])))
            km = kinds_of(dt, 'kmap')
            d["cases_with_non_string_keyed_map"] += bool(km)
            for x in km:
                d["non_string_key_kinds"][x[2]] = d["non_string_key_kinds"].get(x[2], 0) + 1
            tpm = dict(top_of(dt)[1])
            d["... rendered map (m or o) is one with >= 2 entries"] += any(
                tpm.get(x, ('nil',))[0] == 'kmap' and len(tpm[x][1]) >= 2 for x in ("m", "o"))
            sig = lambda x: (x[2], tuple((k, v[0]) for k, v in x[1]))
            mine = {sig(x) for x in kinds_of(dt, 'st')}
            d["cases_with_unnamed_or_local_struct_type"] += bool(mine)
            everything = set(mine)
            for p in list(c["prefix"]) + list(c.get("late", [])) + [w for a in c.get("aliens", []) for w in a.get("warm", [])]:
                if p.get("data") is not None:
                    everything |= {sig(x) for x in kinds_of(tuplify(p["data"]), 'st')}
            ne = len(everything)
            d["distinct_such_struct_types_per_process"]["0" if ne == 0 else "1" if ne == 1 else "2-3" if ne <= 3 else "4+"] += 1
            bf = before_reqs(c)
            d["cases_with_process_where_pair_is_not_first_render"] += bool(bf)
            before_types = set()
            for p in bf:
                before_types |= {sig(x) for x in kinds_of(tuplify(p["data"]), 'st')}
            d["... and the renders before it convert another unnamed/local struct type than the pair's data"] += bool(
                mine and before_types - mine)
            d["shape"][c["shape"][0]] = d["shape"].get(c["shape"][0], 0) + 1
            data = tuplify(c["data"])
            for k in d_kinds(data, set()):
                d["data_kinds"][k] = d["data_kinds"].get(k, 0) + 1
            inner = top_of(data)
            names = [k for k, _ in inner[1]]
            m = dict(inner[1]).get("m")
            if m is not None:
                mm = top_of(m)
                d["m_kind"][m[0]] = d["m_kind"].get(m[0], 0) + 1
                n = len(mm[1])
                d["m_keys"]["0-1" if n < 2 else "2-8" if n <= 8 else "9+"] += 1
                if mm[0] in ('map', 'smap', 'imap', 'omap'):
                    names = names + ["m." + k for k, _ in mm[1]]
            folded = [(x.rsplit(".", 1)[0] if "." in x else "", (x.rsplit(".", 1)[-1][:1].lower() + x.rsplit(".", 1)[-1][1:]))
                      for x in names]
            d["first_letter_collisions"] += len(folded) != len(set(folded))
            h = c["prefix"]
            d["with_history"] += bool(h)
            d["history_renders"] += len(h)
            d["history_len"]["0" if not h else "1-4" if len(h) <= 4 else "5-12" if len(h) <= 12 else "13+"] += 1
            same_other = any(not p.get("pair") and p["render"] == "t" and p["data"] != c["data"] for p in h)
            d["history_same_template_other_data"] += same_other
            d["history_other_engine"] += any(p.get("on", 2) != 2 for p in h)
            d["state_building_templates_with_history_of_same_template_other_data"] += (
                same_other and c["shape"][0] in TREE_FAMILIES)
            d["go_exec_error"] += any(r["class"] != "ok" for r in self.outs(o))
            sibs = c.get("siblings", {})
            d["template_in_subdirectory"] += bool(c.get("tdir"))
            d["with_siblings"] += bool(sibs)
            d["sibling_files"] += len(sibs)
            tree = tpl_tree(c["nodes"]["t"])
            mine = set(tree_mixin_names(tree)) if tree is not None else set()
            d["siblings_defining_a_mixin_name_the_template_uses"] += any(
                mine & {n[1] for n in (tpl_tree(v) or []) if n[0] == 'mixin'} for v in sibs.values())
            tdir = c.get("tdir") or ""
            d["sibling_in_other_directory"] += any(k.rsplit("/", 1)[0] != tdir if "/" in k else bool(tdir) for k in sibs)
            if sibs and "main" in o:
                d["listed_before_all_siblings_and_after_all_siblings"] += bool(
                    (o["main"]["t_before_all"] and o["other"]["t_after_all"])
                    or (o["main"]["t_after_all"] and o["other"]["t_before_all"]))
            reqs = list(h) + list(c.get("late", []))
            d["late_renders"] += len(c.get("late", []))
            kp = bool(c.get("hold_first")) + sum(1 for p in reqs if p.get("pair") and p.get("hold"))
            ko = sum(1 for p in reqs if not p.get("pair") and p.get("hold"))
            d["kept_results_of_the_pair"] += kp
            d["kept_results_of_other_renders"] += ko
            d["partly_read_then_kept"] += sum(1 for p in reqs if p.get("hold") == 2)
            d["cases_with_kept_result"] += bool(kp or ko)
            if kp or ko:
                rs = c.get("read_seed", 0)
                d["read_order"]["oldest_first" if rs == 0 else "newest_first" if rs == 1 else "permuted"] += 1
                d["read_round_robin"] += bool(c.get("read_step"))
        return d


PROP = C07()
